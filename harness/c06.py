"""C06 - frequency-domain representations of a filter agree.

Proof:   coq/C06 (arrays, loops, recipes over an abstract value type; index
         arithmetic over Q; Gabor/gammatone/Fbank values and the 2*eps bounds
         over R).
Tie:     correspondence.  For generated (bank, filter, width) the Gallina model
         is evaluated inside Coq (vm_compute) with the exact rationals of the
         implementation's public floats (supports_hz, centers_hz, rate) and
         compared with get_frequency_response / get_truncated_response:
           - positions exactly: the model runs on *tags* (value of bin idx =
             idx+1), so its output says which bin's value sits where in the
             full / half / truncated arrays; the implementation must have zeros
             exactly where the model has none and the same float wherever the
             model has the same tag;
           - values: triangle values against Model.tri_val over Q (compared in
             Coq), Fbank / Gabor / gammatone values against ModelR by Interval;
           - Gabor/gammatone: start bin, length, whole-period decision.
Search:  the property itself, executed on the implementation (recipe from the
         docstring, 2*eps bound, exactness, half prefix, Hermitian symmetry,
         analytic zeros, finiteness, start range, half-spectrum containment); the same
         clauses for banks built after config.EFFECTIVE_SUPPORT_THRESHOLD was lowered /
         raised at run time, with the bounds relative to the value in force.
"""

import math
import os
import sys
import warnings
from fractions import Fraction

from . import common as C

sys.path.insert(0, os.path.join(C.ROOT, "gen"))

TAG = "r%d_" % os.getpid()  # scratch files of this run (build/C06/), removed at the end
PRIV_GABOR = ("_stds", "_centers_ang", "_scale_l2_norm")
PRIV_GT = ("_alphas", "_cs", "_xis", "_offsets", "_order")


# --------------------------------------------------------------------------
# rendering


def qz(fr):
    """Fraction -> Coq Q literal."""
    fr = Fraction(fr)
    n, d = fr.numerator, fr.denominator
    return "(%d # %d)" % (n, d) if n >= 0 else "(-%d # %d)" % (-n, d)


def qr(x):
    """float/Fraction -> Coq R term (exact)."""
    fr = Fraction(x)
    n, d = fr.numerator, fr.denominator
    s = "(%d)" % n if n < 0 else "%d" % n
    return s if d == 1 else "(%s / %d)" % (s, d)


def cb(b):
    return "true" if b else "false"


def expand_rle(runs, n):
    out = [0] * n
    for (s, ln, t0, st) in runs:
        for j in range(ln):
            if 0 <= s + j < n:
                out[s + j] = t0 + st * j
    return out


# --------------------------------------------------------------------------
# banks


def make_scale(scales_mod, name, arg):
    if name == "mel":
        return scales_mod.MelScaling()
    if name == "bark":
        return scales_mod.BarkScaling()
    if name == "linear":
        return scales_mod.LinearScaling(arg[0], arg[1])
    if name == "octave":
        return scales_mod.OctaveScaling(arg[0])
    raise ValueError(name)


def make_bank(mods, d):
    filters, scales_mod = mods
    k = d["kind"]
    if k == "fbank":
        return filters.Fbank(d["num_filts"], d["high_hz"], d["low_hz"], d["rate"], d["analytic"])
    sc = make_scale(scales_mod, d["scale"], d.get("scale_arg"))
    if k == "tri":
        return filters.TriangularOverlappingFilterBank(sc, d["num_filts"], d["high_hz"], d["low_hz"], d["rate"], d["analytic"])
    if k == "gabor":
        return filters.GaborFilterBank(sc, d["num_filts"], d["high_hz"], d["low_hz"], d["rate"], d["l2"], d["erb"])
    if k == "gt":
        return filters.ComplexGammatoneFilterBank(
            sc, d["num_filts"], d["high_hz"], d["low_hz"], d["rate"], d["order"], d["max_centered"], d["l2"], d["erb"])
    raise ValueError(k)


def random_bank_desc(ctx, kind=None):
    r = ctx.rng
    kind = kind or r.choice(["tri", "tri", "fbank", "fbank", "gabor", "gabor", "gt", "gt"])
    rate = r.choice([8000, 16000, 16000, 11025, 22050, 44100, 48000, 16000.0, 12345.0, 8000.5])
    scale = r.choice(["mel", "mel", "bark", "linear", "octave"])
    d = dict(kind=kind, rate=rate, num_filts=r.choice([1, 2, 3, 5, 8, 10, 23, 40]))
    low = r.choice([0, 0, 20.0, 64.0, 100.0, 133.3333, 300.0, 1000.0])
    if scale == "octave":
        low = max(low, 20.0)
        d["scale_arg"] = [r.choice([20.0, 1.0, 55.5])]
    elif scale == "linear":
        d["scale_arg"] = [r.choice([0.0, 10.0]), r.choice([1.0, 0.5, 3.25])]
    d["scale"] = scale if kind != "fbank" else "mel"
    if kind == "fbank":
        d.pop("scale_arg", None)
    d["low_hz"] = low
    d["high_hz"] = r.choice([None, None, rate // 2, rate / 4, rate // 2 - 100, round(0.37 * rate, 2), low + r.choice([50.0, 400.0, 1500.0])])
    if kind == "tri" and r.random() < 0.2:
        # the documented 1 Hz leeway above the Nyquist frequency: the top edge must still be
        # clamped to it (needs a DFT finer than the excess to show)
        d["rate"] = rate = r.choice([1000, 1000.0, 2000, 501.0])
        d["low_hz"] = r.choice([0, 20.0])
        d["high_hz"] = rate / 2 + r.choice([0.25, 0.5, 1.0])
        if d["scale"] == "octave":
            d["low_hz"] = 20.0
    if kind in ("tri", "fbank"):
        d["analytic"] = r.random() < 0.5
    if kind in ("gabor", "gt"):
        d["l2"] = r.random() < 0.4
        d["erb"] = r.random() < 0.4
    if kind == "gt":
        d["order"] = r.choice([1, 2, 3, 4, 4, 6])
        d["max_centered"] = r.random() < 0.5
    return d


def build(mods, d, np):
    """Constructible = builds without error or floating-point warning and with finite public data."""
    try:
        with warnings.catch_warnings():
            warnings.simplefilter("error")
            b = make_bank(mods, d)
            sup = np.asarray(b.supports_hz, dtype=float)
            cen = np.asarray(b.centers_hz, dtype=float)
        if not (np.all(np.isfinite(sup)) and np.all(np.isfinite(cen))):
            return None
        return b
    except (ValueError, RuntimeWarning, FloatingPointError, ZeroDivisionError, OverflowError):
        return None


def widths_for(ctx, bank, i, n):
    r = ctx.rng
    lo, hi = bank.supports_hz[i]
    rate = bank.sampling_rate
    ws = set(r.sample(range(2, 18), 4))
    ws.add(r.randrange(18, 65))
    bw = max(hi - lo, 1e-6)
    wb = rate / bw
    for u in (0.3, 0.8, 1.3, 2.5):
        ws.add(int(min(max(2, wb * u * r.uniform(0.8, 1.2)), 4096)))
    hi_w = ctx.scale(1500, 4096)
    ws.add(int(math.exp(r.uniform(math.log(65), math.log(hi_w)))) | 1)
    ws.add(int(math.exp(r.uniform(math.log(65), math.log(hi_w)))) & ~1)
    # widths that make an edge hit a bin exactly (or nearly so)
    for f in (lo, hi):
        if f > 0:
            kk = r.randrange(1, 6)
            w0 = int(round(kk * rate / f))
            if 2 <= w0 <= hi_w:
                ws.add(w0)
    must = []
    if hi >= rate / 2 - 1e-6:
        # supports reaching the Nyquist frequency: DFTs fine enough to resolve a fraction of a Hz
        for m in (1, 1.5, 2, 4):
            for w0 in (int(rate * m) | 1, int(rate * m) & ~1):
                if 2 <= w0 <= 4096:
                    must.append(w0)
        must = r.sample(must, min(len(must), 3))
    ws = [w for w in ws if w >= 2]
    r.shuffle(ws)
    return sorted(set(ws[:n] + must))


# --------------------------------------------------------------------------
# the property on the implementation (search oracle)


def rebuild(np, bank, w, b, t):
    """The recipe of LinearFilterBank.get_truncated_response's docstring."""
    full = np.zeros(w, dtype=t.dtype)
    if bank.is_real:
        full[b:b + len(t)] = t
        full[w - b - len(t) + 1:w - b + 1] = t[:None if b else 0:-1].conj()
        half_width = (w + w % 2) // 2 + 1 - w % 2
        half = np.zeros(half_width, dtype=t.dtype)
        half[b:b + len(t)] = t
    else:
        wrap = min(b + len(t), w) - b
        full[b:b + wrap] = t[:wrap]
        full[:len(t) - wrap] = t[wrap:]
        half = None
    return full, half


ORDERS = [("full", "half", "trunc"), ("half", "full", "trunc"), ("trunc", "half", "full"), ("half", "trunc", "full"),
          ("full", "trunc", "half"), ("trunc", "full", "half")]


def observe(np, bank, i, w, order=0):
    """The three frequency-domain views of one filter, asked of the SAME bank object in the given order
    (a bank's answers must not depend on what it was asked before), each asked twice."""
    got = {}
    with warnings.catch_warnings():
        warnings.simplefilter("ignore")
        for q in ORDERS[order] + ORDERS[order][:1]:
            if q == "full":
                raw = bank.get_frequency_response(i, w)
                r = raw.copy()
            elif q == "half":
                raw = bank.get_frequency_response(i, w, half=True)
                r = raw.copy()
            else:
                b, raw = bank.get_truncated_response(i, w)
                t = raw.copy()
                r = np.concatenate([[float(b)], np.asarray(t).view(np.float64) if np.iscomplexobj(t) else np.asarray(t, dtype=np.float64)])
                got["_bt"] = (int(b), t)
            # the returned array belongs to the caller: scribbling on it must not change any later answer
            try:
                raw[...] = 7.25
            except (ValueError, TypeError):
                pass  # a read-only result is fine too
            if q in got and not (r.shape == got[q].shape and np.array_equal(r, got[q])):
                raise RuntimeError("asking for the %s response twice gives different answers (shapes %s, %s)" % (q, got[q].shape, r.shape))
            got[q] = r
    b, t = got["_bt"]
    return got["full"], got["half"], b, t


def oracle(np, eps, bank, kind, i, w, obs=None):
    """Returns list of (clause, detail) violated by the implementation."""
    bad = []
    try:
        fr, hf, b, t = obs or observe(np, bank, i, w)
    except Exception as e:  # noqa: BLE001
        return [("exception", repr(e))]
    exact = kind in ("tri", "fbank")
    hl = (w + w % 2) // 2 + 1 - w % 2
    if not (len(fr) == w):
        bad.append(("full-length", len(fr)))
    if not (0 <= b < w):
        bad.append(("start-range", b))
    if len(hf) != hl:
        bad.append(("half-length", [len(hf), hl]))
    elif len(fr) == w:
        dh = float(np.max(np.abs(hf - fr[:hl]))) if hl else 0.0
        if not (dh <= 1e-12):
            bad.append(("half-prefix", dh))
    fin = bool(np.all(np.isfinite(fr)) and np.all(np.isfinite(hf)) and np.all(np.isfinite(t)))
    if not fin:
        bad.append(("finite", None))
    if bank.is_real and b + len(t) > hl:
        bad.append(("within-half", [b, len(t), hl]))
    try:
        rb, rh = rebuild(np, bank, w, b, t)
    except Exception as e:  # noqa: BLE001
        bad.append(("recipe-exception", repr(e)))
        rb = rh = None
    if rb is not None and fin and len(fr) == w:
        d = float(np.max(np.abs(rb - fr)))
        if exact:
            if not (d <= 1e-12):
                bad.append(("rebuild-exact", d))
        elif not (d <= 2 * eps):
            bad.append(("rebuild-2eps", d / eps))
        if rh is not None and len(hf) == hl:
            d2 = float(np.max(np.abs(rh - hf)))
            if not (d2 <= 1e-12):
                bad.append(("half-recipe", d2))
    if fin and len(fr) == w:
        if bank.is_real:
            m = fr[(-np.arange(w)) % w].conj()
            d3 = float(np.max(np.abs(m - fr)))
            if not (d3 <= 1e-12):
                bad.append(("hermitian", d3))
        if exact and bank.is_analytic and np.any(fr[w // 2 + 1:] != 0):
            bad.append(("analytic-negative", None))
    return bad


def retuned_threshold(ctx, np, mods, config):
    """EFFECTIVE_SUPPORT_THRESHOLD is a documented package setting that may be re-assigned at run time; the property
    is stated in terms of the setting, i.e. of the value IN FORCE when the bank is built and asked.  Lower (and raise)
    it after the modules were imported, build banks, and check the clauses of `oracle` with that value.
    Returns [(case, violated clauses)]; the setting is restored on the way out."""
    r = ctx.rng
    shipped = config.EFFECTIVE_SUPPORT_THRESHOLD
    bad = []
    try:
        for thr in [1e-4, 2e-5, 2e-3] + ctx.scale([], [1e-3, 1e-5, 5e-3, 3e-6]):
            config.EFFECTIVE_SUPPORT_THRESHOLD = thr
            kinds = ["gabor", "gt"] * ctx.scale(5, 30) + ["tri", "fbank"] * ctx.scale(1, 4)
            for kind in kinds:
                for _ in range(20):
                    d = random_bank_desc(ctx, kind)
                    if kind in ("gabor", "gt") and r.random() < 0.5:
                        # everyday banks: many narrow filters (far from the whole-period regime)
                        d.update(num_filts=r.choice([10, 23, 40]), scale=r.choice(["mel", "bark"]), low_hz=r.choice([0, 20.0]), high_hz=None)
                        d.pop("scale_arg", None)
                    bank = build(mods, d, np)
                    if bank is not None:
                        break
                    ctx.count("ctor:not-constructible:" + kind)
                else:
                    continue
                ctx.count("retuned-threshold:%g:%s" % (thr, kind))
                nf = bank.num_filts
                for i in sorted(set([0, nf - 1, r.randrange(nf)]))[:2]:
                    ws = widths_for(ctx, bank, i, ctx.scale(5, 9))
                    lo_hz, hi_hz = bank.supports_hz[i]
                    if hi_hz - lo_hz > 300 * bank.sampling_rate:
                        # (order-1 gammatones at a small threshold: the response is summed over thousands of periods - slow)
                        ws = r.sample(ws, min(len(ws), 2))
                        ctx.count("retuned-threshold:support-over-300-periods(2 widths only)")
                    for w in ws:
                        c = dict(desc=d, i=i, w=w, kind=kind, order=r.randrange(len(ORDERS)), threshold=thr)
                        try:
                            obs = observe(np, bank, i, w, c["order"])
                            v = oracle(np, thr, bank, kind, i, w, obs)
                            fr, hf, b, t = obs
                            truncates = len(t) < (len(hf) if bank.is_real else w)
                        except Exception as e:  # noqa: BLE001
                            v, truncates = [("exception", repr(e))], False
                        ctx.case(dict(kind=kind, bank=d, filt_idx=i, width=w, EFFECTIVE_SUPPORT_THRESHOLD=thr), nontrivial=truncates)
                        ctx.count("retuned-threshold:" + ("response-truncated" if truncates else "whole-spectrum-kept"))
                        if v:
                            bad.append((c, v))
    finally:
        config.EFFECTIVE_SUPPORT_THRESHOLD = shipped
    return bad


# --------------------------------------------------------------------------
# correspondence helpers


def ulp_close(a, b, n=4):
    if a == b:
        return True
    return abs(a - b) <= n * max(math.ulp(a), math.ulp(b))


def near_int(x, tol=1e-9):
    return abs(x - round(x)) <= tol * max(1.0, abs(x))


def tri_compare(np, kind, model, fr, hf, b, t, w):
    """model = parsed tri_case output.  Returns None or a description of the disagreement."""
    li, ri, fullr, halfr, tr, _rebuilt = model
    if tr is None or fullr is None or halfr is None:
        return "model raises (None) where the implementation returned arrays"
    tr = tr[1] if isinstance(tr, tuple) and tr[0] == "Some" else tr
    fullr = fullr[1]
    halfr = halfr[1]
    mb, mlen, trle = tr
    if mb != b or mlen != len(t):
        return "truncated response start/length: model (%d, %d) implementation (%d, %d)" % (mb, mlen, b, len(t))
    ttags = expand_rle(trle, mlen)
    for j, tg in enumerate(ttags):
        if tg != mb + j + 1:
            return "model truncated tags not contiguous"
    hl = len(hf)
    if len(fr) != w:
        return "full length %d != %d" % (len(fr), w)
    mfull = expand_rle(fullr, w)
    mh_len = (w // 2 + 1) if w % 2 == 0 else (w + 1) // 2
    if hl != mh_len:
        return "half length: model %d implementation %d" % (mh_len, hl)
    mhalf = expand_rle(halfr, hl)
    tol_ulps = 0 if kind == "tri" else 4
    for name, tags, arr in (("full", mfull, fr), ("half", mhalf, hf)):
        for j, tg in enumerate(tags):
            v = float(arr[j])
            if tg == 0:
                if v != 0.0:
                    return "%s[%d] = %r where the model leaves zero" % (name, j, v)
            else:
                ref = float(t[tg - 1 - b])
                ok = (v == ref) if tol_ulps == 0 else ulp_close(v, ref, tol_ulps)
                if not ok:
                    return "%s[%d] = %r but the model places the value of bin %d (= %r in the truncated response)" % (
                        name, j, v, tg - 1, ref)
    return None


# --------------------------------------------------------------------------


def hyp_status(c, eps):
    """Do the hypotheses of gabor_/gammatone_rebuild_within_2eps hold for this filter?"""
    bank, i = c["bank"], c["i"]
    try:
        if c["kind"] == "gabor":
            s = float(bank._stds[i])
            cen = float(bank._centers_ang[i])
            l2 = bool(bank._scale_l2_norm)
            T = (math.log(s) + math.log(2) + 0.5 * math.log(math.pi) if l2 else 0.0) - 2 * math.log(eps)
            if not (s > 0 and T > 0):
                return "support-undefined"
            if not (T + math.log(2) >= 1):
                return "wrap-half-width-below-one-std"
            if not (0 <= cen <= math.pi):
                return "centre-outside-[0,pi]"
        else:
            n = int(bank._order)
            a, cc, xi = float(bank._alphas[i]), float(bank._cs[i]), float(bank._xis[i])
            sa = 2.0 / n * (math.log(cc) + math.log(math.factorial(n - 1)) - math.log(eps))
            if not (a > 0 and cc > 0 and a * a < math.exp(sa)):
                return "support-undefined"
            if not (0 <= xi <= math.pi):
                return "centre-outside-[0,pi]"
    except (AttributeError, ValueError, IndexError, TypeError):
        return "unknown(private constants not available)"
    return "whole-period(exact by cplx_fallback_exact)" if c.get("fallback_in") else "hold"


def second_opinion(num):
    """60-digit evaluation (mpmath) of the R model of coq/C06/ModelR.v for one certified value:
    True = within the goal's tolerance, False = not, None = no opinion (goal kinds without numbers)."""
    if not num:
        return None
    try:
        import mpmath as mp

        mp.mp.dps = 60
        w = num["w"]

        def ang(k):
            return 2 * mp.pi * k / w

        tot_re, tot_im = mp.mpf(0), mp.mpf(0)
        for p in range(num["plo"], num["phi"]):
            om = ang(num["n"] + w * p)
            if num["kind"] == "gabor":
                sg, c = mp.mpf(num["sigma"]), mp.mpf(num["c"])
                K = (mp.log(2 * sg) / 2 + mp.log(mp.pi) / 4) if num["l2"] else 0
                tot_re += mp.exp(-(sg ** 2) / 2 * (c - om) ** 2 + K)
            else:
                al, cc, xi, off = (mp.mpf(num[k]) for k in ("alpha", "c", "xi", "off"))
                numer = mp.exp(-1j * om * off) * cc * mp.factorial(num["order"] - 1)
                val = numer / (al + 1j * (om - xi)) ** num["order"]
                tot_re += val.real
                tot_im += val.imag
        tol = mp.mpf(num["tol"])
        return bool(abs(tot_re - mp.mpf(num["re"])) <= tol and abs(tot_im - mp.mpf(num["im"])) <= tol)
    except Exception:  # noqa: BLE001 - no opinion
        return None


def regenerate(ctx):
    """Regenerate coq/gen/Scales.v (mel scale of the Fbank value model) and coq/gen/C06Index.v
    (index arithmetic of the eight response methods).  Returns False if the development
    cannot be rebuilt against the current source."""
    import filters_c06 as gen_idx
    import scales as gen_scales
    from pyexpr import Unsupported

    ok = True
    try:
        gen_scales.main(os.path.join(C.SRC, "scales.py"), os.path.join(C.COQ, "gen", "Scales.v"))
    except (Unsupported, SyntaxError, OSError) as e:
        if not C.tie_fallback(ctx, "translator gen/scales.py no longer recognises scales.py: %s" % e,
                 dict(correspondence="gen/scales.py -> coq/gen/Scales.v", error=str(e)), kind="tie", no_input=True):
            ok = False
    try:
        gen_idx.main(os.path.join(C.SRC, "filters.py"), os.path.join(C.COQ, "gen", "C06Index.v"))
    except (Unsupported, SyntaxError, OSError, AttributeError, IndexError) as e:
        # the generated file is left as it was, so the proofs still build; the tie is reported broken
        if not C.tie_fallback(ctx, "translator gen/filters_c06.py no longer recognises the index arithmetic of filters.py: %s" % e,
                              dict(correspondence="gen/filters_c06.py -> coq/gen/C06Index.v", error=str(e)), kind="tie", no_input=True):
            ctx.translator_failed = True
    return ok


REQ_Z = ("From Coq Require Import ZArith List Bool QArith.\nFrom Verif Require Import C06.Model.\n"
         "Import ListNotations.\nOpen Scope Z_scope.\n")
REQ_R = ("From Coq Require Import Reals ZArith List.\nFrom Interval Require Import Tactic.\n"
         "From Verif Require Import gen.Scales C06.Model C06.ModelR lib.C06_Cert.\nOpen Scope R_scope.\n")


def run(ctx):
    try:
        return _run(ctx)
    finally:
        cleanup()


def cleanup():
    d = os.path.join(C.BUILD, "C06")
    if os.path.isdir(d):
        for f in os.listdir(d):
            if f.startswith(TAG) or f.startswith("." + TAG):
                try:
                    os.remove(os.path.join(d, f))
                except OSError:
                    pass


def _run(ctx):
    C.ensure_impl_path()
    import importlib

    import numpy as np

    filters = importlib.import_module("pydrobert.speech.filters")
    scales_mod = importlib.import_module("pydrobert.speech.scales")
    config = importlib.import_module("pydrobert.speech.config")
    mods = (filters, scales_mod)
    eps = float(config.EFFECTIVE_SUPPORT_THRESHOLD)
    r = ctx.rng

    ok_gen = regenerate(ctx)
    pr = C.proof_step(ctx) if ok_gen else None
    ctx.cov["trusted_base"] += [
        "translator /verif/gen/scales.py + gen/pyexpr.py (mel scale used by the Fbank value model)",
        "translator /verif/gen/filters_c06.py (Python ast -> Z/Q index expressions, coq/gen/C06Index.v; tied to the model by C06/GenTie.v)",
        "Interval 4 (interval tactic) for the certified value comparisons",
        "harness/c06.py: generators, tag/value comparison rules, recipe transcription used by the search",
    ]

    # ---------------- generate cases and run the implementation
    n_banks = ctx.scale(110, 900)
    n_w = ctx.scale(9, 14)
    cases = []  # dict(desc, i, w, kind, obs)
    tries = 0
    got = 0
    while got < n_banks and tries < 20 * n_banks:
        tries += 1
        d = random_bank_desc(ctx)
        bank = build(mods, d, np)
        if bank is None:
            ctx.count("ctor:not-constructible:" + d["kind"])
            continue
        got += 1
        ctx.count("bank:" + d["kind"])
        ctx.count("scale:" + d["scale"])
        nf = bank.num_filts
        idxs = sorted(set([0, nf - 1, r.randrange(nf)]))[: ctx.scale(2, 3)]
        for i in idxs:
            for w in widths_for(ctx, bank, i, n_w):
                cases.append(dict(desc=d, i=i, w=w, kind=d["kind"], bank=bank))
                if r.random() < 0.25 and w >= 4:
                    # a second width whose FULL response has as many bins as this width's HALF response (and the
                    # other way round), asked of the same bank right afterwards: same sizes, different bin frequencies
                    w2 = r.choice([w // 2 + 1 if w % 2 == 0 else (w + 1) // 2, 2 * w - 2, 2 * w - 1])
                    if w2 >= 2:
                        cases.append(dict(desc=d, i=i, w=w2, kind=d["kind"], bank=bank))
                        ctx.count("adversarial:same-bin-count-other-width")
    # wide Gabor / gammatone filters: whole-period branch and wrap-around below 0 / above the width
    for kind in ("gabor", "gt"):
        for _ in range(ctx.scale(14, 80)):
            d = random_bank_desc(ctx, kind)
            d["num_filts"] = r.choice([1, 1, 2])
            d["low_hz"] = r.choice([0, 20.0]) if d["scale"] != "octave" else 20.0
            d["high_hz"] = r.choice([None, None, d["rate"] // 2, d["rate"] / 3])
            bank = build(mods, d, np)
            if bank is None:
                ctx.count("ctor:not-constructible:" + kind)
                continue
            ctx.count("bank:wide-" + kind)
            for i in range(bank.num_filts):
                for w in widths_for(ctx, bank, i, ctx.scale(5, 10)):
                    cases.append(dict(desc=d, i=i, w=w, kind=kind, bank=bank))
    # exhaustive small scope: every width 2..64 for one filter of a few banks of each kind
    for kind in ("tri", "fbank", "gabor", "gt"):
        for _ in range(ctx.scale(1, 6)):
            d = random_bank_desc(ctx, kind)
            bank = build(mods, d, np)
            if bank is None:
                continue
            i = r.randrange(bank.num_filts)
            ws = range(2, 65) if ctx.thorough else range(2, 65, 3)
            for w in ws:
                cases.append(dict(desc=d, i=i, w=w, kind=kind, bank=bank))
            ctx.count("bank:all-small-widths-" + kind)
    for rate, w, k in [(8000, 16, 2), (16000, 512, 32), (8000, 77, 37), (16000, 400, 5), (44100, 441, 3), (8000, 81, 20)]:
        for kind in ("tri", "fbank"):
            for an in (False, True):
                d = dict(kind=kind, rate=rate, num_filts=r.choice([1, 3]), scale="mel", low_hz=rate * k / w,
                         high_hz=None, analytic=an)
                if kind == "tri":
                    d["scale"] = r.choice(["mel", "linear"])
                    if d["scale"] == "linear":
                        d["scale_arg"] = [0.0, 1.0]
                bank = build(mods, d, np)
                if bank is None:
                    continue
                for i in (0, bank.num_filts - 1):
                    for ww in (w, w + 1, 2 * w, 2, 3):
                        cases.append(dict(desc=d, i=i, w=ww, kind=kind, bank=bank))
                        ctx.count("adversarial:edge-on-bin")

    ctx.log("%d cases generated; running the implementation" % len(cases))
    bad_impl = []
    for c in cases:
        bank, i, w = c["bank"], c["i"], c["w"]
        c["order"] = ctx.rng.randrange(len(ORDERS))
        ctx.count("query-order:" + ">".join(ORDERS[c["order"]]))
        try:
            c["obs"] = observe(np, bank, i, w, c["order"])
        except Exception as e:  # noqa: BLE001
            c["obs"] = None
            bad_impl.append((c, [("exception", repr(e))]))
            continue
        v = oracle(np, eps, bank, c["kind"], i, w, c["obs"])
        if v:
            bad_impl.append((c, v))
        ctx.count("width:" + ("2-8" if w <= 8 else "9-64" if w <= 64 else "65-512" if w <= 512 else "513+"))
        ctx.count("width-parity:" + ("odd" if w % 2 else "even"))

    def pub(c):
        d = dict(bank=c["desc"], filt_idx=c["i"], width=c["w"], query_order=list(ORDERS[c.get("order", 0)]))
        if "threshold" in c:
            d["EFFECTIVE_SUPPORT_THRESHOLD"] = c["threshold"]  # config setting re-assigned after import, before the bank is built
        return d

    for c, v in bad_impl[:10]:
        ctx.fail("property violated on the implementation: %s" % (v,), dict(input=pub(c), violated=v), kind="impl")

    ctx.log("implementation observed; %d violate the property" % len(bad_impl))
    # ---------------- correspondence A: triangular / Fbank positions (tags)
    tri_cases = [c for c in cases if c["kind"] in ("tri", "fbank") and c["obs"] is not None]
    cpx_cases = [c for c in cases if c["kind"] in ("gabor", "gt") and c["obs"] is not None]
    # one build for everything the correspondence needs (a single wait for the build lock)
    ok_all, out = C.coq_make(["C06/Model.v", "lib/C06_Cert.v", "C06/BoundExamples.v"]) if ok_gen else (False, "")
    if ok_all:
        ok_model, ok_r, out_r = True, True, ""
    else:
        ok_model, out = C.coq_make(["C06/Model.v"]) if ok_gen else (False, "")
        ok_r, out_r = C.coq_make(["lib/C06_Cert.v"]) if ok_model else (False, out)
        ok_ex, out_ex = C.coq_make(["C06/BoundExamples.v"]) if ok_model else (False, out)
        if ok_model and not ok_ex:
            ctx.fail("the examples showing that the hypotheses of the 2*eps theorems are satisfiable no longer check",
                     dict(theorem_or_file="C06/BoundExamples.v", log_tail=out_ex[-1500:]), kind="proof", no_input=True)
    mism = []
    if ok_model:
        def tri_inputs(c):
            bank, i = c["bank"], c["i"]
            lo, hi = bank.supports_hz[i]
            return Fraction(float(lo)), Fraction(float(hi)), Fraction(float(bank.sampling_rate))

        shard = 250
        files = []
        for s0 in range(0, len(tri_cases), shard):
            items = []
            for c in tri_cases[s0:s0 + shard]:
                l, rr, rate = tri_inputs(c)
                items.append("tri_case %s %s %d %s %s %s" % (
                    cb(c["kind"] == "fbank"), cb(c["desc"]["analytic"]), c["w"], qz(l), qz(rr), qz(rate)))
            files.append((TAG + "tri_%d" % s0, "Eval vm_compute in [\n " + ";\n ".join(items) + "].\n"))
        res = C.coq_eval_many(ctx, files, REQ_Z)
        for (name, _), (ans, log), s0 in zip(files, res, range(0, len(tri_cases), shard)):
            if ans is None or len(ans) != 1:
                ctx.fail("model evaluation failed for %s" % name, dict(correspondence="C06/Model.v tri_case", log_tail=(log or "")[-1500:]),
                         kind="tie", no_input=True)
                continue
            vals = C.parse_coq(ans[0])
            for c, m in zip(tri_cases[s0:s0 + shard], vals):
                fr, hf, b, t = c["obs"]
                li, ri = m[0], m[1]
                nontriv = li <= ri
                why = tri_compare(np, c["kind"], m, fr, hf, b, t, c["w"])
                wrapcase = dict(kind=c["kind"], bank=c["desc"], filt_idx=c["i"], width=c["w"])
                ctx.case(wrapcase, nontrivial=nontriv)
                ctx.count("tri:" + ("empty-truncation" if not nontriv else "start-0" if li == 0 else "nyquist-bin" if 2 * ri == c["w"] else "interior"))
                if why is None:
                    ctx.cov["traces_validated_against_impl"] += 1
                    continue
                # float rounding of width*f/rate at an exact bin hit is not modelled:
                l, rr, rate = tri_inputs(c)
                xl, xr = c["w"] * l / rate, c["w"] * rr / rate
                if near_int(float(xl)) or near_int(float(xr)):
                    c["retry_q"] = True
                    mism.append((c, why, True))
                else:
                    mism.append((c, why, False))
        # second chance for boundary cases: same model, quotients as float64 computes them
        retry = [(c, why) for c, why, bd in mism if bd]
        hard = [(c, why) for c, why, bd in mism if not bd]
        if retry:
            items = []
            for c, _ in retry:
                lo, hi = c["bank"].supports_hz[c["i"]]
                rate = c["bank"].sampling_rate
                xl = Fraction(float(c["w"] * lo / rate))
                xr = Fraction(float(c["w"] * hi / rate))
                items.append("tri_case_q %s %s %d %s %s" % (cb(c["kind"] == "fbank"), cb(c["desc"]["analytic"]), c["w"], qz(xl), qz(xr)))
            ans, log = C.coq_eval(ctx, TAG + "tri_retry", "Eval vm_compute in [\n " + ";\n ".join(items) + "].\n", REQ_Z)
            vals = C.parse_coq(ans[0]) if ans else [None] * len(retry)
            for (c, why), m in zip(retry, vals):
                fr, hf, b, t = c["obs"]
                why2 = tri_compare(np, c["kind"], m, fr, hf, b, t, c["w"]) if m is not None else "model evaluation failed"
                if why2 is None:
                    ctx.count("tri:float-rounding-at-exact-bin-hit(agrees with float64 quotients)")
                    ctx.cov["traces_validated_against_impl"] += 1
                else:
                    hard.append((c, why2))
        for c, why in hard[:10]:
            ctx.fail("model and implementation disagree: %s" % why,
                     dict(input=pub(c), disagreement=why, correspondence="C06/Model.v tri_case vs get_frequency_response/get_truncated_response"),
                     kind="correspondence")

        ctx.log("tri/Fbank positions compared: %d disagree" % len(hard))
        # ---------------- correspondence B: Gabor / gammatone start, length, whole-period branch
        def cpx_inputs(c):
            bank, i = c["bank"], c["i"]
            lo, hi = bank.supports_hz[i]
            rate = Fraction(float(bank.sampling_rate))
            return Fraction(float(lo)) / rate, Fraction(float(hi)) / rate

        def predicted_fallback(c):
            """Whole-period decision from the R model's formula (evaluated in floats);
            None if the private constants are not available or the decision is borderline."""
            bank, i = c["bank"], c["i"]
            try:
                if c["kind"] == "gabor":
                    s = float(bank._stds[i])
                    l2 = bool(bank._scale_l2_norm)
                    T = (math.log(s) + math.log(2) + 0.5 * math.log(math.pi) if l2 else 0.0) - 2 * math.log(eps)
                    v = 2 * math.sqrt(T + math.log(2)) / s - 2 * math.pi
                else:
                    n = int(bank._order)
                    a, cc = float(bank._alphas[i]), float(bank._cs[i])
                    sa = 2.0 / n * (math.log(cc) + math.log(math.factorial(n - 1)) - math.log(eps))
                    v = 2 * math.sqrt(math.exp(sa) - a * a) + 2 * math.sqrt(math.exp(sa + 2.0 / n * math.log(2)) - a * a) - 2 * math.pi
            except (AttributeError, ValueError, IndexError, TypeError):
                return None
            if abs(v) < 1e-7:
                return None
            return v >= 0

        files = []
        meta = []
        for s0 in range(0, len(cpx_cases), 400):
            items = []
            for c in cpx_cases[s0:s0 + 400]:
                lo_t, hi_t = cpx_inputs(c)
                fr, hf, b, t = c["obs"]
                pf = predicted_fallback(c)
                c["pred_fallback"] = pf
                if pf is None:
                    pf = (b == 0 and len(t) == c["w"] and np.array_equal(t, fr))
                    ctx.count("cplx:whole-period-decision-taken-from-observation")
                c["fallback_in"] = bool(pf)
                items.append("cplx_case %s %s %d %s %s" % (cb(c["kind"] == "gt"), cb(pf), c["w"], qz(lo_t), qz(hi_t)))
            files.append((TAG + "cplx_%d" % s0, "Eval vm_compute in [\n " + ";\n ".join(items) + "].\n"))
        res = C.coq_eval_many(ctx, files, REQ_Z)
        cbad = []
        for (name, _), (ans, log), s0 in zip(files, res, range(0, len(cpx_cases), 400)):
            if ans is None or len(ans) != 1:
                ctx.fail("model evaluation failed for %s" % name, dict(correspondence="C06/Model.v cplx_case", log_tail=(log or "")[-1500:]),
                         kind="tie", no_input=True)
                continue
            vals = C.parse_coq(ans[0])
            for c, m in zip(cpx_cases[s0:s0 + 400], vals):
                fr, hf, b, t = c["obs"]
                li, ri, (flo, fhi), (tlo, thi), tr = m
                c["model"] = m
                w = c["w"]
                lo_t, hi_t = cpx_inputs(c)
                wraps = (not c["fallback_in"]) and (li < 0 or ri >= w)
                ctx.case(dict(kind=c["kind"], bank=c["desc"], filt_idx=c["i"], width=w), nontrivial=True)
                ctx.count("theorem-hypotheses:" + c["kind"] + ":" + hyp_status(c, eps))
                ctx.count("cplx:" + ("whole-period" if c["fallback_in"] else "wraps-around" if wraps else "no-wrap"))
                if tr is None:
                    cbad.append((c, "model raises where the implementation returned arrays"))
                    continue
                mb, mlen = tr[1]
                if (mb, mlen) != (b, len(t)):
                    if near_int(float(w * lo_t)) or near_int(float(w * hi_t)):
                        ctx.count("cplx:float-rounding-at-exact-bin-hit(not compared)")
                        continue
                    cbad.append((c, "truncated response start/length: model (%d, %d) implementation (%d, %d)" % (mb, mlen, b, len(t))))
                    continue
                if c["fallback_in"] and not np.array_equal(t, fr):
                    cbad.append((c, "whole-period branch: truncated response is not the full response"))
                    continue
                ctx.cov["traces_validated_against_impl"] += 1
        for c, why in cbad[:10]:
            ctx.fail("model and implementation disagree: %s" % why,
                     dict(input=pub(c), disagreement=why, whole_period_predicted=c.get("pred_fallback"),
                          correspondence="C06/Model.v cplx_case vs get_truncated_response"),
                     kind="correspondence")
    elif ok_gen:
        ctx.fail("C06/Model.v no longer compiles", dict(correspondence="C06/Model.v", log_tail=out[-1500:]), kind="tie", no_input=True)

    ctx.log("Gabor/gammatone index arithmetic compared")
    # ---------------- correspondence C: values
    value_mismatch = []
    if ok_model:
        # C1 triangle values over Q, compared inside Coq
        tol = Fraction(1, 10 ** 9)
        vc = []
        pool = [c for c in tri_cases if c["kind"] == "tri" and len(c["obs"][3]) > 0]
        r.shuffle(pool)
        for c in pool[: ctx.scale(150, 1200)]:
            fr, hf, b, t = c["obs"]
            bank, i, w = c["bank"], c["i"], c["w"]
            lo, hi = bank.supports_hz[i]
            mid = bank.centers_hz[i]
            for j in sorted(set([0, len(t) - 1, r.randrange(len(t))])):
                vc.append((c, b + j, float(t[j]),
                           "(%d%%Z, %s, %s, %s, %s, %d%%Z, %s)" % (w, qz(Fraction(float(lo))), qz(Fraction(float(mid))), qz(Fraction(float(hi))),
                                                             qz(Fraction(float(bank.sampling_rate))), b + j, qz(Fraction(float(t[j]))))))
        if vc:
            body = ("Open Scope Q_scope.\nDefinition vcases : list (Z * Q * Q * Q * Q * Z * Q) := [\n " + ";\n ".join(x[3] for x in vc) + "].\n"
                    "Definition bad (c : Z * Q * Q * Q * Q * Z * Q) : bool :=\n"
                    "  match c with (w, l, m, r, rate, idx, v) => negb (Qle_bool (Qabs (tri_val l m r rate w idx - v)) %s) end.\n"
                    "Fixpoint badidx (n : nat) (l : list (Z * Q * Q * Q * Q * Z * Q)) : list nat :=\n"
                    "  match l with nil => nil | c :: t => if bad c then n :: badidx (S n) t else badidx (S n) t end.\n"
                    "Eval vm_compute in badidx 0 vcases.\n" % qz(tol))
            ans, log = C.coq_eval(ctx, TAG + "trival", body, REQ_Z.replace("QArith.", "QArith Qabs."))
            if ans is None:
                ctx.fail("triangle value comparison did not compile", dict(correspondence="Model.tri_val", log_tail=(log or "")[-1500:]), kind="tie", no_input=True)
            else:
                badidx = C.parse_coq(ans[0])
                ctx.cov["traces_validated_against_impl"] += len(vc) - len(badidx)
                ctx.count("values:tri(Q, compared in Coq)", len(vc))
                for k in badidx[:5]:
                    c, idx, v, _ = vc[k]
                    value_mismatch.append((c, "triangle value of bin %d is %r, not within 1e-9 of Model.tri_val" % (idx, v)))
        # C2 Fbank / Gabor / gammatone values by Interval
        goals = []  # (case, text, description)

        def tolv(v):
            return 1e-9 * max(1.0, abs(v))

        pool = [c for c in tri_cases if c["kind"] == "fbank" and len(c["obs"][3]) > 0]
        r.shuffle(pool)
        for c in pool[: ctx.scale(40, 300)]:
            fr, hf, b, t = c["obs"]
            bank, i, w = c["bank"], c["i"], c["w"]
            lo, hi = bank.supports_hz[i]
            mid = bank.centers_hz[i]
            for j in sorted(set([len(t) // 2, r.randrange(len(t))])):
                v = float(t[j])
                args = "%s %s %s %s %d %d" % (qr(float(lo)), qr(float(mid)), qr(float(hi)), qr(float(bank.sampling_rate)), w, b + j)
                if v >= 0.05:
                    g = "Goal Rabs (fbank_val %s - %s) <= %s.\nProof. c06_fbank. Qed.\n" % (args, qr(v), qr(tolv(v)))
                else:
                    g = "Goal Rabs (fbank_tri %s - %s) <= %s.\nProof. unfold fbank_val; c06_fbank. Qed.\n" % (args, qr(Fraction(v) ** 2), qr(1e-9))
                goals.append((c, g, "Fbank value of bin %d = %r" % (b + j, v), None))
                ctx.count("values:fbank(Interval)")
        have_priv = {"gabor": True, "gt": True}
        pool = [c for c in cpx_cases if "model" in c]
        r.shuffle(pool)
        ng = {"gabor": ctx.scale(40, 300), "gt": ctx.scale(5, 60)}
        for c in pool:
            kind = c["kind"]
            if ng[kind] <= 0:
                continue
            bank, i, w = c["bank"], c["i"], c["w"]
            fr, hf, b, t = c["obs"]
            li, ri, (flo, fhi), (tlo, thi), tr = c["model"]
            if not all(hasattr(bank, a) for a in (PRIV_GABOR if kind == "gabor" else PRIV_GT)):
                have_priv[kind] = False
                continue
            if kind == "gt" and (w > 600 or int(bank._order) > 4 or fhi - flo > 3):
                continue
            ng[kind] -= 1
            k = r.randrange(w)
            picks = [("full", k, complex(fr[k]), flo, fhi, k)]
            if not c["fallback_in"] and len(t) > 0:
                j = r.randrange(len(t))
                picks.append(("trunc", j, complex(t[j]), tlo, thi, li + j))
            for which, pos, v, plo, phi, n in picks:
                if kind == "gabor":
                    fn = "(gabor_img %s %s %s %d)" % (cb(bool(bank._scale_l2_norm)), qr(float(bank._stds[i])), qr(float(bank._centers_ang[i])), w)
                    g = "Goal Rabs (Rimg_sum %d %s %s %s %s - %s) <= %s.\nProof. c06_gabor. Qed.\n" % (
                        w, fn, qr(plo), qr(phi), qr(n), qr(v.real), qr(tolv(v.real)))
                    goals.append((c, g, "Gabor %s[%d] = %r" % (which, pos, v.real),
                                  dict(kind="gabor", l2=bool(bank._scale_l2_norm), sigma=float(bank._stds[i]), c=float(bank._centers_ang[i]),
                                       w=w, plo=plo, phi=phi, n=n, re=v.real, im=0.0, tol=tolv(v.real))))
                    ctx.count("values:gabor(Interval)")
                else:
                    fn = "(gt_img %d %s %s %s %s %d)" % (int(bank._order), qr(float(bank._alphas[i])), qr(float(bank._cs[i])),
                                                          qr(float(bank._xis[i])), qr(float(bank._offsets[i])), w)
                    tv = tolv(abs(v))
                    g = ("Goal Rabs (fst (Cimg_sum %d %s %s %s %s) - %s) <= %s.\nProof. c06_gt_re. Qed.\n"
                         "Goal Rabs (snd (Cimg_sum %d %s %s %s %s) - %s) <= %s.\nProof. c06_gt_im. Qed.\n") % (
                        w, fn, qr(plo), qr(phi), qr(n), qr(v.real), qr(tv), w, fn, qr(plo), qr(phi), qr(n), qr(v.imag), qr(tv))
                    goals.append((c, g, "gammatone %s[%d] = %r" % (which, pos, v),
                                  dict(kind="gt", order=int(bank._order), alpha=float(bank._alphas[i]), c=float(bank._cs[i]), xi=float(bank._xis[i]),
                                       off=float(bank._offsets[i]), w=w, plo=plo, phi=phi, n=n, re=v.real, im=v.imag, tol=tv)))
                    ctx.count("values:gammatone(Interval)")
            # the support edges the constructor publishes against the R model's half-width
            slo, shi = bank.supports_hz[i]
            ratef = float(bank.sampling_rate)
            if kind == "gabor":
                cen = qr(float(bank._centers_ang[i]))
                dterm = "gabor_d %s %s %s" % (cb(bool(bank._scale_l2_norm)), qr(eps), qr(float(bank._stds[i])))
                unfd = "gabor_d, gabor_T"
            else:
                cen = qr(float(bank._xis[i]))
                dterm = "gt_d %d %s %s %s" % (int(bank._order), qr(float(bank._alphas[i])), qr(float(bank._cs[i])), qr(eps))
                unfd = "gt_d, gt_supp_a; cbn [fact Nat.sub Nat.mul Nat.add INR]"
            for sign, edge in (("-", slo), ("+", shi)):
                g = "Goal Rabs ((%s %s %s) * %s / (2 * PI) - %s) <= %s.\nProof. unfold %s. interval with (i_prec 80). Qed.\n" % (
                    cen, sign, dterm, qr(ratef), qr(float(edge)), qr(1e-9 * max(1.0, abs(float(edge)), ratef * 1e-3)), unfd)
                goals.append((c, g, "supports_hz edge %r" % float(edge), None))
                ctx.count("values:support-edge(Interval)")
            # the whole-period decision, certified on the R model
            if c.get("pred_fallback") is not None:
                if kind == "gabor":
                    stmt = "gabor_whole_period %s %s %s" % (cb(bool(bank._scale_l2_norm)), qr(eps), qr(float(bank._stds[i])))
                    unf = "gabor_whole_period, gabor_wd, gabor_T"
                else:
                    stmt = "gt_whole_period %d %s %s %s" % (int(bank._order), qr(float(bank._alphas[i])), qr(float(bank._cs[i])), qr(eps))
                    unf = "gt_whole_period, gt_d, gt_wd, gt_supp_a; cbn [fact Nat.sub Nat.mul Nat.add INR]"
                if c["pred_fallback"]:
                    g = "Goal %s.\nProof. unfold %s. apply Rle_ge. interval with (i_prec 80). Qed.\n" % (stmt, unf)
                else:
                    g = "Goal ~ %s.\nProof. unfold %s. apply Rlt_not_ge. interval with (i_prec 80). Qed.\n" % (stmt, unf)
                goals.append((c, g, "whole-period decision = %s" % c["pred_fallback"], None))
                ctx.count("values:whole-period-decision(Interval)")
        for kind in ("gabor", "gt"):
            if not have_priv[kind]:
                ctx.count("values:%s skipped (private constants not available)" % kind)
        if goals:
            if not ok_r:
                ctx.fail("value model no longer compiles", dict(correspondence="C06/ModelR.v, lib/C06_Cert.v", log_tail=out_r[-1500:]), kind="tie", no_input=True)
            else:
                nshard = 12
                # expensive goals first, dealt round-robin so that the shards cost about the same
                goals.sort(key=lambda x: -len(x[1]))
                shards = [goals[k::nshard] for k in range(nshard)]
                shards = [sh for sh in shards if sh]
                files = [(TAG + "cert_%d" % k, "".join(g for _, g, _, _ in sh)) for k, sh in enumerate(shards)]
                ctx.log("certifying %d value goals with Interval" % len(goals))
                res = C.coq_eval_many(ctx, files, REQ_R)
                for (name, _), (ans, log), sh in zip(files, res, shards):
                    if ans is not None:
                        ctx.cov["traces_validated_against_impl"] += len(sh)
                        continue
                    found = 0
                    examined = 0
                    for c, g, what, num in sh:
                        # the 60-digit evaluation first where it applies (cheap); Coq is asked again only for the goals it
                        # cannot speak for, and for a bounded number of them
                        if second_opinion(num) is True:
                            ctx.count("values:shard not certified as a whole, value agrees at 60 digits")
                            continue
                        examined += 1
                        if examined > 8:
                            ctx.count("values:not re-examined (bounded work)")
                            continue
                        a2, l2 = C.coq_eval(ctx, TAG + "cert_one", g, REQ_R)
                        if a2 is None:
                            # Interval did not close the goal: a disagreement, or a limit of the tool (very narrow filters on
                            # wide DFTs: exp of huge negative arguments, many images)?  A 60-digit evaluation of the same R
                            # model decides; only a real disagreement is reported, the other case is counted
                            verdict = second_opinion(num)
                            if verdict is True:
                                ctx.count("values:not certified by Interval, agrees at 60 digits")
                                continue
                            value_mismatch.append((c, "%s is not within 1e-9 of the R model (C06/ModelR.v)" % what))
                            found += 1
                            if found >= 3:
                                break
                        else:
                            ctx.cov["traces_validated_against_impl"] += 1
    for c, why in value_mismatch[:10]:
        ctx.fail("model and implementation disagree: %s" % why,
                 dict(input=pub(c), disagreement=why, correspondence="value comparison certified in Coq"), kind="correspondence")

    ctx.log("values compared: %d disagree" % len(value_mismatch))
    # ---------------- extra search on the implementation only (cheap, wider)
    n_extra = ctx.scale(60, 600)
    extra_bad = []
    for _ in range(n_extra):
        d = random_bank_desc(ctx)
        bank = build(mods, d, np)
        if bank is None:
            continue
        i = r.randrange(bank.num_filts)
        for w in [r.randrange(2, 40), r.randrange(40, ctx.scale(2500, 6000))]:
            v = oracle(np, eps, bank, d["kind"], i, w)
            ctx.count("search-only:" + d["kind"])
            if v:
                extra_bad.append((dict(desc=d, i=i, w=w), v))
    # every width at which a DFT bin lands exactly on an outer vertex of a triangular / Fbank filter whose vertices are
    # round numbers of Hz (the bin's frequency is then the vertex itself: value 0, never below it, never non-finite)
    hi_w = ctx.scale(1200, 4096)
    for d in (dict(kind="fbank", rate=8000, num_filts=5, scale="mel", low_hz=100.0, high_hz=3000.0, analytic=False),
              dict(kind="fbank", rate=16000, num_filts=4, scale="mel", low_hz=20.0, high_hz=6000.0, analytic=True),
              dict(kind="tri", rate=16000, num_filts=4, scale="linear", scale_arg=[0.0, 1.0], low_hz=250.0, high_hz=5250.0, analytic=False),
              dict(kind="tri", rate=44100, num_filts=3, scale="mel", low_hz=300.0, high_hz=4410.0, analytic=False)):
        bank = build(mods, d, np)
        if bank is None:
            continue
        for i in sorted({0, bank.num_filts - 1}):
            lo, hi = bank.supports_hz[i]
            for w in range(2, hi_w + 1):
                if not any(f > 0 and near_int(w * f / bank.sampling_rate) for f in (lo, hi)):
                    continue
                v = oracle(np, eps, bank, d["kind"], i, w)
                ctx.count("search-only:bin-on-vertex:" + d["kind"])
                if v:
                    extra_bad.append((dict(desc=d, i=i, w=w), v))
    # complex banks that start well above 0 Hz (so that no filter reaches below it): the TOP filters, whose supports run
    # past the Nyquist frequency, on a few widths each
    for d in (dict(kind="gt", rate=16000, num_filts=40, scale="mel", low_hz=1000.0, high_hz=None, l2=False, erb=False, order=4, max_centered=True),
              dict(kind="gt", rate=8000, num_filts=24, scale="mel", low_hz=1500.0, high_hz=None, l2=False, erb=False, order=4, max_centered=False),
              dict(kind="gt", rate=16000, num_filts=30, scale="bark", low_hz=600.0, high_hz=None, l2=False, erb=True, order=6, max_centered=True),
              dict(kind="gabor", rate=16000, num_filts=40, scale="mel", low_hz=1000.0, high_hz=None, l2=False, erb=False),
              dict(kind="gabor", rate=8000, num_filts=20, scale="bark", low_hz=800.0, high_hz=None, l2=False, erb=True)):
        bank = build(mods, d, np)
        if bank is None:
            continue
        for i in range(max(0, bank.num_filts - 6), bank.num_filts):
            for w in (64, 255, 512, 1001):
                v = oracle(np, eps, bank, d["kind"], i, w)
                ctx.count("search-only:top-filters-of-raised-banks:" + d["kind"])
                if v:
                    extra_bad.append((dict(desc=d, i=i, w=w), v))
    for c, v in extra_bad[:5]:
        ctx.fail("property violated on the implementation: %s" % (v,), dict(input=pub(c), violated=v), kind="impl")
    # ---------------- the same clauses with the package setting EFFECTIVE_SUPPORT_THRESHOLD re-assigned at run time
    retuned_bad = retuned_threshold(ctx, np, mods, config)
    ctx.log("re-tuned EFFECTIVE_SUPPORT_THRESHOLD: %d violate the property" % len(retuned_bad))
    for c, v in retuned_bad[:5]:
        ctx.fail("property violated on the implementation for a bank built after config.EFFECTIVE_SUPPORT_THRESHOLD was set to %g "
                 "(bounds are relative to the threshold in force): %s" % (c["threshold"], v), dict(input=pub(c), violated=v), kind="impl")

    ctx.cov["rule"] = (
        "one evaluation = one (bank, filter, DFT width) on which the Gallina model (run inside Coq on the exact rationals of "
        "supports_hz/centers_hz/rate) is compared with get_frequency_response(half=False/True) and get_truncated_response: "
        "tri/Fbank by tags (zeros exactly where the model has none, identical floats where the model places the same bin; "
        "start bin and length exactly), Gabor/gammatone start bin, length and whole-period branch exactly; values certified "
        "in Coq (Q comparison / Interval) on a subsample.  Non-trivial = truncated response non-empty (tri/Fbank); every "
        "Gabor/gammatone case.  distinct = distinct (bank description, filter, width)."
    )
    ctx.assumptions += [
        "float64 rounding is not modelled: index arithmetic is exact over Q; at exact bin hits (|width*f/rate - integer| < 1e-9) "
        "a disagreement is re-evaluated with the quotients float64 produces (theorem tri_float_robust covers both)",
        "Gabor/gammatone support edges are taken from the public supports_hz (angle/2pi = hz/rate)",
        "the value comparison of Gabor/gammatone and the whole-period decision read the private constants "
        "_stds/_centers_ang/_alphas/_cs/_xis/_offsets when present (skipped silently otherwise)",
        "np.exp/np.log/np.cos/np.sin/np.sqrt compute their mathematical functions (checked pointwise by the certified comparison)",
    ]
    if pr is not None and not pr["ok"] and not ctx.failures[1:]:
        ctx.log("search found no failing input on the implementation")
    return C.finish(ctx, "proof")


def replay(ctx, rp):
    C.ensure_impl_path()
    import importlib

    import numpy as np

    filters = importlib.import_module("pydrobert.speech.filters")
    scales_mod = importlib.import_module("pydrobert.speech.scales")
    config = importlib.import_module("pydrobert.speech.config")
    f = rp.get("failure", rp)
    inp = f.get("replay", {}).get("input")
    if not inp:
        print("no concrete input recorded:", f.get("what"))
        return 1
    shipped = config.EFFECTIVE_SUPPORT_THRESHOLD
    try:
        if inp.get("EFFECTIVE_SUPPORT_THRESHOLD") is not None:
            config.EFFECTIVE_SUPPORT_THRESHOLD = inp["EFFECTIVE_SUPPORT_THRESHOLD"]  # re-assigned after import, as recorded
        bank = make_bank((filters, scales_mod), inp["bank"])
        order = ORDERS.index(tuple(inp["query_order"])) if inp.get("query_order") else 0
        try:
            obs = observe(np, bank, inp["filt_idx"], inp["width"], order)
        except Exception as e:  # noqa: BLE001
            print("input:", inp)
            print("property clauses violated on the implementation:", [("exception", repr(e))])
            return 1
        v = oracle(np, float(config.EFFECTIVE_SUPPORT_THRESHOLD), bank, inp["bank"]["kind"], inp["filt_idx"], inp["width"], obs)
    finally:
        config.EFFECTIVE_SUPPORT_THRESHOLD = shipped
    fr, hf, b, t = obs
    print("input:", inp)
    print("truncated: start", b, "length", len(t))
    print("property clauses violated on the implementation:", v)
    print("recorded:", f.get("what"))
    return 1 if v else 0
