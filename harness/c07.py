"""C07 - impulse and frequency responses agree, within the advertised supports.

Proof: coq/C07 (Model.v, Proofs*.v, Tie.v, Props.v).  What is PROVED about the
model: support straddling / causal start, dtype logic, the tail bounds of every
closed-form bank INCLUDING the periodic images the code itself sums (Gabor and
gammatone in both domains, triangular in time, triangular/Fbank exactly zero in
frequency), partial correctness of the gammatone support search.  What is only
CHECKED NUMERICALLY here (no formalised Poisson summation): the IDFT pair and
the Fbank temporal tail.

Tie, re-run on every check:
 1. translator gen/c07_filters.py regenerates coq/gen/C07Filters.v (threshold
    constant, class flag logic, every scalar constructor / support formula) from
    filters.py + config.py; C07/Tie.v proves the generated text equal to the
    hand-written model the theorems are about;
 2. correspondence: values observed on the implementation (supports, supports_hz,
    centers_hz, samples of the impulse and frequency responses, dtype flags) are
    certified by Interval against the R-valued model, bank by bank;
 3. search: the property itself, stated executably, over generated banks x
    filters x widths; again for banks built after config.EFFECTIVE_SUPPORT_THRESHOLD
    was lowered / raised at run time (bounds relative to the value in force).
"""

import json
import math
import os
import sys
import time
from fractions import Fraction

from . import common as C

sys.path.insert(0, os.path.join(C.ROOT, "gen"))

PID = "C07"


# --------------------------------------------------------------------------
# generation of banks


def q(x):
    """Exact rational of a float (or int) as a Coq R term."""
    fr = Fraction(x)
    n, d = fr.numerator, fr.denominator
    s = "(%d)" % n if n < 0 else "%d" % n
    return s if d == 1 else "(%s / %d)" % (s, d)


SCALES = ("mel", "bark", "linear", "octave")


def gen_config(rng, kind=None, thorough=False):
    kind = kind or rng.choice(["tri", "fbank", "gabor", "gammatone", "gammatone", "gabor"])
    rate = rng.choice([8000, 16000, 4000, 11025, 22050, 44100] if thorough else [8000, 16000, 4000, 11025, 22050])
    sc = rng.choice(SCALES)
    low = rng.choice([0.0, 5.0, 20.0, 64.0, 100.0, 300.0, float(rng.randrange(1, 400))])
    if sc == "linear":
        scale = dict(name="linear", low_hz=rng.choice([0.0, 20.0]), slope_hz=rng.choice([1.0, 0.5, 2.0]))
    elif sc == "octave":
        olow = rng.choice([20.0, 1.0, 55.0])
        scale = dict(name="octave", low_hz=olow)
        low = max(low, olow)
    else:
        scale = dict(name=sc)
    nyq = rate // 2
    u = rng.random()
    if u < 0.4:
        high = None
    elif u < 0.6:
        high = float(nyq)
    else:
        high = float(rng.randrange(int(low) + 50, nyq + 1)) if int(low) + 50 < nyq else None
    nf = rng.choice([1, 2, 3, 5, 8, 11, 16, 24, 40])
    cfg = dict(kind=kind, rate=rate, num_filts=nf, low_hz=low, high_hz=high)
    if kind in ("tri", "gabor", "gammatone"):
        cfg["scale"] = scale
    if kind in ("tri", "fbank"):
        cfg["analytic"] = rng.random() < 0.5
    if kind == "gabor":
        cfg["erb"] = rng.random() < 0.5
        cfg["scale_l2_norm"] = rng.random() < 0.4
    if kind == "gammatone":
        cfg["erb"] = rng.random() < 0.5
        cfg["order"] = rng.choice([3, 3, 4, 4, 5, 6, 7, 8, 9, 10, 11])
        cfg["max_centered"] = rng.random() < 0.6
        cfg["scale_l2_norm"] = False  # the property excludes L2 scaling for gammatones
    return cfg


def build(F, cfg):
    kw = dict(num_filts=cfg["num_filts"], low_hz=cfg["low_hz"], high_hz=cfg["high_hz"], sampling_rate=cfg["rate"])
    k = cfg["kind"]
    if k == "tri":
        return F.TriangularOverlappingFilterBank(dict(cfg["scale"]), analytic=cfg["analytic"], **kw)
    if k == "fbank":
        return F.Fbank(analytic=cfg["analytic"], **kw)
    if k == "gabor":
        return F.GaborFilterBank(dict(cfg["scale"]), erb=cfg["erb"], scale_l2_norm=cfg["scale_l2_norm"], **kw)
    if k == "gammatone":
        return F.ComplexGammatoneFilterBank(
            dict(cfg["scale"]), erb=cfg["erb"], order=cfg["order"], max_centered=cfg["max_centered"],
            scale_l2_norm=cfg["scale_l2_norm"], **kw)
    raise ValueError(k)


def try_build(F, cfg):
    """Bank or None when the configuration is not constructible (the property's own exclusion)."""
    import warnings

    try:
        with warnings.catch_warnings():
            warnings.simplefilter("ignore")
            b = build(F, cfg)
        sup = b.supports
        shz = b.supports_hz
        for (l, r), (lh, rh) in zip(sup, shz):
            if not (math.isfinite(lh) and math.isfinite(rh) and rh > lh and r > l):
                return None
        return b
    except (ValueError, OverflowError, ZeroDivisionError, FloatingPointError):
        return None


# --------------------------------------------------------------------------
# the property, stated executably (search oracle)


def base_width(bank, fi):
    l, r = bank.supports[fi]
    lh, rh = bank.supports_hz[fi]
    return max(r - l, int(math.ceil(2 * bank.sampling_rate / (rh - lh))), 2)


def widths_for(rng, bank, fi, cap, n_extra=1):
    b = base_width(bank, fi)
    ws = set()
    for mult in (1.0, 1.5, 2.0, 4.0):
        w = int(math.ceil(b * mult))
        ws.add(w)
        ws.add(w + 1)
    for _ in range(n_extra):
        ws.add(int(b * rng.uniform(1.0, 4.0)) + rng.randrange(2))
    return sorted(w for w in ws if b <= w <= cap), sorted(w for w in ws if w > cap)


def outside_time_mask(np, l, r, W):
    m = np.ones(W, dtype=bool)
    if r - l + 1 >= W:
        m[:] = False
        return m
    idx = np.arange(l, r + 1) % W
    m[idx] = False
    return m


def outside_freq_mask(np, lh, rh, rate, W, real):
    """bins whose frequency (mod rate) lies outside [lh, rh]; mirrored for real banks"""
    f = np.arange(W) * (rate / W)
    k0 = np.ceil((lh - f) / rate)
    inside = f + k0 * rate <= rh
    m = ~inside
    if real:
        m2 = m.copy()
        m2[1:] &= m[-1:0:-1]
        m = m2
    return m


QUERY_ORDERS = ["freq,impulse", "impulse,freq", "half,impulse,freq", "truncated,impulse,freq,impulse"]


def oracle(np, bank, fi, W, eps, order=0):
    """Returns (violations, measures).  violations: list of (clause, measured, bound).
    The two responses are asked of the SAME bank object in the given order (its answers must not depend on what
    it was asked before); a response asked twice must come back identical."""
    got = {}
    bad = []
    meas = {}
    for q in QUERY_ORDERS[order].split(","):
        if q == "freq":
            r = bank.get_frequency_response(fi, W)
        elif q == "impulse":
            r = bank.get_impulse_response(fi, W)
        elif q == "half":
            try:
                bank.get_frequency_response(fi, W, half=True)[...] = 7.25
            except (ValueError, TypeError):
                pass
            continue
        else:
            try:
                bank.get_truncated_response(fi, W)[1][...] = 7.25
            except (ValueError, TypeError):
                pass
            continue
        raw, r = r, r.copy()
        try:
            raw[...] = 7.25  # the returned array belongs to the caller: scribbling on it must not change later answers
        except (ValueError, TypeError):
            pass
        if q in got and not (got[q].shape == r.shape and np.array_equal(got[q], r)):
            bad.append(("repeated_query_differs", dict(query=q, shapes=[list(got[q].shape), list(r.shape)]), None))
        got[q] = r
    X, x = got["freq"], got["impulse"]
    if X.shape != (W,) or x.shape != (W,):
        bad.append(("shape", [list(X.shape), list(x.shape)], W))
        return bad, meas
    d = float(np.max(np.abs(np.fft.ifft(X) - x)))
    meas["idft"] = d / eps
    if not d <= 2 * eps:
        bad.append(("idft_pair", d, 2 * eps))
    cplx = bool(np.iscomplexobj(x))
    if cplx == bool(bank.is_real):
        bad.append(("ir_real_iff_is_real", dict(ir_complex=cplx, is_real=bool(bank.is_real)), None))
    if x.dtype not in (np.float64, np.complex128):
        bad.append(("ir_dtype", str(x.dtype), None))
    l, r = bank.supports[fi]
    lh, rh = bank.supports_hz[fi]
    mt = outside_time_mask(np, l, r, W)
    mf = outside_freq_mask(np, lh, rh, bank.sampling_rate, W, bool(bank.is_real))
    meas["nt"] = int(mt.sum())
    meas["nf"] = int(mf.sum())
    if mt.any():
        ot = float(np.max(np.abs(x[mt])))
        meas["time"] = ot / eps
        if not ot < 2 * eps:
            bad.append(("outside_supports", dict(value=ot, sample=int(np.argmax(np.abs(x) * mt))), 2 * eps))
    if mf.any():
        of = float(np.max(np.abs(X[mf])))
        meas["freq"] = of / eps
        if not of < 2.5 * eps:
            bad.append(("outside_supports_hz", dict(value=of, bin=int(np.argmax(np.abs(X) * mf))), 2.5 * eps))
    return bad, meas


def support_shape(bank, cfg):
    """zero-phase banks straddle 0; causal gammatone starts at 0"""
    bad = []
    for fi, (l, r) in enumerate(bank.supports):
        if not (isinstance(l, (int,)) and isinstance(r, (int,))):
            try:
                import numpy as np

                okint = isinstance(l, (int, np.integer)) and isinstance(r, (int, np.integer))
            except Exception:
                okint = False
            if not okint:
                bad.append(("supports_integer", fi, [repr(l), repr(r)]))
                continue
        if bank.is_zero_phase:
            if not (l < 0 < r):
                bad.append(("supports_straddle_zero", fi, [int(l), int(r)]))
        elif cfg["kind"] == "gammatone" and not cfg["max_centered"]:
            if l != 0 or r <= 0:
                bad.append(("causal_support_starts_at_zero", fi, [int(l), int(r)]))
        elif cfg["kind"] == "gammatone":
            if not (l < 0 < r):
                bad.append(("centered_support_straddles_zero", fi, [int(l), int(r)]))
    return bad


# The re-tuned-threshold phase keeps to filters whose supports_hz spans at most this many sampling periods (a regime the
# shipped threshold reaches too).  Beyond it the periodic images that get_frequency_response leaves out (each below the
# threshold, polynomial tails of a gammatone) add up: the unchanged implementation measures ~0.25 x threshold per period
# spanned in the IDFT clause (order 3: 0.74 at 4 periods, 3.25 at 11.6 periods with the threshold at 2e-5).
RETUNED_MAX_PERIODS = 4


def run_search(ctx, F, np, eps, n_banks, cap, time_budget, seeds=(), threshold=None, kinds=None):
    """The executable property over generated banks x filters x widths.
    threshold: the value config.EFFECTIVE_SUPPORT_THRESHOLD was re-assigned to by the caller (recorded with every case;
    eps must then be that value: the bounds of the property are relative to the threshold in force)."""
    t0 = time.time()
    found = 0
    worst = {}
    todo = list(seeds)
    i = 0
    tag = "search:" if threshold is None else "retuned-threshold:"
    extra = {} if threshold is None else dict(EFFECTIVE_SUPPORT_THRESHOLD=threshold)
    note = "" if threshold is None else (
        " [bank built after config.EFFECTIVE_SUPPORT_THRESHOLD was set to %g; bounds relative to the threshold in force]" % threshold)
    while (i < n_banks or todo) and time.time() - t0 < time_budget:
        if todo:
            cfg = todo.pop(0)
        else:
            cfg = gen_config(ctx.rng, kind=ctx.rng.choice(kinds) if kinds else None, thorough=ctx.thorough)
            i += 1
        bank = try_build(F, cfg)
        if bank is None:
            ctx.count(tag + "not-constructible:" + cfg["kind"])
            continue
        ctx.count(tag + "bank:" + cfg["kind"])
        for name, fi, detail in support_shape(bank, cfg):
            ctx.fail("property violated on the implementation (%s): filter %d supports %r of %r%s" % (name, fi, detail, cfg, note),
                     dict(check=name, config=cfg, filt_idx=fi, supports=detail, **extra), kind="impl")
            found += 1
        nf = bank.num_filts
        fis = set([0, nf - 1, ctx.rng.randrange(nf), ctx.rng.randrange(nf)])
        # filters whose left half is wider than the right one (rare: most scales widen with frequency)
        try:
            cen, shz = bank.centers_hz, bank.supports_hz
            odd = [j for j in range(nf) if (cen[j] - shz[j][0]) > (shz[j][1] - cen[j]) * (1 + 1e-9)]
            for j in ctx.rng.sample(odd, min(2, len(odd))):
                fis.add(j)
                ctx.count(tag + "left-half-wider-filter")
        except Exception:  # noqa: BLE001
            pass
        fis = sorted(fis)
        for fi in fis:
            if threshold is not None and bank.supports_hz[fi][1] - bank.supports_hz[fi][0] > RETUNED_MAX_PERIODS * bank.sampling_rate:
                ctx.count(tag + "skipped:supports_hz-spans-over-%d-sampling-periods" % RETUNED_MAX_PERIODS)
                continue
            ws, skipped = widths_for(ctx.rng, bank, fi, cap)
            if skipped:
                ctx.count(tag + "width-over-cap", len(skipped))
            if len(ws) > 4 and not ctx.thorough:
                keep = set(ws[:2]) | set(ctx.rng.sample(ws[2:], 2))
                ws = sorted(keep)
            for W in ws:
                order = ctx.rng.randrange(len(QUERY_ORDERS))
                ctx.count(tag + "query-order:" + QUERY_ORDERS[order])
                try:
                    bad, meas = oracle(np, bank, fi, W, eps, order)
                except AssertionError as e:
                    # the triangular banks assert their own index arithmetic
                    bad, meas = [("assertion", repr(e), None)], {}
                case = dict(config=cfg, filt_idx=fi, width=W, query_order=QUERY_ORDERS[order], **extra)
                ctx.case(case, nontrivial=bool(meas.get("nt")) or bool(meas.get("nf")))
                ctx.count(tag + "eval:" + cfg["kind"])
                ctx.count(tag + "width-parity:%s" % ("odd" if W % 2 else "even"))
                if meas.get("nt"):
                    ctx.count(tag + "nonvacuous-time:" + cfg["kind"])
                if meas.get("nf"):
                    ctx.count(tag + "nonvacuous-freq:" + cfg["kind"])
                for k in ("idft", "time", "freq"):
                    if k in meas:
                        kk = cfg["kind"] + ":" + k
                        if meas[k] > worst.get(kk, (0,))[0]:
                            worst[kk] = (round(meas[k], 4), case)
                for clause, measured, bound in bad:
                    found += 1
                    ctx.fail(
                        "property violated on the implementation (%s): measured %r, bound %r at %r%s" % (clause, measured, bound, case, note),
                        dict(check=clause, config=cfg, filt_idx=fi, width=W, query_order=QUERY_ORDERS[order], measured=measured, bound=bound,
                             supports=[int(v) for v in bank.supports[fi]], supports_hz=[float(v) for v in bank.supports_hz[fi]], **extra),
                        kind="impl")
                if found >= 8:
                    return found, worst
    return found, worst


def retuned_search(ctx, F, np, config, cap):
    """EFFECTIVE_SUPPORT_THRESHOLD is a documented package setting that may be re-assigned at run time, and the property
    is stated relative to it: lower (and raise) it AFTER the modules were imported, build banks, and run the same
    executable property with the value in force.  The setting is restored on the way out."""
    shipped = config.EFFECTIVE_SUPPORT_THRESHOLD
    found, worst = 0, {}
    kinds = ["gabor", "gabor", "gammatone", "gammatone", "gabor", "gammatone", "tri", "fbank"]
    seeds = [c for c in TARGETED if c["kind"] in ("gabor", "gammatone") and c.get("order", 4) <= 4]
    try:
        for thr in [1e-4, 2e-5, 2e-3] + ctx.scale([], [1e-3, 1e-5, 5e-3]):
            config.EFFECTIVE_SUPPORT_THRESHOLD = thr
            pick = [dict(c) for c in ctx.rng.sample(seeds, ctx.scale(2, len(seeds)))]
            f, w = run_search(ctx, F, np, float(thr), ctx.scale(10, 150), cap, ctx.scale(6, 200), seeds=pick, threshold=thr, kinds=kinds)
            found += f
            for k, v in w.items():
                worst["%g:%s" % (thr, k)] = v
            if found >= 8:
                break
    finally:
        config.EFFECTIVE_SUPPORT_THRESHOLD = shipped
    return found, worst


# --------------------------------------------------------------------------
# translator step


def regenerate(ctx):
    import c07_filters as gen
    from pyexpr import Unsupported

    try:
        gen.main(os.path.join(C.SRC, "filters.py"), os.path.join(C.SRC, "config.py"),
                 os.path.join(C.COQ, "gen", "C07Filters.v"))
        return True
    except (Unsupported, SyntaxError, OSError, KeyError, AssertionError) as e:
        if not C.tie_fallback(ctx, "translator gen/c07_filters.py no longer recognises filters.py/config.py: %s" % e,
                 dict(correspondence="gen/c07_filters.py -> coq/gen/C07Filters.v", error=str(e)), kind="tie", no_input=True):
            return False
        return True


# --------------------------------------------------------------------------
# correspondence: implementation values certified against the R-valued model

REQ = (
    "From Coq Require Import Reals Lra Lia ZArith.\n"
    "From Interval Require Import Tactic.\n"
    "From Coquelicot Require Import Complex.\n"
    "From Flocq Require Import Core.Raux.\n"
    "From Verif Require Import gen.Scales lib.Cert lib.C07_Base C07.Model C07.Forms lib.C07_Cert gen.C07Filters.\n"
    "Open Scope R_scope.\n"
)


def scale_terms(scale):
    n = scale["name"]
    if n == "mel":
        return "mel_h2s", "mel_s2h"
    if n == "bark":
        return "bark_h2s", "bark_s2h"
    if n == "linear":
        return "(linear_h2s %s %s)" % (q(scale["low_hz"]), q(scale["slope_hz"])), "(linear_s2h %s %s)" % (q(scale["low_hz"]), q(scale["slope_hz"]))
    if n == "octave":
        return "(octave_h2s %s)" % q(scale["low_hz"]), "(octave_s2h %s)" % q(scale["low_hz"])
    raise ValueError(n)


def b(x):
    return "true" if x else "false"


def near(expr, v, tol):
    return "Rabs (%s - %s) <= %s" % (expr, q(float(v)), q(tol))


def abs_tol(v, rel=1e-9):
    return rel * max(1.0, abs(float(v)))


class Goals:
    """Collects certified-comparison goals; one failing goal = one mismatching case."""

    def __init__(self, eps=5e-4):
        self.items = []  # (prelude, goal text, case dict)
        self.eps = eps

    def add(self, prelude, stmt, proof, case):
        self.items.append((prelude, "Goal %s.\nProof. %s Qed.\n" % (stmt, proof), case))


def eff_high(cfg):
    return float(cfg["rate"] // 2) if cfg["high_hz"] is None else float(cfg["high_hz"])


def edge_notations(cfg, fi):
    h2s, s2h = scale_terms(cfg["scale"])
    args = "%s %s %s %s %s" % (h2s, s2h, q(cfg["low_hz"]), q(eff_high(cfg)), q(cfg["num_filts"]))
    return (
        "Local Notation e0 := (bank_edge %s %s) (only parsing).\n" % (args, q(fi))
        + "Local Notation e1 := (bank_edge %s %s) (only parsing).\n" % (args, q(fi + 1))
        + "Local Notation rate := (%s) (only parsing).\n" % q(cfg["rate"])
        + "Local Notation eps := (src_eps) (only parsing).\n"
    )


def edges_mp(cfg, fi):
    """the constructor's edge computation at 40 digits (mpmath); only used as centres of the
    enclosures that Coq then certifies against the model, so that float round-off of the
    harness cannot make an enclosure miss"""
    import mpmath as mp

    mp.mp.dps = 40
    sc = cfg["scale"]
    name = sc["name"]
    if name == "mel":
        h2s = lambda f: 1127 * mp.log(1 + mp.mpf(f) / 700)
        s2h = lambda x: 700 * (mp.exp(x / 1127) - 1)
    elif name == "linear":
        lo_, sl = mp.mpf(sc["low_hz"]), mp.mpf(sc["slope_hz"])
        h2s = lambda f: (mp.mpf(f) - lo_) * sl
        s2h = lambda x: x / sl + lo_
    elif name == "octave":
        lo_ = max(mp.mpf(10) ** -10, mp.mpf(sc["low_hz"]))
        h2s = lambda f: mp.log(mp.mpf(f) / lo_) / mp.log(2)
        s2h = lambda x: mp.mpf(2) ** x * lo_
    else:
        raise ValueError(name)
    lo, hi = h2s(cfg["low_hz"]), h2s(eff_high(cfg))
    dl = (hi - lo) / (cfg["num_filts"] + 1)
    return mp, s2h(lo + dl * (fi + mp.mpf(1) / 2)), s2h(lo + dl * (fi + mp.mpf(3) / 2))


def rad(v):
    """radius of the enclosure around float(v), v known to 40 digits"""
    return 4e-16 * max(abs(float(v)), 1e-300)


def stage(uid, items):
    """items: [(short name, Coq term (notation), float centre, radius)], outermost term first.
    Emits one certified enclosure lemma per item and a tactic that replaces the terms by
    variables known only through their enclosures (keeps the Interval goals small)."""
    out = ""
    for name, term, f, rad in items:
        out += "Lemma %s_ok_%s : %s <= %s <= %s.\nProof. unfold src_eps; split; c07. Qed.\n" % (
            name, uid, q(f - rad), term, q(f + rad))
    tac = "Ltac stage_%s := " % uid
    tac += "; ".join("pose proof %s_ok_%s" % (name, uid) for name, _, _, _ in items)
    tac += "; " + "; ".join("set (v_%s := %s) in *" % (name, term) for name, term, _, _ in items)
    tac += "; clearbody " + " ".join("v_%s" % name for name, _, _, _ in items) + ".\n"
    return out + tac


def int_bounds(expr, n, tol=1e-7):
    """n = ceil(expr) up to round-off"""
    return "IZR (%d) - 1 - %s < %s <= IZR (%d) + %s" % (n, q(tol), expr, n, q(tol))


def gabor_goals(G, np, cfg, bank, fi, rng, F=None):
    uid = "g%d" % len(G.items)
    l2 = b(cfg["scale_l2_norm"])
    mp, e0m, e1m = edges_mp(cfg, fi)
    cm = (e0m + e1m) / 2
    bwm = mp.sqrt(mp.pi) / 2 if cfg["erb"] else mp.sqrt(mp.mpf(3) / 10 * mp.log(10))
    sdm = bwm / ((cm - e0m) * 2 * mp.pi / cfg["rate"])
    xim = cm * 2 * mp.pi / cfg["rate"]
    epsm = mp.mpf(repr(G.eps))
    fscm = -2 * mp.log(epsm) + ((mp.log(2) + mp.log(mp.pi) / 2) if cfg["scale_l2_norm"] else 0)
    radm = (mp.log(sdm) + fscm) if cfg["scale_l2_norm"] else fscm
    if radm <= 0:
        return
    dangm = mp.sqrt(radm) / sdm
    sdf, xif, dangf = float(sdm), float(xim), float(dangm)
    pre0 = edge_notations(cfg, fi) + (
        "Local Notation sd := (gabor_std %s rate e0 e1) (only parsing).\n" % b(cfg["erb"])
        + "Local Notation xi := (h2a ((e0 + e1) / 2) rate) (only parsing).\n"
        + "Local Notation dang := (gabor_diff_ang eps %s sd) (only parsing).\n" % l2
    )
    pre = pre0 + stage(uid, [("dang", "dang", dangf, rad(dangm)), ("sd", "sd", sdf, rad(sdm)), ("xi", "xi", xif, rad(xim))])
    ST = "stage_%s. unfold src_eps in *. c07." % uid
    base = dict(config=cfg, filt_idx=fi)
    c = bank.centers_hz[fi]
    G.add(pre, near("(e0 + e1) / 2", c, abs_tol(c)), "unfold src_eps; c07.", dict(base, observe="centers_hz", value=float(c)))
    lo, hi = (float(v) for v in bank.supports_hz[fi])
    G.add(pre, near("a2h (xi - dang) rate", lo, abs_tol(lo) + 1e-9 * abs(hi - lo)), ST, dict(base, observe="supports_hz[0]", value=lo))
    G.add(pre, near("a2h (xi + dang) rate", hi, abs_tol(hi) + 1e-9 * abs(hi - lo)), ST, dict(base, observe="supports_hz[1]", value=hi))
    l, r = (int(v) for v in bank.supports[fi])
    if l != -r:
        G.add("", "False", "idtac.", dict(base, observe="supports", value=[l, r], note="not symmetric"))
        return
    G.add(pre, int_bounds("gabor_diff_samps_real eps %s sd" % l2, r), "stage_%s. unfold src_eps in *. split; c07." % uid,
          dict(base, observe="supports", value=[l, r]))
    # impulse response samples
    W = base_width(bank, fi) + rng.randrange(0, 3)
    if W > 4000:
        return
    x = bank.get_impulse_response(fi, W)
    js = sorted(set([0, 1, W - 1, min(r, W - 1), min(r + 1, W - 1), rng.randrange(W), rng.randrange(min(W, r + 2))]))
    for j in js:
        v = complex(x[j])
        case = dict(base, observe="get_impulse_response", width=W, sample=j, value=[v.real, v.imag])
        G.add(pre, near("fst (gabor_ir %s sd xi %d %d)" % (l2, W, j), v.real, 1e-9), "rewrite gabor_ir_re. " + ST, case)
        G.add(pre, near("snd (gabor_ir %s sd xi %d %d)" % (l2, W, j), v.imag, 1e-9), "rewrite gabor_ir_im. " + ST, case)
    # frequency response samples
    X = bank.get_frequency_response(fi, W)
    lo_a = 2 * math.pi * lo / cfg["rate"]
    hi_a = 2 * math.pi * hi / cfg["rate"]
    if abs(lo_a) < 1e-7 or abs(hi_a / (2 * math.pi) - round(hi_a / (2 * math.pi))) < 1e-7 or abs(lo_a / (2 * math.pi) - round(lo_a / (2 * math.pi))) < 1e-7:
        return
    plo = -1 - int(max(-lo_a, 0) / (2 * math.pi))
    phi = 2 + int(hi_a / (2 * math.pi))
    if phi - plo > 6:
        return
    kc = int(round(c * W / cfg["rate"])) % W
    for idx in sorted(set([0, kc, (kc + 1) % W, rng.randrange(W)])):
        v = float(X[idx])
        case = dict(base, observe="get_frequency_response", width=W, bin=idx, value=v)
        stmt = near("gabor_fr %s sd xi (xi - dang) (xi + dang) %d %d" % (l2, W, idx), v, 1e-9)
        proof = (
            "stage_%s. unfold src_eps in *. rewrite (gabor_fr_periods _ _ _ _ _ _ _ (%d) (%d)).\n" % (uid, plo, phi)
            + "- expand_sum. c07.\n"
            + ("- apply gabor_period_lo_nonneg. c07.\n" if lo_a >= 0 else
               "- apply (gabor_period_lo_neg _ (%d)); [c07 | lia | split; c07].\n" % (-1 - plo))
            + "- unfold gabor_period_hi. rewrite (Ztrunc_eq _ (%d)); [reflexivity | lia | split; c07].\n" % (phi - 2)
        )
        G.add(pre, stmt, proof, case)


def gammatone_goals(G, np, cfg, bank, fi, rng, F=None):
    uid = "t%d" % len(G.items)
    n = cfg["order"]
    mc = cfg["max_centered"]
    eps = G.eps
    mp, e0m, e1m = edges_mp(cfg, fi)
    cm = (e0m + e1m) / 2
    xim = cm * 2 * mp.pi / cfg["rate"]
    epsm = mp.mpf(repr(eps))
    if cfg["erb"]:
        acm = mp.log(2) * (2 * n - 1) + 2 * mp.log(mp.factorial(n - 1)) - mp.log(mp.factorial(2 * n - 2)) - mp.log(2 * mp.pi)
    else:
        acm = -mp.log(4 * mp.mpf(2) ** (mp.mpf(1) / n) - 4) / 2
    lam = acm + mp.log((e1m - e0m) * 2 * mp.pi / cfg["rate"])
    lcm = n * lam - mp.log(mp.factorial(n - 1))
    dangm = mp.sqrt(mp.exp((mp.mpf(2) / n) * (lcm + mp.log(mp.factorial(n - 1)) - mp.log(epsm))) - mp.exp(2 * lam))
    laf, xif, dangf = float(lam), float(xim), float(dangm)
    pre0 = edge_notations(cfg, fi) + (
        "Local Notation la := (gt_log_alpha %s %d rate e0 e1) (only parsing).\n" % (b(cfg["erb"]), n)
        + "Local Notation al := (exp la) (only parsing).\n"
        + "Local Notation lc := (gt_log_c false %d la) (only parsing).\n" % n
        + "Local Notation cc := (exp lc) (only parsing).\n"
        + "Local Notation xi := (h2a ((e0 + e1) / 2) rate) (only parsing).\n"
        + "Local Notation off := (gt_offset %s %d al) (only parsing).\n" % (b(mc), n)
        + "Local Notation dang := (gt_diff_ang eps %d lc la) (only parsing).\n" % n
    )
    pre = pre0 + stage(uid, [("dang", "dang", dangf, rad(dangm)), ("la", "la", laf, rad(lam)), ("xi", "xi", xif, rad(xim))])
    base = dict(config=cfg, filt_idx=fi)
    U = "stage_%s. unfold src_eps in *. c07." % uid
    U0 = U[:-1]
    c = bank.centers_hz[fi]
    G.add(pre, near("(e0 + e1) / 2", c, abs_tol(c)), "unfold src_eps; c07.", dict(base, observe="centers_hz", value=float(c)))
    lo, hi = (float(v) for v in bank.supports_hz[fi])
    G.add(pre, near("a2h (xi - dang) rate", lo, abs_tol(lo) + 1e-9 * (hi - lo)), U, dict(base, observe="supports_hz[0]", value=lo))
    G.add(pre, near("a2h (xi + dang) rate", hi, abs_tol(hi) + 1e-9 * (hi - lo)), U, dict(base, observe="supports_hz[1]", value=hi))
    L, R = (int(v) for v in bank.supports[fi])
    case = dict(base, observe="supports", value=[L, R])
    G.add(pre, "IZR (%d) - 1 / 10000000 <= off < IZR (%d) + 1 + 1 / 10000000" % (L, L), "stage_%s. unfold src_eps in *. split; c07." % uid, case)
    # translation validation of the support search: the stored right end satisfies the
    # postcondition of gammatone_search_sound (then gammatone_ir_outside_validated_supports applies)
    G.add(pre, "gt_habs cc al %d off (IZR (%d)) <= eps * (1 + 1 / 1000000000)" % (n, R),
          "stage_%s. unfold src_eps in *. rewrite gt_habs_after by c07. c07." % uid, dict(case, clause="search postcondition"))
    G.add(pre, "(INR %d - 1) / al - (IZR (%d) - off) <= 0" % (n, R), U, dict(case, clause="beyond the mode"))
    alpha_f = math.exp(laf)
    off_f = (-(n - 1) / alpha_f) if mc else 0.0
    W = base_width(bank, fi) + rng.randrange(0, 3)
    if W > 3000:
        return
    x = bank.get_impulse_response(fi, W)
    plo = int(math.floor(L / W))
    phi = int(math.ceil(R / W))
    if phi - plo <= 3:
        for j in sorted(set([0, 1, W - 1, rng.randrange(W), min(R + 1, W - 1), rng.randrange(min(W, max(R // 4, 1)))])):
            ts = [p * W + j for p in range(plo, phi + 1)]
            if any(abs(t - off_f) < 1e-6 for t in ts):
                continue
            v = complex(x[j])
            case = dict(base, observe="get_impulse_response", width=W, sample=j, value=[v.real, v.imag])
            for part, lem, val in (("fst", "gt_h_re", v.real), ("snd", "gt_h_im", v.imag)):
                proof = (
                    "stage_%s. unfold src_eps in *. rewrite (gt_ir_periods _ _ _ _ _ _ _ _ (%d) (%d)); "
                    "[ | cbn [fst snd]; apply Zfloor_eq; split; first [lra | interval] | cbn [fst snd]; apply Zceil_eq; split; first [lra | interval] ].\n"
                    % (uid, plo, phi)
                    + "expand_sum. rewrite ?%s.\n" % lem
                )
                for t in ts:
                    if t <= off_f:
                        proof += "rewrite (gt_habs_before' _ _ _ _ (IZR (%d))) by c07.\n" % t
                    else:
                        proof += "rewrite (gt_habs_after _ _ _ _ (IZR (%d))) by c07.\n" % t
                proof += "c07."
                G.add(pre, near("%s (gt_ir cc al xi %d off (%d, %d)%%Z %d %d)" % (part, n, L, R, W, j), val, 1e-9), proof, case)
    X = bank.get_frequency_response(fi, W)
    lo_a = 2 * math.pi * lo / cfg["rate"]
    hi_a = 2 * math.pi * hi / cfg["rate"]
    plo = int(math.floor(lo_a / 2 / math.pi))
    phi = int(math.ceil(hi_a / 2 / math.pi))
    fr_ok = abs(lo_a / 2 / math.pi - round(lo_a / 2 / math.pi)) > 1e-7 and abs(hi_a / 2 / math.pi - round(hi_a / 2 / math.pi)) > 1e-7
    if phi - plo <= 4 and fr_ok:
        kc = int(round(c * W / cfg["rate"])) % W
        for idx in sorted(set([0, kc, (kc + 1) % W, rng.randrange(W)])):
            v = complex(X[idx])
            case = dict(base, observe="get_frequency_response", width=W, bin=idx, value=[v.real, v.imag])
            for part, lem, val in (("fst", "gt_H_re", v.real), ("snd", "gt_H_im", v.imag)):
                proof = (
                    "stage_%s. unfold src_eps in *. rewrite (gt_fr_periods _ _ _ _ _ _ _ _ _ (%d) (%d)); "
                    "[ | apply Zfloor_eq; split; c07 | apply Zceil_eq; split; c07 ].\n" % (uid, plo, phi)
                    + "expand_sum. rewrite !%s by (apply exp_pos).\n" % lem
                    + "c07."
                )
                G.add(pre, near("%s (gt_fr cc al xi %d off (xi - dang) (xi + dang) %d %d)" % (part, n, W, idx), val, 1e-9), proof, case)


def tri_like_goals(G, np, cfg, bank, fi, rng, F=None):
    kind = cfg["kind"]
    lh, rh = (float(v) for v in bank.supports_hz[fi])
    mh = float(bank.centers_hz[fi])
    pre = (
        "Local Notation rate := (%s) (only parsing).\n" % q(cfg["rate"])
        + "Local Notation eps := (src_eps) (only parsing).\n"
        + "Local Notation vl := (h2a %s rate) (only parsing).\n" % q(lh)
        + "Local Notation vm := (h2a %s rate) (only parsing).\n" % q(mh)
        + "Local Notation vr := (h2a %s rate) (only parsing).\n" % q(rh)
    )
    base = dict(config=cfg, filt_idx=fi, vertices=[lh, mh, rh])
    U = "unfold src_eps; c07."
    l, r = (int(v) for v in bank.supports[fi])
    K = r - l - 2
    case = dict(base, observe="supports", value=[l, r])
    if (l, r) != ((-K) // 2 - 1, K // 2 + 1):
        G.add("", "False", "idtac.", dict(case, note="not of the form (-K // 2 - 1, K // 2 + 1)"))
        return
    fn = "tri_K_real" if kind == "tri" else "fbank_K_real"
    G.add(pre, int_bounds("%s eps vl vm vr" % fn, K, tol=1e-6 * max(1, K)), "unfold src_eps; split; c07.", case)
    G.add("", "tri_supports (%d) = ((%d), (%d))%%Z" % (K, l, r), "vm_compute; reflexivity.", case)
    if kind != "tri":
        return
    an = b(cfg["analytic"])
    W = base_width(bank, fi) + rng.randrange(0, 3)
    if W > 4000:
        return
    x = bank.get_impulse_response(fi, W)
    for j in sorted(set([0, 1, W - 1, rng.randrange(1, W), min(r + 1, W - 1), rng.randrange(1, min(W, r + 2))])):
        v = complex(x[j])
        case = dict(base, observe="get_impulse_response", width=W, sample=j, value=[v.real, v.imag])
        if j:
            G.add(pre, near("fst (tri_ir %s vl vm vr %d %d)" % (an, W, j), v.real, 1e-9),
                  "rewrite tri_ir_re by (first [lia | split; %s]). %s" % (U[:-1], U), case)
            if cfg["analytic"]:
                G.add(pre, near("snd (tri_ir %s vl vm vr %d %d)" % (an, W, j), v.imag, 1e-9),
                      "rewrite tri_ir_im by (first [lia | split; %s]). %s" % (U[:-1], U), case)
        else:
            G.add(pre, near("fst (tri_ir %s vl vm vr %d 0)" % (an, W), v.real, 1e-9),
                  "rewrite tri_ir0_re by (first [lia | split; %s]). %s" % (U[:-1], U), case)


def tri_goals(G, np, cfg, bank, fi, rng, F=None):
    tri_like_goals(G, np, cfg, bank, fi, rng)


def fbank_goals(G, np, cfg, bank, fi, rng, F=None):
    tri_like_goals(G, np, cfg, bank, fi, rng)


def group_body(items):
    """Vernacular for a list of (prelude, goal, case): consecutive items sharing a prelude share a Section."""
    body, cur, k = "", None, 0
    for pre, g, _ in items:
        if pre != cur:
            if cur is not None:
                body += "End S%d.\n" % k
                k += 1
            body += "Section S%d.\n%s" % (k, pre)
            cur = pre
        body += g
    if cur is not None:
        body += "End S%d.\n" % k
    return body


KIND_COQ = {"tri": "Tri", "fbank": "Fbank", "gabor": "Gabor", "gammatone": "Gammatone"}


def flags_correspondence(ctx, F, np):
    """is_real / is_zero_phase / dtype of the impulse response: implementation vs model (vm_compute)."""
    obs = []
    for kind in ("tri", "fbank", "gabor", "gammatone"):
        for analytic in (False, True):
            cfg = dict(kind=kind, rate=8000, num_filts=3, low_hz=100.0, high_hz=3000.0, scale=dict(name="mel"),
                       analytic=analytic, erb=False, scale_l2_norm=False, order=4, max_centered=analytic)
            bank = build(F, cfg)
            x = bank.get_impulse_response(1, 64)
            obs.append((kind, analytic, bool(bank.is_real), bool(bank.is_zero_phase), bool(np.iscomplexobj(x)), str(x.dtype)))
    body = "Eval vm_compute in (map (fun ka => (is_real (fst ka) (snd ka), is_zero_phase (fst ka), match ir_dtype (fst ka) (snd ka) with Model.Float64 => false | Model.Complex128 => true end)) [%s]).\n" % "; ".join(
        "(%s, %s)" % (KIND_COQ[k], b(a)) for k, a, _, _, _, _ in obs)
    ans, log = C.coq_eval(ctx, "flags", body, "From Coq Require Import List Bool.\nImport ListNotations.\nFrom Verif Require Import C07.Model.\n")
    if ans is None or len(ans) != 1:
        ctx.fail("model evaluation of the flag logic failed", dict(correspondence="C07/Model.v is_real/is_zero_phase/ir_dtype", log_tail=(log or "")[-800:]),
                 kind="tie", no_input=True)
        return
    model = C.parse_coq(ans[0])
    for (k, a, r, z, cplx, dt), m in zip(obs, model):
        case = dict(kind=k, analytic=a, is_real=r, is_zero_phase=z, ir_complex=cplx, ir_dtype=dt)
        ctx.case(dict(observe="flags", **case))
        ctx.count("flags:" + k)
        if tuple(m) != (r, z, cplx) or dt not in ("float64", "complex128"):
            ctx.fail("implementation flags/dtype %r differ from the model %r" % (case, m), dict(case=case, model=list(m),
                     correspondence="is_real / is_zero_phase / dtype of get_impulse_response vs C07/Model.v"), kind="correspondence")
        else:
            ctx.cov["traces_validated_against_impl"] += 1


def cert_correspondence(ctx, F, np, eps, n_filters):
    G = Goals(eps)
    per_kind = {"tri": 0.22, "fbank": 0.08, "gabor": 0.35, "gammatone": 0.35}
    groups = []  # (start, end) indices of each filter's goals
    tries = 0
    while len(groups) < n_filters and tries < 20 * n_filters:
        tries += 1
        u = ctx.rng.random()
        acc = 0.0
        for kind, p in per_kind.items():
            acc += p
            if u <= acc:
                break
        cfg = gen_config(ctx.rng, kind=kind, thorough=ctx.thorough)
        if cfg.get("scale", {}).get("name") == "bark":
            # the Bark maps are piecewise: each certified goal would branch 2^k times; the search covers them
            ctx.count("cert:skipped-bark")
            continue
        if cfg["num_filts"] > 24 and not ctx.thorough:
            cfg["num_filts"] = ctx.rng.choice([1, 2, 5, 11, 24])
        bank = try_build(F, cfg)
        if bank is None:
            ctx.count("cert:not-constructible:" + kind)
            continue
        fi = ctx.rng.choice([0, bank.num_filts - 1, ctx.rng.randrange(bank.num_filts)])
        if base_width(bank, fi) > 2500:
            ctx.count("cert:too-wide")
            continue
        s0 = len(G.items)
        globals()[kind + "_goals"](G, np, cfg, bank, fi, ctx.rng, F=F)
        if len(G.items) > s0:
            groups.append((s0, len(G.items)))
            ctx.count("cert:filter:" + kind)
    for _, _, case in G.items:
        ctx.case(case)
        ctx.count("cert:goal:" + str(case.get("observe")))
    ok, out = C.coq_make(["lib/C07_Cert.v", "gen/C07Filters.v", "C07/Forms.v"])
    if not ok:
        ctx.fail("model / certification library no longer compiles", dict(correspondence="coq/lib/C07_Cert.v", log_tail=out[-1500:]), kind="tie", no_input=True)
        return []
    # shards of whole filters, balanced by number of goals
    nshard = max(1, min(12, len(groups)))
    shards = [[] for _ in range(nshard)]
    for gi, g in sorted(enumerate(groups), key=lambda t: -(t[1][1] - t[1][0])):
        min(shards, key=lambda sh: sum(groups[k][1] - groups[k][0] for k in sh)).append(gi)
    files = []
    for si, sh in enumerate(shards):
        items = [it for gi in sorted(sh) for it in G.items[groups[gi][0]:groups[gi][1]]]
        files.append(("cert_%d" % si, group_body(items)))
    res = C.coq_eval_many(ctx, files, REQ, timeout=1500)
    mismatches = []
    failing = []
    for (name, _), (ans, log), sh in zip(files, res, shards):
        if ans is not None:
            ctx.cov["traces_validated_against_impl"] += sum(groups[gi][1] - groups[gi][0] for gi in sh)
        else:
            failing.append(sh)
    if failing:
        # localise (bounded work): the filters of the first failing shard in parallel, then the
        # goals of its first failing filter in parallel
        sh = sorted(failing[0])
        fl = [("cert_f%d" % k, group_body(G.items[groups[gi][0]:groups[gi][1]])) for k, gi in enumerate(sh)]
        rf = C.coq_eval_many(ctx, fl, REQ, timeout=900)
        bad_filters = [gi for gi, (a2, _) in zip(sh, rf) if a2 is None]
        for gi, (a2, _) in zip(sh, rf):
            if a2 is not None:
                ctx.cov["traces_validated_against_impl"] += groups[gi][1] - groups[gi][0]
        ctx.count("cert:failing-shards", len(failing))
        ctx.count("cert:failing-filters-in-first-shard", len(bad_filters))
        if bad_filters:
            gi = bad_filters[0]
            items = G.items[groups[gi][0]:groups[gi][1]][:36]
            gl = [("cert_g%d" % k, group_body([it])) for k, it in enumerate(items)]
            rg = C.coq_eval_many(ctx, gl, REQ, timeout=600)
            for it, (a3, l3) in zip(items, rg):
                if a3 is None and len(mismatches) < 4:
                    mismatches.append((it[2], (l3 or "")[-600:]))
            if not mismatches:
                mismatches.append((dict(items[0][2], note="only fails together with the other goals of this filter"), ""))
        else:
            mismatches.append((dict(G.items[groups[sh[0]][0]][2], note="shard fails as a whole only"), (res[shards.index(failing[0])][1] or "")[-600:]))
    for case, log in mismatches:
        ctx.fail("implementation value is not within tolerance of the model: %r" % (case,),
                 dict(case=case, correspondence="Interval-certified comparison against coq/C07/Model.v", log_tail=log), kind="correspondence")
    return mismatches


def seeds_for_search(mismatches):
    """configurations of disagreeing cases are searched first"""
    out = []
    for case, _ in mismatches:
        cfg = case.get("config")
        if cfg and cfg not in out:
            out.append(cfg)
    return out


TARGETED = [
    # the configurations of the fixed defect (max_centered support), orders 3..8
    dict(kind="gammatone", rate=8000, num_filts=11, low_hz=0.0, high_hz=None, scale=dict(name="mel"), erb=e, order=o,
         max_centered=True, scale_l2_norm=False)
    for o in (3, 4, 6, 8) for e in (False, True)
] + [
    dict(kind="gabor", rate=8000, num_filts=11, low_hz=0.0, high_hz=None, scale=dict(name="mel"), erb=e, scale_l2_norm=l2)
    for e in (False, True) for l2 in (False, True)
] + [
    dict(kind=k, rate=8000, num_filts=11, low_hz=lo, high_hz=None, scale=dict(name="mel"), analytic=a)
    for k, lo in (("tri", 5.0), ("fbank", 0.0)) for a in (False, True)
] + [
    # triangular filters whose LEFT half is the wider one (a finely sampled Bark scale around its piecewise corrections,
    # a linear scale): the two branches of the impulse-response formula
    dict(kind="tri", rate=r, num_filts=n, low_hz=0.0, high_hz=None, scale=dict(name="bark"), analytic=a)
    for r, n in ((8000, 23), (16000, 40)) for a in (False, True)
] + [
    # long, narrow, high-order causal gammatones (sample indices beyond 2^(63/(order-1)))
    dict(kind="gammatone", rate=r, num_filts=n, low_hz=20.0, high_hz=None, scale=dict(name="mel"), erb=False, order=o,
         max_centered=False, scale_l2_norm=False)
    for r, n, o in ((16000, 40, 9), (16000, 40, 10), (8000, 11, 11), (16000, 64, 8))
]


def run(ctx):
    C.ensure_impl_path()
    import importlib

    import numpy as np

    F = importlib.import_module("pydrobert.speech.filters")
    config = importlib.import_module("pydrobert.speech.config")
    eps = float(config.EFFECTIVE_SUPPORT_THRESHOLD)
    ok_gen = regenerate(ctx)
    pr = C.proof_step(ctx) if ok_gen else None
    ctx.cov["trusted_base"] += [
        "translator /verif/gen/c07_filters.py (Python ast -> R / Z terms; complex values as (re, im) pairs; pinned statement texts)",
        "Interval 4 (interval tactic), Coquelicot (complex numbers), Flocq (Zfloor/Zceil/Ztrunc)",
        "generated /verif/coq/gen/Scales.v (property C19) for the bank edges in the certified comparison",
    ]
    mismatches = []
    if ok_gen:
        flags_correspondence(ctx, F, np)
        mismatches = cert_correspondence(ctx, F, np, eps, ctx.scale(30, 240))
        ctx.log("correspondence: %d certified comparisons, %d mismatches" % (ctx.cov["traces_validated_against_impl"], len(mismatches)))
    seeds = seeds_for_search(mismatches) + [dict(c) for c in TARGETED]
    found, worst = run_search(ctx, F, np, eps, ctx.scale(260, 6000), ctx.scale(12000, 40000), ctx.scale(50, 1500), seeds=seeds)
    ctx.cov["worst_margins_in_units_of_threshold"] = {k: v[0] for k, v in sorted(worst.items())}
    ctx.log("search: %d oracle evaluations, %d violations; worst margins (x threshold): %s" % (
        sum(v for k, v in ctx.dist.items() if k.startswith("search:eval:")), found,
        ", ".join("%s=%s" % (k, v[0]) for k, v in sorted(worst.items()))))
    found_r, worst_r = retuned_search(ctx, F, np, config, ctx.scale(12000, 40000))
    found += found_r
    ctx.cov["worst_margins_retuned_threshold_in_units_of_threshold"] = {k: v[0] for k, v in sorted(worst_r.items())}
    ctx.log("search with config.EFFECTIVE_SUPPORT_THRESHOLD re-assigned after import: %d oracle evaluations, %d violations; worst margins "
            "(x threshold in force): %s" % (sum(v for k, v in ctx.dist.items() if k.startswith("retuned-threshold:eval:")), found_r,
                                            ", ".join("%s=%s" % (k, v[0]) for k, v in sorted(worst_r.items()))))
    ctx.cov["rule"] = (
        "evaluations = certified comparisons (one per observed value: centers_hz, supports_hz, supports, samples of "
        "get_impulse_response / get_frequency_response, flags) + oracle evaluations (one per bank x filter x width; also for banks "
        "built after config.EFFECTIVE_SUPPORT_THRESHOLD was lowered / raised at run time, bounds relative to the value in force); "
        "an oracle evaluation is non-trivial when at least one sample or bin lies outside the advertised support; "
        "distinct = distinct (configuration, filter, width / observed value)"
    )
    if (pr is not None and not pr["ok"]) or not ok_gen:
        if not found and not mismatches:
            ctx.log("search found no failing input on the implementation")
    ctx.assumptions += [
        "float64 rounding is not modelled: certified comparisons use 1e-9 (absolute for samples, relative for Hz values), "
        "integer supports are compared up to 1e-7 before ceil/floor",
        "np.fft.ifft / irfft compute the inverse DFT (used by the oracle and by Fbank.get_impulse_response)",
        "the IDFT-pair clause and the Fbank temporal tail are checked numerically only (no theorem)",
        "closed forms 'what the accumulation loop leaves in res[j]' of Model.v are validated by the certified comparison, not proved from a loop model",
        "Bark-scaled banks are exercised by the oracle only (not by the certified comparison)",
    ]
    return C.finish(ctx, "proof")


def replay(ctx, rp):
    """./check C07 --replay <file>: re-run the recorded case on the implementation."""
    C.ensure_impl_path()
    import importlib

    import numpy as np

    F = importlib.import_module("pydrobert.speech.filters")
    config = importlib.import_module("pydrobert.speech.config")
    f = rp.get("failure", {}).get("replay", {})
    case = f.get("case", f)
    cfg = case.get("config")
    if not cfg:
        print(json.dumps(rp.get("failure"), indent=1, default=str))
        print("no concrete input recorded (proof / tie failure)")
        return 1
    shipped = config.EFFECTIVE_SUPPORT_THRESHOLD
    try:
        if case.get("EFFECTIVE_SUPPORT_THRESHOLD") is not None:
            # the recorded history: the setting was re-assigned after import, before the bank was built
            config.EFFECTIVE_SUPPORT_THRESHOLD = case["EFFECTIVE_SUPPORT_THRESHOLD"]
            print("config.EFFECTIVE_SUPPORT_THRESHOLD re-assigned to", config.EFFECTIVE_SUPPORT_THRESHOLD)
        return _replay_case(ctx, F, np, float(config.EFFECTIVE_SUPPORT_THRESHOLD), case, cfg)
    finally:
        config.EFFECTIVE_SUPPORT_THRESHOLD = shipped


def _replay_case(ctx, F, np, eps, case, cfg):
    bank = try_build(F, cfg)
    if bank is None:
        print("configuration is not constructible any more: %r" % (cfg,))
        return 1
    fi = case.get("filt_idx", 0)
    print("config", cfg, "filter", fi)
    print("supports", bank.supports[fi], "supports_hz", bank.supports_hz[fi], "is_real", bank.is_real)
    bad_shape = [b_ for b_ in support_shape(bank, cfg) if b_[1] == fi]
    for b_ in bad_shape:
        print("VIOLATED", b_)
    ws = [case["width"]] if case.get("width") else widths_for(ctx.rng, bank, fi, 12000)[0]
    rc = 1 if bad_shape else 0
    order = QUERY_ORDERS.index(case["query_order"]) if case.get("query_order") in QUERY_ORDERS else 0
    for W in ws:
        bad, meas = oracle(np, bank, fi, W, eps, order)
        print("width", W, "measures (x threshold)", {k: round(v, 4) for k, v in meas.items() if k in ("idft", "time", "freq")})
        for clause, measured, bound in bad:
            print("VIOLATED", clause, measured, "bound", bound)
            rc = 1
    if "observe" in case:
        print("recorded observation:", case.get("observe"), case.get("value"))
    return rc
