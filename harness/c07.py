"""C07 - impulse and frequency responses agree, within the advertised supports.

Proof: coq/C07 (Model.v, Proofs*.v, Tie.v, Props.v).  What is PROVED about the
model: support straddling / causal start, dtype logic, the tail bounds of every
closed-form bank INCLUDING the periodic images the code itself sums (Gabor and
gammatone in both domains, triangular in time, triangular/Fbank exactly zero in
frequency), partial correctness of the gammatone support search.  What is only
CHECKED NUMERICALLY here (no formalised Poisson summation): the IDFT pair and
the Fbank temporal tail.

Tie, re-run on every check:
 1. translator gen/c07_filters.py regenerates coq/gen/C07Filters.v (threshold
    constant, class flag logic, every scalar constructor / support formula) from
    filters.py + config.py; C07/Tie.v proves the generated text equal to the
    hand-written model the theorems are about;
 2. correspondence: values observed on the implementation (supports, supports_hz,
    centers_hz, samples of the impulse and frequency responses, dtype flags) are
    certified by Interval against the R-valued model, bank by bank;
 3. search: the property itself, stated executably, over generated banks x
    filters x widths.
"""

import json
import math
import os
import sys
import time
from fractions import Fraction

from . import common as C

sys.path.insert(0, os.path.join(C.ROOT, "gen"))

PID = "C07"


# --------------------------------------------------------------------------
# generation of banks


def q(x):
    """Exact rational of a float (or int) as a Coq R term."""
    fr = Fraction(x)
    n, d = fr.numerator, fr.denominator
    s = "(%d)" % n if n < 0 else "%d" % n
    return s if d == 1 else "(%s / %d)" % (s, d)


SCALES = ("mel", "bark", "linear", "octave")


def gen_config(rng, kind=None, thorough=False):
    kind = kind or rng.choice(["tri", "fbank", "gabor", "gammatone", "gammatone", "gabor"])
    rate = rng.choice([8000, 16000, 4000, 11025, 22050, 44100] if thorough else [8000, 16000, 4000, 11025, 22050])
    sc = rng.choice(SCALES)
    low = rng.choice([0.0, 5.0, 20.0, 64.0, 100.0, 300.0, float(rng.randrange(1, 400))])
    if sc == "linear":
        scale = dict(name="linear", low_hz=rng.choice([0.0, 20.0]), slope_hz=rng.choice([1.0, 0.5, 2.0]))
    elif sc == "octave":
        olow = rng.choice([20.0, 1.0, 55.0])
        scale = dict(name="octave", low_hz=olow)
        low = max(low, olow)
    else:
        scale = dict(name=sc)
    nyq = rate // 2
    u = rng.random()
    if u < 0.4:
        high = None
    elif u < 0.6:
        high = float(nyq)
    else:
        high = float(rng.randrange(int(low) + 50, nyq + 1)) if int(low) + 50 < nyq else None
    nf = rng.choice([1, 2, 3, 5, 8, 11, 16, 24, 40])
    cfg = dict(kind=kind, rate=rate, num_filts=nf, low_hz=low, high_hz=high)
    if kind in ("tri", "gabor", "gammatone"):
        cfg["scale"] = scale
    if kind in ("tri", "fbank"):
        cfg["analytic"] = rng.random() < 0.5
    if kind == "gabor":
        cfg["erb"] = rng.random() < 0.5
        cfg["scale_l2_norm"] = rng.random() < 0.4
    if kind == "gammatone":
        cfg["erb"] = rng.random() < 0.5
        cfg["order"] = rng.choice([3, 3, 4, 4, 5, 6, 7, 8])
        cfg["max_centered"] = rng.random() < 0.6
        cfg["scale_l2_norm"] = False  # the property excludes L2 scaling for gammatones
    return cfg


def build(F, cfg):
    kw = dict(num_filts=cfg["num_filts"], low_hz=cfg["low_hz"], high_hz=cfg["high_hz"], sampling_rate=cfg["rate"])
    k = cfg["kind"]
    if k == "tri":
        return F.TriangularOverlappingFilterBank(dict(cfg["scale"]), analytic=cfg["analytic"], **kw)
    if k == "fbank":
        return F.Fbank(analytic=cfg["analytic"], **kw)
    if k == "gabor":
        return F.GaborFilterBank(dict(cfg["scale"]), erb=cfg["erb"], scale_l2_norm=cfg["scale_l2_norm"], **kw)
    if k == "gammatone":
        return F.ComplexGammatoneFilterBank(
            dict(cfg["scale"]), erb=cfg["erb"], order=cfg["order"], max_centered=cfg["max_centered"],
            scale_l2_norm=cfg["scale_l2_norm"], **kw)
    raise ValueError(k)


def try_build(F, cfg):
    """Bank or None when the configuration is not constructible (the property's own exclusion)."""
    import warnings

    try:
        with warnings.catch_warnings():
            warnings.simplefilter("ignore")
            b = build(F, cfg)
        sup = b.supports
        shz = b.supports_hz
        for (l, r), (lh, rh) in zip(sup, shz):
            if not (math.isfinite(lh) and math.isfinite(rh) and rh > lh and r > l):
                return None
        return b
    except (ValueError, OverflowError, ZeroDivisionError, FloatingPointError):
        return None


# --------------------------------------------------------------------------
# the property, stated executably (search oracle)


def base_width(bank, fi):
    l, r = bank.supports[fi]
    lh, rh = bank.supports_hz[fi]
    return max(r - l, int(math.ceil(2 * bank.sampling_rate / (rh - lh))), 2)


def widths_for(rng, bank, fi, cap, n_extra=1):
    b = base_width(bank, fi)
    ws = set()
    for mult in (1.0, 1.5, 2.0, 4.0):
        w = int(math.ceil(b * mult))
        ws.add(w)
        ws.add(w + 1)
    for _ in range(n_extra):
        ws.add(int(b * rng.uniform(1.0, 4.0)) + rng.randrange(2))
    return sorted(w for w in ws if b <= w <= cap), sorted(w for w in ws if w > cap)


def outside_time_mask(np, l, r, W):
    m = np.ones(W, dtype=bool)
    if r - l + 1 >= W:
        m[:] = False
        return m
    idx = np.arange(l, r + 1) % W
    m[idx] = False
    return m


def outside_freq_mask(np, lh, rh, rate, W, real):
    """bins whose frequency (mod rate) lies outside [lh, rh]; mirrored for real banks"""
    f = np.arange(W) * (rate / W)
    k0 = np.ceil((lh - f) / rate)
    inside = f + k0 * rate <= rh
    m = ~inside
    if real:
        m2 = m.copy()
        m2[1:] &= m[-1:0:-1]
        m = m2
    return m


def oracle(np, bank, fi, W, eps):
    """Returns (violations, measures).  violations: list of (clause, measured, bound)."""
    X = bank.get_frequency_response(fi, W)
    x = bank.get_impulse_response(fi, W)
    bad = []
    meas = {}
    if X.shape != (W,) or x.shape != (W,):
        bad.append(("shape", [list(X.shape), list(x.shape)], W))
        return bad, meas
    d = float(np.max(np.abs(np.fft.ifft(X) - x)))
    meas["idft"] = d / eps
    if not d <= 2 * eps:
        bad.append(("idft_pair", d, 2 * eps))
    cplx = bool(np.iscomplexobj(x))
    if cplx == bool(bank.is_real):
        bad.append(("ir_real_iff_is_real", dict(ir_complex=cplx, is_real=bool(bank.is_real)), None))
    if x.dtype not in (np.float64, np.complex128):
        bad.append(("ir_dtype", str(x.dtype), None))
    l, r = bank.supports[fi]
    lh, rh = bank.supports_hz[fi]
    mt = outside_time_mask(np, l, r, W)
    mf = outside_freq_mask(np, lh, rh, bank.sampling_rate, W, bool(bank.is_real))
    meas["nt"] = int(mt.sum())
    meas["nf"] = int(mf.sum())
    if mt.any():
        ot = float(np.max(np.abs(x[mt])))
        meas["time"] = ot / eps
        if not ot < 2 * eps:
            bad.append(("outside_supports", dict(value=ot, sample=int(np.argmax(np.abs(x) * mt))), 2 * eps))
    if mf.any():
        of = float(np.max(np.abs(X[mf])))
        meas["freq"] = of / eps
        if not of < 2.5 * eps:
            bad.append(("outside_supports_hz", dict(value=of, bin=int(np.argmax(np.abs(X) * mf))), 2.5 * eps))
    return bad, meas


def support_shape(bank, cfg):
    """zero-phase banks straddle 0; causal gammatone starts at 0"""
    bad = []
    for fi, (l, r) in enumerate(bank.supports):
        if not (isinstance(l, (int,)) and isinstance(r, (int,))):
            try:
                import numpy as np

                okint = isinstance(l, (int, np.integer)) and isinstance(r, (int, np.integer))
            except Exception:
                okint = False
            if not okint:
                bad.append(("supports_integer", fi, [repr(l), repr(r)]))
                continue
        if bank.is_zero_phase:
            if not (l < 0 < r):
                bad.append(("supports_straddle_zero", fi, [int(l), int(r)]))
        elif cfg["kind"] == "gammatone" and not cfg["max_centered"]:
            if l != 0 or r <= 0:
                bad.append(("causal_support_starts_at_zero", fi, [int(l), int(r)]))
        elif cfg["kind"] == "gammatone":
            if not (l < 0 < r):
                bad.append(("centered_support_straddles_zero", fi, [int(l), int(r)]))
    return bad


def run_search(ctx, F, np, eps, n_banks, cap, time_budget, seeds=()):
    """The executable property over generated banks x filters x widths."""
    t0 = time.time()
    found = 0
    worst = {}
    todo = list(seeds)
    i = 0
    while (i < n_banks or todo) and time.time() - t0 < time_budget:
        if todo:
            cfg = todo.pop(0)
        else:
            cfg = gen_config(ctx.rng, thorough=ctx.thorough)
            i += 1
        bank = try_build(F, cfg)
        if bank is None:
            ctx.count("search:not-constructible:" + cfg["kind"])
            continue
        ctx.count("search:bank:" + cfg["kind"])
        for name, fi, detail in support_shape(bank, cfg):
            ctx.fail("property violated on the implementation (%s): filter %d supports %r of %r" % (name, fi, detail, cfg),
                     dict(check=name, config=cfg, filt_idx=fi, supports=detail), kind="impl")
            found += 1
        nf = bank.num_filts
        fis = sorted(set([0, nf - 1, ctx.rng.randrange(nf), ctx.rng.randrange(nf)]))
        for fi in fis:
            ws, skipped = widths_for(ctx.rng, bank, fi, cap)
            if skipped:
                ctx.count("search:width-over-cap", len(skipped))
            if len(ws) > 4 and not ctx.thorough:
                keep = set(ws[:2]) | set(ctx.rng.sample(ws[2:], 2))
                ws = sorted(keep)
            for W in ws:
                try:
                    bad, meas = oracle(np, bank, fi, W, eps)
                except AssertionError as e:
                    # the triangular banks assert their own index arithmetic
                    bad, meas = [("assertion", repr(e), None)], {}
                case = dict(config=cfg, filt_idx=fi, width=W)
                ctx.case(case, nontrivial=bool(meas.get("nt")) or bool(meas.get("nf")))
                ctx.count("search:eval:" + cfg["kind"])
                ctx.count("search:width-parity:%s" % ("odd" if W % 2 else "even"))
                if meas.get("nt"):
                    ctx.count("search:nonvacuous-time:" + cfg["kind"])
                if meas.get("nf"):
                    ctx.count("search:nonvacuous-freq:" + cfg["kind"])
                for k in ("idft", "time", "freq"):
                    if k in meas:
                        kk = cfg["kind"] + ":" + k
                        if meas[k] > worst.get(kk, (0,))[0]:
                            worst[kk] = (round(meas[k], 4), case)
                for clause, measured, bound in bad:
                    found += 1
                    ctx.fail(
                        "property violated on the implementation (%s): measured %r, bound %r at %r" % (clause, measured, bound, case),
                        dict(check=clause, config=cfg, filt_idx=fi, width=W, measured=measured, bound=bound,
                             supports=[int(v) for v in bank.supports[fi]], supports_hz=[float(v) for v in bank.supports_hz[fi]]),
                        kind="impl")
                if found >= 8:
                    return found, worst
    return found, worst


# --------------------------------------------------------------------------
# translator step


def regenerate(ctx):
    import c07_filters as gen
    from pyexpr import Unsupported

    try:
        gen.main(os.path.join(C.SRC, "filters.py"), os.path.join(C.SRC, "config.py"),
                 os.path.join(C.COQ, "gen", "C07Filters.v"))
        return True
    except (Unsupported, SyntaxError, OSError, KeyError, AssertionError) as e:
        ctx.fail("translator gen/c07_filters.py no longer recognises filters.py/config.py: %s" % e,
                 dict(correspondence="gen/c07_filters.py -> coq/gen/C07Filters.v", error=str(e)), kind="tie", no_input=True)
        return False
