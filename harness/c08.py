"""C08 - alias / JSON configuration builds the same objects as explicit construction.

Proof: coq/C08 (the loop of AliasedFactory.from_alias - stack, seen, match, comparison
of _registration_index - on arbitrary class graphs: the last registered carrier of the
alias wins in any hierarchy; alias_factory_subclass_from_arg; nested configurations)
about coq/C08/Model.v and the registry gen/C08_Registry.v.

Tie: (1) translator gen/registry.py regenerates the class / alias / constructor
registry from the sources on every run and the theorems are re-checked against it;
(2) the generated registry is compared with the classes that exist at run time;
(3) correspondence: the model is evaluated inside Coq on the same inputs as the
implementation - from_alias on random run-time class trees and graphs (class
statements and type(), branches registered in any order - NOT depth first -,
registration interleaved with look-ups, multiple inheritance, inherited alias sets,
one alias in 3+ branches; the model's registration order is the order in which the
harness created the classes, compared with _registration_index), alias_factory_subclass_from_arg
on generated arguments (instances, strings, mappings, malformed), nested
configurations (alias-built, explicitly built, implementation-built objects).

Search: direct statements of the property on the implementation (every alias of
every class, unknown alias, among all descendants carrying the alias the most recently
defined one is instantiated, argument immutability, JSON twin features).
"""

import copy
import gc
import importlib
import inspect
import json
import os
import sys

from . import common as C

sys.path.insert(0, os.path.join(C.ROOT, "gen"))

REQ = (
    "From Coq Require Import String.\nFrom Coq Require Import ZArith List Bool.\n"
    "From Verif Require Import C08.Model C08.Corr gen.C08_Registry.\nImport ListNotations.\n"
    "Local Open Scope string_scope.\nLocal Open Scope Z_scope.\n"
)
ALPHABET = ["a", "b", "c", "d", "e"]

# gen/registry.py pins the source text of class AliasedFactory that Model.v was written for.  A
# difference is not by itself a defect (behaviour-preserving rewrites exist): by default it is logged,
# counted, and the correspondence on run-time class hierarchies is doubled.  True: report it as a broken tie.
PIN_IS_FATAL = False

# valid plain (non-nested) keyword values; the model does not look at them
PLAIN = {
    "LinearScaling": dict(low_hz=[0.0, 20.0, 5], slope_hz=[1.0, 0.5, 2]),
    "OctaveScaling": dict(low_hz=[20.0, 1.0, 10]),
    "TriangularOverlappingFilterBank": dict(num_filts=[3, 5, 8], high_hz=[None, 4000.0, 7000], low_hz=[20.0, 100.0],
                                            sampling_rate=[16000, 16000.0], analytic=[True, False]),
    "Fbank": dict(num_filts=[3, 5, 8], high_hz=[None, 4000.0, 7000], low_hz=[20.0, 100.0],
                  sampling_rate=[16000, 16000.0], analytic=[True, False]),
    "GaborFilterBank": dict(num_filts=[3, 5, 8], high_hz=[None, 4000.0, 7000], low_hz=[20.0, 100.0],
                            sampling_rate=[16000, 16000.0], scale_l2_norm=[True, False], erb=[True, False]),
    "ComplexGammatoneFilterBank": dict(num_filts=[3, 5], high_hz=[None, 4000.0, 7000], low_hz=[20.0, 100.0],
                                       sampling_rate=[16000, 16000.0], order=[2, 4], max_centered=[True, False],
                                       scale_l2_norm=[True, False], erb=[True, False]),
    "GammaWindow": dict(order=[2, 4, 1], peak=[0.75, 0.5]),
    "ShortTimeFourierTransformFrameComputer": dict(
        frame_length_ms=[None, 25, 20.0], frame_shift_ms=[10, 5.0], frame_style=[None, "causal", "centered"],
        include_energy=[True, False], pad_to_nearest_power_of_two=[True, False], use_log=[True, False],
        use_power=[True, False], kaldi_shift=[True, False]),
    "ShortIntegrationFrameComputer": dict(
        frame_shift_ms=[10, 5.0], frame_style=[None, "causal", "centered"], include_energy=[True, False],
        pad_to_nearest_power_of_two=[True, False], use_power=[True, False], use_log=[True, False]),
    "Standardize": dict(rfilename=[None], norm_var=[True, False]),
    "Deltas": dict(num_deltas=[1, 2], target_axis=[-1, 0], concatenate=[True, False], context_window=[1, 2],
                   pad_mode=["edge", "constant"]),
    "Stack": dict(num_vectors=[1, 3], time_axis=[0, 1], pad_mode=[None, "edge"]),
    "Dither": dict(coeff=[1.0, 0.5, 2]),
    "Preemphasize": dict(coeff=[0.97, 0.5]),
}


# --------------------------------------------------------------------------
# Coq term rendering


def cstr(s):
    if not isinstance(s, str) or any(ord(ch) < 32 or ord(ch) > 126 for ch in s):
        raise ValueError("not renderable as a Coq string: %r" % (s,))
    return '"%s"' % s.replace('"', '""')


def clist(xs):
    return "[" + "; ".join(xs) + "]"


class Inst:
    """Description of an object: class identity + the arguments it was built from."""

    def __init__(self, cid, fields):
        self.cid, self.fields = cid, fields

    def as_json(self):
        return {"<instance of>": self.cid, "fields": [[k, v.as_json() if isinstance(v, Inst) else v] for k, v in self.fields]}


class NotRenderable(Exception):
    pass


def cval(v):
    if isinstance(v, Inst):
        if v.cid is None:
            raise NotRenderable("instance of an unregistered class")
        return "(VInst %d %s)" % (v.cid, clist("(%s, %s)" % (cstr(k), cval(x)) for k, x in v.fields))
    if v is None:
        return "VNone"
    if isinstance(v, bool):
        return "(VBool %s)" % ("true" if v else "false")
    if isinstance(v, (int, float)):
        return "(VNum %s)" % cstr(json.dumps(v))
    if isinstance(v, str):
        return "(VStr %s)" % cstr(v)
    if isinstance(v, (list, tuple)):
        return "(VList %s)" % clist(cval(x) for x in v)
    if isinstance(v, dict):
        for k in v:
            if not isinstance(k, str):
                raise NotRenderable("non-string key")
        return "(VDict %s)" % clist("(%s, %s)" % (cstr(k), cval(x)) for k, x in v.items())
    raise NotRenderable(type(v).__name__)


def cres(r):
    kind, payload = r
    if kind == "ok":
        return "(Ok %s)" % cval(payload)
    return "(Err %s)" % payload


def copt(x):
    return "None" if x is None else "(Some %d)" % x


# --------------------------------------------------------------------------
# the implementation, observed at its public call boundaries


class Spy:
    """Wraps the constructors of the registered classes and the module-level
    references to alias_factory_subclass_from_arg, to record for every object the
    class it is an instance of and the arguments it ended up with (nested alias
    arguments replaced by the objects they were resolved to)."""

    def __init__(self, alias_mod):
        self.alias_mod = alias_mod
        self.orig_from_arg = alias_mod.alias_factory_subclass_from_arg
        self.frames = []
        self.desc = {}
        self.keep = []
        self.cid = {}
        self.attempts = []  # classes whose construction was attempted (most recent last)

    def install(self, classes, modules):
        spy = self
        for cls, cid in classes:
            self.cid[cls] = cid
            self._wrap(cls)

        def from_arg_spy(factory_class, arg):
            try:
                res = spy.orig_from_arg(factory_class, arg)
            except Exception as e:  # noqa: BLE001
                if not hasattr(e, "_c08_origin"):
                    e._c08_origin = "from_arg"
                raise
            if spy.frames:
                cur = spy.frames[-1]["current"]
                for k in list(cur):
                    if cur[k] is arg:
                        cur[k] = res
            return res

        from_arg_spy.__wrapped__ = self.orig_from_arg
        for m in modules:
            if m is not self.alias_mod and getattr(m, "alias_factory_subclass_from_arg", None) is self.orig_from_arg:
                setattr(m, "alias_factory_subclass_from_arg", from_arg_spy)

    def _wrap(self, cls):
        spy = self
        orig = cls.__dict__.get("__init__")

        def target(self_, *a, **k):
            if orig is not None:
                return orig(self_, *a, **k)
            return super(cls, self_).__init__(*a, **k)

        def __init__(self_, *args, **kwargs):
            if spy.frames and spy.frames[-1]["self"] is self_:
                return target(self_, *args, **kwargs)  # super().__init__ of the same object
            current = dict(kwargs)
            if args:
                try:
                    names = [p for p in inspect.signature(target if orig is None else orig).parameters][1:]
                    for n, v in zip(names, args):
                        current[n] = v
                except (TypeError, ValueError):
                    pass
            frame = dict(self=self_, current=current)
            spy.frames.append(frame)
            spy.attempts.append(type(self_))
            del spy.attempts[:-50]
            try:
                target(self_, *args, **kwargs)
            except Exception as e:  # noqa: BLE001
                if not hasattr(e, "_c08_origin"):
                    # raised by the statements of this constructor (value checks), or while binding its arguments?
                    tb, inside = e.__traceback__, False
                    while tb is not None:
                        if orig is not None and tb.tb_frame.f_code is getattr(orig, "__code__", None):
                            inside = True
                        tb = tb.tb_next
                    e._c08_origin = "body" if inside else "bind"
                raise
            finally:
                spy.frames.pop()
            spy.desc[id(self_)] = (type(self_), list(frame["current"].items()))
            spy.keep.append(self_)

        __init__.__wrapped__ = orig
        cls.__init__ = __init__

    def describe(self, obj):
        """Python value -> JSON-like value with Inst for constructed objects."""
        if id(obj) in self.desc and self.desc[id(obj)][0] is type(obj):
            cls, fields = self.desc[id(obj)]
            return Inst(self.cid.get(cls), [(k, self.describe(v)) for k, v in fields])
        if obj is None or isinstance(obj, (bool, int, float, str)):
            return obj
        if isinstance(obj, (list, tuple)):
            return [self.describe(x) for x in obj]
        if isinstance(obj, dict):
            return {k: self.describe(v) for k, v in obj.items()}
        raise NotRenderable(type(obj).__name__)


def exn_kind(e):
    if isinstance(e, KeyError):
        return "KeyError"
    if isinstance(e, ValueError):
        return "ValueError"
    if isinstance(e, TypeError):
        return "TypeError"
    return "Other:" + type(e).__name__


# --------------------------------------------------------------------------


class World:
    """The registry as generated, and the matching run-time classes."""

    def __init__(self, ctx, reg):
        self.ctx = ctx
        self.reg = reg
        self.by_id = {c["id"]: c for c in reg["classes"]}
        self.cls = {}
        self.mods = []
        for name in reg["entry"]:
            full = "pydrobert.speech" + ("." + name if name else "")
            needed = name == "" or any(c["qualname"].split(":")[0] == full for c in reg["classes"]) or name in ("alias",)
            if not needed:
                continue
            self.mods.append(importlib.import_module(full))
        self.alias_mod = importlib.import_module("pydrobert.speech.alias")
        for c in reg["classes"]:
            mod, name = c["qualname"].split(":")
            self.cls[c["id"]] = getattr(importlib.import_module(mod), name)
        self.families = [c["id"] for c in reg["classes"] if c["base"] == 0 and c["children"]]

    def descendants(self, cid):
        out = [cid]
        for k in self.by_id[cid]["children"]:
            out += self.descendants(k)
        return out

    def concrete(self, fam):
        return [i for i in self.descendants(fam) if not self.by_id[i]["abstract"] and self.by_id[i]["aliases"]]


def runtime_tree(root, known):
    """(qualname, aliases, abstract, children) of the classes that exist now."""
    kids = [k for k in root.__subclasses__() if k.__module__.startswith("pydrobert.speech")]
    return dict(
        qualname=root.__module__ + ":" + root.__qualname__,
        aliases=sorted(root.aliases),
        abstract=inspect.isabstract(root),
        children=[runtime_tree(k, known) for k in kids],
        cls=root,
    )


def check_registry_tie(ctx, w):
    """The generated registry against the classes that exist at run time."""
    problems = []

    def sig(cls):
        init = cls.__init__
        init = getattr(init, "__wrapped__", init) if "__init__" in cls.__dict__ else None
        # nearest __init__ defined in Python
        for k in cls.__mro__:
            if "__init__" in k.__dict__ and k is not object:
                f = k.__dict__["__init__"]
                f = getattr(f, "__wrapped__", f) or None
                if f is None:
                    continue
                ps = list(inspect.signature(f).parameters.values())[1:]
                params = [[p.name, p.default is inspect.Parameter.empty] for p in ps
                          if p.kind in (p.POSITIONAL_OR_KEYWORD, p.KEYWORD_ONLY)]
                return params, any(p.kind == p.VAR_KEYWORD for p in ps)
        return [], False

    def walk(node, cid):
        c = w.by_id[cid]
        if node["qualname"] != c["qualname"]:
            problems.append("class %d: generated %s, run time %s" % (cid, c["qualname"], node["qualname"]))
            return
        if node["aliases"] != sorted(c["aliases"]):
            problems.append("%s: aliases generated %r, run time %r" % (c["name"], c["aliases"], node["aliases"]))
        if node["abstract"] != c["abstract"]:
            problems.append("%s: abstract generated %r, run time %r" % (c["name"], c["abstract"], node["abstract"]))
        params, varkw = sig(node["cls"])
        if params != c["params"] or varkw != c["varkw"]:
            problems.append("%s: constructor parameters generated %r/%r, run time %r/%r" % (c["name"], c["params"], c["varkw"], params, varkw))
        if len(node["children"]) != len(c["children"]):
            problems.append("%s: subclasses generated %r, run time %r" % (
                c["name"], [w.by_id[k]["name"] for k in c["children"]], [k["qualname"] for k in node["children"]]))
            return
        for k, kid in zip(node["children"], c["children"]):
            walk(k, kid)

    walk(runtime_tree(w.cls[0], None), 0)
    # class identities of the generated registry = registration order = order of _registration_index
    ri = [(i, w.cls[i].__dict__.get("_registration_index")) for i in sorted(w.cls)]
    if any(v is None for _, v in ri):
        problems.append("classes without a _registration_index of their own: %r" % [w.by_id[i]["name"] for i, v in ri if v is None][:4])
    else:
        if ri[0][1] != 0:
            problems.append("AliasedFactory._registration_index is %r, not 0" % (ri[0][1],))
        for (i, a), (j, b) in zip(ri, ri[1:]):
            if not a < b:
                problems.append("registration order: generated %s before %s, run time _registration_index %r, %r" % (
                    w.by_id[i]["name"], w.by_id[j]["name"], a, b))
                break
    return problems


# --------------------------------------------------------------------------
# from_alias on scratch class trees / graphs


def old_dfs_answer(tree, alias):
    """What the loop BEFORE the repair returned (first carrier: subclasses before their base,
    later siblings first) - only used to count how many look-ups exercise the repaired case."""
    cid, als, kids = tree
    for k in reversed(kids):
        r = old_dfs_answer(k, alias)
        if r is not None:
            return r
    return cid if alias in als else None


def subtree_of(tree, cid):
    if tree[0] == cid:
        return tree
    for k in tree[2]:
        r = subtree_of(k, cid)
        if r is not None:
            return r
    return None


def tree_ids(tree):
    out = [tree[0]]
    for k in tree[2]:
        out += tree_ids(k)
    return out


def ctree_term(tree):
    cid, als, kids = tree
    return "(Node %d %s %s)" % (cid, clist(cstr(a) for a in als), clist(ctree_term(k) for k in kids))


def make_class(r, name, bases, ns):
    """A new class, by a class statement or by type()."""
    if len(bases) == 1 and r.random() < 0.4:
        base = bases[0]
        if "aliases" in ns:
            als = ns["aliases"]

            class K(base):
                aliases = als
        else:
            class K(base):
                pass
        K.__name__ = K.__qualname__ = name
        return K
    return type(name, bases, dict(ns))


def hierarchy_of(classes, idx):
    """[id, ids of the bases (none: AliasedFactory), effective aliases] in creation order: replayable."""
    return [[idx[c], [idx[b] for b in c.__bases__ if b in idx], sorted(c.aliases)] for c in classes]


def build_hierarchy(AF, hier):
    made = {}
    for cid, bases, als in hier:
        made[cid] = type("C08Replay%d" % cid, tuple(made[b] for b in bases) or (AF,), {"aliases": set(als)})
    return made


def last_registered_carrier(hier, start, alias):
    """The clause, outright: among all descendants of ``start`` (itself included) that carry the
    alias, the most recently defined one (ids are in order of definition)."""
    below = {start}
    for cid, bases, als in hier:
        if any(b in below for b in bases):
            below.add(cid)
    carriers = [cid for cid, bases, als in hier if cid in below and alias in als]
    return max(carriers) if carriers else None


def scratch_cases(ctx, w, n_cases, dag):
    """Create class hierarchies at run time - branches registered in any order, registration
    interleaved with look-ups - and look aliases up from the root and from inner classes."""
    r = ctx.rng
    AF = w.alias_mod.AliasedFactory
    cases, oracle_bad = [], []
    reported = set()
    for case_no in range(n_cases):
        absent = "zz"
        classes = []
        n = r.randint(1, 10 if not dag else 8)
        shape = r.choice(["random", "deep", "flat", "random", "branches", "zigzag", "branches"])
        if shape in ("branches", "zigzag"):
            n = max(n, r.randint(5, 10 if not dag else 8))
        hot = r.choice(ALPHABET)  # an alias that many classes of this hierarchy share
        p_hot = r.choice([0.0, 0.3, 0.6]) if shape not in ("branches", "zigzag") else r.choice([0.5, 0.7])
        ns = {"aliases": set(r.sample(ALPHABET, r.choice([0, 0, 1, 2])))}
        classes.append(type("C08Scratch0", (AF,), ns))
        snap_at = set(r.sample(range(1, n + 1), min(n, r.choice([1, 1, 2, 3])))) | {n}
        n_branches = r.randint(3, 4)
        tips = []  # branches / zigzag: the most recent class of each branch
        for i in range(1, n + 1):
            ns = {}
            if r.random() < 0.8:
                als = set(r.sample(ALPHABET, r.choice([0, 1, 1, 2, 3])))
                if r.random() < p_hot:
                    als.add(hot)
                ns["aliases"] = als
            bases = None
            if dag and len(classes) >= 2 and r.random() < 0.45:
                for _ in range(4):
                    bs = tuple(r.sample(classes, 2))
                    try:
                        cls = type("C08Scratch%d" % i, bs, dict(ns))
                        bases = bs
                        break
                    except TypeError:
                        cls = None
            if bases is None:
                if shape == "branches":
                    # 3+ branches below the root, extended in random (cross-branch) order
                    if len(tips) < n_branches:
                        base, slot = classes[0], len(tips)
                        tips.append(None)
                    else:
                        slot = r.randrange(len(tips))
                        base = tips[slot] if r.random() < 0.8 else r.choice(classes)
                elif shape == "zigzag":
                    # two chains extended alternately: never depth first
                    if len(tips) < 2:
                        base, slot = classes[0], len(tips)
                        tips.append(None)
                    else:
                        slot = i % 2
                        base = tips[slot]
                else:
                    slot = None
                    base = classes[-1] if shape == "deep" and r.random() < 0.8 else classes[0] if shape == "flat" and r.random() < 0.8 else r.choice(classes)
                cls = make_class(r, "C08Scratch%d" % i, (base,), ns)
                if slot is not None:
                    tips[slot] = cls
            classes.append(cls)
            if i not in snap_at:
                continue
            idx = {c: j for j, c in enumerate(classes)}
            hier = hierarchy_of(classes, idx)
            # the registration order the model is given (= order of creation) against _registration_index
            ri = [c.__dict__.get("_registration_index") for c in classes]
            if any(v is None for v in ri):
                ctx.count("from_alias:registration-index-missing")
                if "noindex" not in reported:
                    reported.add("noindex")
                    oracle_bad.append(("class_without_registration_index", dict(hierarchy=hier, registration_index=ri)))
            elif any(not a < b for a, b in zip(ri, ri[1:])):
                oracle_bad.append(("registration_index_not_in_order_of_definition", dict(hierarchy=hier, registration_index=ri)))
            else:
                ctx.count("from_alias:registration-index-in-creation-order")
            # snapshot
            if dag:
                graph = [(idx[c], sorted(c.aliases), [idx[k] for k in c.__subclasses__()]) for c in classes]
            else:
                def snap(c):
                    return (idx[c], sorted(c.aliases), [snap(k) for k in c.__subclasses__()])
                tree = snap(classes[0])
                pre = tree_ids(tree)
                ctx.count("from_alias:tree:%s" % ("registered-depth-first" if pre == sorted(pre) else "NOT-registered-depth-first"))
            queries = []
            nontrivial = False
            for _ in range(r.randint(3, 7)):
                start = classes[0] if r.random() < 0.6 else r.choice(classes)
                alias = absent if r.random() < 0.1 else hot if r.random() < 0.4 else r.choice(ALPHABET)
                try:
                    obj = start.from_alias(alias)
                    got = idx.get(type(obj), -1)
                except ValueError:
                    got = None
                except Exception as e:  # noqa: BLE001
                    got = -2
                    oracle_bad.append(("from_alias_exception", dict(error=repr(e), alias=alias, start=idx[start], hierarchy=hier)))
                queries.append((idx[start], alias, got))
                ctx.count("from_alias:%s:%s" % ("graph" if dag else "tree", "unknown" if got is None else "found"))
                # direct statement of the clauses on the implementation
                desc = [c for c in classes if issubclass(c, start)]
                carriers = [c for c in desc if alias in c.aliases]
                if len(carriers) >= 2:
                    nontrivial = True
                if len(carriers) >= 3:
                    ctx.count("from_alias:three-or-more-carriers")
                if got is None and carriers:
                    oracle_bad.append(("unknown_alias_but_carrier_exists", dict(hierarchy=hier, alias=alias, start=idx[start], carriers=[idx[c] for c in carriers])))
                if got is not None and got >= 0 and classes[got] not in carriers:
                    oracle_bad.append(("resolved_class_without_alias_or_outside_family", dict(hierarchy=hier, alias=alias, start=idx[start], got=got)))
                if got != -2:
                    # among all descendants carrying the alias the most recently defined one is instantiated
                    exp = idx[carriers[-1]] if carriers else None
                    assert exp == last_registered_carrier(hier, idx[start], alias)
                    if exp != got:
                        oracle_bad.append(("last_registered_carrier_does_not_win", dict(
                            hierarchy=hier, start=idx[start], alias=alias, expected=exp, got=got,
                            carriers=[idx[c] for c in carriers],
                            rule="hierarchy = [id, base ids, aliases] in order of definition; among all descendants of start "
                                 "(itself included) carrying the alias the most recently defined one is instantiated")))
                    if not dag and exp != old_dfs_answer(subtree_of(tree, idx[start]), alias):
                        ctx.count("from_alias:tree:answer-differs-from-the-loop-before-the-repair")
            if dag:
                term = "(%s, %s)" % (
                    clist("(%d, (%s, %s))" % (c, clist(cstr(a) for a in als), clist(str(k) for k in kids)) for c, als, kids in graph),
                    clist("(%d, %s, %s)" % (s, cstr(a), copt(g)) for s, a, g in queries))
                obj = dict(kind="graph", graph=graph, hierarchy=hier, queries=queries)
            else:
                term = "(%s, %s)" % (ctree_term(tree), clist("(%d, %s, %s)" % (s, cstr(a), copt(g)) for s, a, g in queries))
                obj = dict(kind="tree", tree=tree, hierarchy=hier, queries=queries)
            cases.append((term, obj))
            ctx.case(obj, nontrivial=nontrivial)
        del classes, cls, tips
        if case_no % 50 == 49:
            gc.collect()
    gc.collect()
    return cases, oracle_bad


# --------------------------------------------------------------------------
# alias_factory_subclass_from_arg on the real registry


class Gen:
    def __init__(self, ctx, w, spy):
        self.ctx, self.w, self.spy, self.r = ctx, w, spy, ctx.rng

    def plain_kwargs(self, cid, nested_names, full=False):
        c = self.w.by_id[cid]
        table = PLAIN.get(c["name"], {})
        kw = []
        for p, required in c["params"]:
            if p in nested_names:
                continue
            if p not in table:
                if required:
                    return None
                continue
            if required or full or self.r.random() < 0.35:
                kw.append((p, self.r.choice(table[p])))
        return kw

    def cfg(self, fam, depth=0):
        """A nested configuration tree: dict(cid, alias, style, kw=[(k, ('plain', v) | ('nested', cfg))])."""
        r = self.r
        cands = self.w.concrete(fam)
        if not cands:
            return None
        for _ in range(10):
            cid = r.choice(cands)
            c = self.w.by_id[cid]
            nested = {}
            for n in c["nested"]:
                nested.setdefault(n["param"], n)
            kwp = self.plain_kwargs(cid, set(nested))
            if kwp is None:
                continue
            kw = [(k, ("plain", v)) for k, v in kwp]
            ok = True
            for p, n in nested.items():
                required = dict((a, b) for a, b in c["params"])[p]
                if not required and r.random() < 0.4:
                    if n["guarded"] and r.random() < 0.3:
                        kw.append((p, ("plain", None)))
                    continue
                u = r.random()
                # the family the annotation names (what a user reads); the call's family if there is none
                sub = self.cfg(n["annotated"] if n.get("annotated") is not None else n["family"], depth + 1)
                if sub is None:
                    ok = False
                    break
                kw.append((p, ("nested", sub)))
            if not ok:
                continue
            r.shuffle(kw)
            alias = r.choice(c["aliases"])
            pos = r.randint(0, len(kw))
            style = ("string", 0) if not kw and r.random() < 0.6 else (r.choice(["alias", "name"]), pos)
            return dict(cid=cid, alias=alias, style=style, kw=kw)
        return None

    def to_json(self, g):
        items = [(k, v[1] if v[0] == "plain" else self.to_json(v[1])) for k, v in g["kw"]]
        kind, pos = g["style"]
        if kind == "string":
            return g["alias"] if not items else dict([("name", g["alias"])] + items)
        key = "alias" if kind == "alias" else "name"
        items.insert(min(pos, len(items)), (key, g["alias"]))
        return dict(items)

    def explicit(self, g):
        kwargs = {}
        for k, v in g["kw"]:
            kwargs[k] = v[1] if v[0] == "plain" else self.explicit(v[1])
        return self.w.cls[g["cid"]](**kwargs)

    def cfg_term(self, g):
        kind, pos = g["style"]
        st = "SString" if kind == "string" else "(%s %d%%nat)" % ("SAlias" if kind == "alias" else "SName", pos)
        kws = clist("(%s, %s)" % (cstr(k), "Plain %s" % cval(v[1]) if v[0] == "plain" else "Nested %s" % self.cfg_term(v[1])) for k, v in g["kw"])
        return "(Cfg %d %s %s %s)" % (g["cid"], cstr(g["alias"]), st, kws)

    def cfg_json(self, g):
        return dict(cls=self.w.by_id[g["cid"]]["name"], alias=g["alias"], style=list(g["style"]),
                    kw=[[k, v[1] if v[0] == "plain" else self.cfg_json(v[1])] for k, v in g["kw"]])

    def run_from_arg(self, fam, arg):
        """Run the implementation; returns (outcome, mutated?) with outcome ('ok', Inst) | ('err', kind)."""
        before = copy.deepcopy(arg) if not self.has_instance(arg) else None
        try:
            obj = self.w.alias_mod.alias_factory_subclass_from_arg(self.w.cls[fam], arg)
            out = ("ok", self.spy.describe(obj))
            same = obj
        except Exception as e:  # noqa: BLE001
            out = ("err", exn_kind(e), getattr(e, "_c08_origin", "alias"))
            same = None
        mutated = before is not None and before != arg
        return out, mutated, same

    def has_instance(self, v):
        if isinstance(v, dict):
            return any(self.has_instance(x) for x in v.values())
        if isinstance(v, (list, tuple)):
            return any(self.has_instance(x) for x in v)
        return not (v is None or isinstance(v, (bool, int, float, str)))

    def perturb(self, fam, doc, g):
        """Malformed / boundary variants of a document: returns (label, family, arg)."""
        r = self.r
        w = self.w
        choice = r.choice(["unknown", "both", "neither", "extra_kw", "missing", "foreign_inst", "own_inst", "scalar",
                           "alias_value", "pairs", "both_valid", "wrong_family_alias", "none_nested", "string", "cls_kw"])
        d = dict(doc) if isinstance(doc, dict) else {"name": doc}
        key = "alias" if "alias" in d else "name"
        if choice == "unknown":
            d[key] = r.choice(["zz-no-such-alias", "", "Mel", d[key].upper() if d[key].upper() != d[key] else "nope"])
            return choice, fam, d if r.random() < 0.7 else d[key]
        if choice == "both":
            d2 = {}
            for k, v in d.items():
                d2[k] = v
            other = "name" if key == "alias" else "alias"
            items = list(d2.items())
            items.insert(r.randint(0, len(items)), (other, r.choice(["zz-no-such-alias", d[key]])))
            return choice, fam, dict(items)
        if choice == "both_valid":
            # two different valid aliases under 'alias' and 'name'
            cands = [a for i in w.concrete(fam) for a in w.by_id[i]["aliases"] if a != d[key]]
            if not cands:
                return None
            items = [(k, v) for k, v in d.items() if k not in ("alias", "name")]
            pair = [("alias", d[key]), ("name", r.choice(cands))]
            r.shuffle(pair)
            for p in pair:
                items.insert(r.randint(0, len(items)), p)
            return choice, fam, dict(items)
        if choice == "neither":
            d.pop(key)
            return choice, fam, d
        if choice == "extra_kw":
            d["c08_unknown_keyword"] = 1
            return choice, fam, d
        if choice == "cls_kw":
            d["cls"] = r.choice([1, "mel", None])
            if r.random() < 0.3:
                d[key] = "zz-no-such-alias"
            return choice, fam, d
        if choice == "missing":
            c = w.by_id[g["cid"]]
            req = [p for p, rq in c["params"] if rq and p in d]
            if not req:
                return None
            d.pop(r.choice(req))
            return choice, fam, d
        if choice in ("foreign_inst", "own_inst"):
            fams = [f for f in w.families if (f == fam) == (choice == "own_inst")]
            f2 = r.choice(fams)
            g2 = self.cfg(f2)
            if g2 is None:
                return None
            try:
                inst = self.explicit(g2)
            except Exception:  # noqa: BLE001
                return None
            return choice, fam, inst
        if choice == "scalar":
            return choice, fam, r.choice([None, True, 3, 2.5, [], [1, 2], ["ab"], [["name"]], [None], {}])
        if choice == "alias_value":
            d[key] = r.choice([None, 3, True, 2.5, ["mel"], {"name": "mel"}])
            return choice, fam, d
        if choice == "pairs":
            items = [[k, v] for k, v in d.items()]
            if r.random() < 0.3 and items:
                items.append([items[0][0], items[0][1]])  # repeated key
            return choice, fam, items
        if choice == "wrong_family_alias":
            others = [a for f in w.families if f != fam for i in w.concrete(f) for a in w.by_id[i]["aliases"]]
            mine = {a for i in w.concrete(fam) for a in w.by_id[i]["aliases"]}
            others = [a for a in others if a not in mine]
            if not others:
                return None
            d[key] = r.choice(others)
            return choice, fam, d
        if choice == "none_nested":
            c = w.by_id[g["cid"]]
            if not c["nested"]:
                return None
            d[r.choice(c["nested"])["param"]] = None
            return choice, fam, d
        if choice == "string":
            return choice, fam, d[key]
        return None


TYPES = {
    "tree_case_ok": "list (ctree * list (Z * string * option Z))",
    "tree_as_graph_ok": "list (ctree * list (Z * string * option Z))",
    "graph_case_ok": "list (graph * list (Z * string * option Z))",
    "cfg_case_ok reg": "list (Z * cfg * res val)",
    "arg_case_ok reg": "list (Z * val * res val)",
    "cfg_case_heap_ok reg": "list (Z * cfg * res val)",
    "arg_case_heap_ok reg": "list (Z * val * res val)",
}


def coq_compare(ctx, name, terms, checker, extra=""):
    """Let Coq evaluate the model on the cases; returns list of mismatching indices or None on error."""
    shard = 300
    files = []
    for i in range(0, len(terms), shard):
        body = "Definition cases : %s := [\n%s\n].\n%sEval vm_compute in (mismatches (%s) cases).\n" % (
            TYPES[checker], ";\n".join(terms[i:i + shard]), extra, checker)
        files.append(("%s_%d" % (name, i // shard), body))
    res = C.coq_eval_many(ctx, files, REQ)
    bad = []
    for k, (ans, log) in enumerate(res):
        if ans is None or len(ans) != 1:
            return None, log
        idx = C.parse_coq(ans[0])
        bad += [k * shard + j for j in idx]
    return bad, ""


def model_answer(ctx, expr):
    ans, log = C.coq_eval(ctx, "model_answer", "Eval vm_compute in (%s).\n" % expr, REQ)
    if ans is None or not ans:
        return "<model evaluation failed: %s>" % log[-300:]
    return " ".join(ans[0].split())


# --------------------------------------------------------------------------


def regenerate(ctx):
    import registry as gen_registry
    from pyexpr import Unsupported

    try:
        return gen_registry.main(C.SRC, os.path.join(C.COQ, "gen", "C08_Registry.v"))
    except (Unsupported, SyntaxError, OSError, KeyError, AttributeError, IndexError) as e:
        ctx.fail("translator gen/registry.py no longer recognises the sources: %s" % e,
                 dict(correspondence="gen/registry.py -> coq/gen/C08_Registry.v", error=str(e)), kind="tie", no_input=True)
        return None


def search_registry(ctx, w, spy):
    """Every alias of every concrete class resolves, from its family, to that class;
    an unknown alias raises ValueError.  Works on the classes that exist at run time."""
    bad = []
    AF = w.alias_mod.AliasedFactory
    fams = [k for k in AF.__subclasses__() if k.__module__.startswith("pydrobert.speech") and k.__subclasses__()]

    def desc(c):
        out = []
        for k in c.__subclasses__():
            out += [k] + desc(k)
        return out

    for fam in fams:
        classes = [c for c in desc(fam) if c.__module__.startswith("pydrobert.speech")]
        for cls in classes:
            if inspect.isabstract(cls):
                continue
            for alias in sorted(cls.aliases):
                ctx.count("registry:alias")
                for start in [fam] + [b for b in cls.__mro__[1:] if b in classes]:
                    del spy.attempts[:]
                    try:
                        obj = start.from_alias(alias)
                        got = type(obj)
                    except ValueError as e:
                        got = spy.attempts[0] if spy.attempts else None
                        if got is None and "Cannot find subclass" in str(e):
                            bad.append(("alias_not_found", dict(family=start.__name__, alias=alias, expected=cls.__name__)))
                            continue
                    except Exception:  # noqa: BLE001  (missing required arguments etc.)
                        got = spy.attempts[0] if spy.attempts else None
                    if got is not cls:
                        bad.append(("alias_resolves_to_other_class", dict(
                            family=start.__name__, alias=alias, expected=cls.__name__,
                            got=None if got is None else got.__name__)))
        for alias in ("c08-no-such-alias", "", "MEL"):
            try:
                fam.from_alias(alias)
                bad.append(("unknown_alias_accepted", dict(family=fam.__name__, alias=alias)))
            except ValueError:
                pass
            except Exception as e:  # noqa: BLE001
                bad.append(("unknown_alias_wrong_exception", dict(family=fam.__name__, alias=alias, error=repr(e))))
    return bad


def twin_features(ctx, w, gen, g, np):
    """alias-built (JSON round trip) against explicitly assembled computer: bit-identical features."""
    doc = json.loads(json.dumps(gen.to_json(g)))
    fam_cls = w.cls[[f for f in w.families if g["cid"] in w.descendants(f)][0]]
    a = w.alias_mod.alias_factory_subclass_from_arg(fam_cls, doc)
    b = gen.explicit(g)
    if type(a) is not type(b):
        return "classes differ: %s vs %s" % (type(a).__name__, type(b).__name__)
    if not hasattr(a, "compute_full"):
        return None
    rs = np.random.RandomState(ctx.rng.randint(0, 2 ** 31 - 1))
    sig = rs.randn(ctx.rng.choice([800, 1600, 2477]))

    def feats(c):
        try:
            full = c.compute_full(sig)
            chunked = np.concatenate([c.compute_chunk(sig[:700]), c.compute_chunk(sig[700:]), c.finalize()])
            return ("ok", full.shape, str(full.dtype), full.tobytes(), chunked.shape, chunked.tobytes())
        except Exception as e:  # noqa: BLE001
            return ("raises", type(e).__name__)

    fa, fb = feats(a), feats(b)
    if fa[0] == "raises" and fb[0] == "raises":
        ctx.count("twin:both-raise-" + fa[1])
    if fa != fb:
        return "features differ: alias-built %s, explicit %s" % (fa[:3] if fa[0] == "ok" else fa, fb[:3] if fb[0] == "ok" else fb)
    return None


def run(ctx):
    try:
        return _run(ctx)
    except Exception as e:  # noqa: BLE001
        import traceback

        ctx.fail("the check itself failed: %r" % (e,), dict(error=repr(e), traceback=traceback.format_exc()[-3000:]),
                 kind="tie", no_input=True)
        return C.finish(ctx, "proof")


def _run(ctx):
    C.ensure_impl_path()
    import warnings

    warnings.simplefilter("ignore")
    import numpy as np

    reg = regenerate(ctx)
    pin_differs = bool(reg is not None and reg.get("pin_problems"))
    if pin_differs:
        # Model.v was written for one source text of class AliasedFactory; the correspondence and the
        # search below decide whether the behaviour changed (and give a concrete input if it did)
        ctx.log("class AliasedFactory differs from the source text pinned in gen/registry.py: %s" % "; ".join(reg["pin_problems"][:6]))
        ctx.count("pin:class-AliasedFactory-differs-from-pinned-text")
        if PIN_IS_FATAL:
            ctx.fail("class AliasedFactory is no longer the source text that coq/C08/Model.v models: %s" % "; ".join(reg["pin_problems"][:6]),
                     dict(correspondence="gen/registry.py PINNED_ALIASED_FACTORY vs alias.py", problems=reg["pin_problems"]),
                     kind="tie", no_input=True)
    elif reg is not None:
        ctx.count("pin:class-AliasedFactory-is-the-pinned-text")
    pr = C.proof_step(ctx) if reg is not None else None
    ctx.cov["trusted_base"].append("translator /verif/gen/registry.py (Python ast -> class tree, aliases, constructor parameters, nested alias calls; "
                                   "pin of the source text of class AliasedFactory: %s)" % ("DIFFERS - from_alias tied by the correspondence only" if pin_differs else "matches"))
    ctx.cov["trusted_base"].append("harness spy on constructors / alias_factory_subclass_from_arg references (records class + bound arguments of built objects)")
    ctx.cov["rule"] = (
        "cases = (a) snapshots of run-time class trees / graphs (branches registered in any order) with from_alias look-ups, (b) calls of "
        "alias_factory_subclass_from_arg on generated arguments, (c) nested configurations; distinct = distinct case "
        "content; non-trivial = (a) some look-up has >= 2 classes carrying the alias below the start class, "
        "(b) everything except the plain single-string alias, (c) configurations with at least one nested component")
    ok_corr, out = C.coq_make(["C08/Corr.v", "gen/C08_Registry.v"]) if reg is not None else (False, "")
    if reg is not None and not ok_corr:
        ctx.fail("model / generated registry no longer compiles", dict(correspondence="coq/C08/Corr.v", log_tail=out[-1500:]), kind="tie", no_input=True)

    # ---- the implementation
    if reg is None:
        # fall back to a registry read from the run-time classes is not possible without the translator:
        # still run the direct search below with a minimal world
        import registry as gen_registry
        try:
            reg_fallback = gen_registry.extract("/repo/src/pydrobert/speech") if C.SRC != "/repo/src/pydrobert/speech" else None
        except Exception:  # noqa: BLE001
            reg_fallback = None
        reg_use = reg_fallback
    else:
        reg_use = reg
    if reg_use is None:
        return C.finish(ctx, "proof")
    try:
        w = World(ctx, reg_use)
    except (AttributeError, ImportError) as e:
        ctx.fail("generated registry names a class that cannot be imported: %s" % e, dict(error=str(e)), kind="tie", no_input=True)
        return C.finish(ctx, "proof")
    tie_problems = check_registry_tie(ctx, w) if reg is not None else ["translator failed"]
    for p in tie_problems[:5]:
        ctx.fail("generated registry differs from the run-time classes: %s" % p, dict(correspondence="gen/C08_Registry.v vs __subclasses__()", detail=p), kind="tie", no_input=True)
    ctx.cov["traces_validated_against_impl"] += len(reg_use["classes"]) if not tie_problems else 0
    spy = Spy(w.alias_mod)
    pkg_mods = [m for n, m in list(sys.modules.items()) if n.startswith("pydrobert.speech") and m is not None]
    spy.install([(w.cls[i], i) for i in w.cls], pkg_mods)
    corr_ok = reg is not None and ok_corr and not tie_problems

    # ---- search: the registry clauses on the run-time classes
    bad = search_registry(ctx, w, spy)

    # ---- (a) from_alias on scratch class trees and graphs
    n_tree = ctx.scale(160, 3000) * (2 if pin_differs else 1)
    n_dag = ctx.scale(80, 1500) * (2 if pin_differs else 1)
    tcases, obad1 = scratch_cases(ctx, w, n_tree, dag=False)
    gcases, obad2 = scratch_cases(ctx, w, n_dag, dag=True)
    bad += obad1 + obad2
    # the hierarchy of the repaired defect (theorem last_registered_wins_old_loop_refuted): D must answer
    AFc = w.alias_mod.AliasedFactory
    wR = type("C08WitnessR", (AFc,), {})
    wB = type("C08WitnessB", (wR,), {})
    wC = type("C08WitnessC", (wR,), {"aliases": {"x"}})
    wD = type("C08WitnessD", (wB,), {"aliases": {"x"}})
    wid = {wR: 0, wB: 1, wC: 2, wD: 3}
    wgot = wid.get(type(wR.from_alias("x")), -1)
    wtree = (0, [], [(1, [], [(3, ["x"], [])]), (2, ["x"], [])])
    whier = [[0, [], []], [1, [0], []], [2, [0], ["x"]], [3, [1], ["x"]]]
    tcases.append(("(%s, [(0, \"x\", %s)])" % (ctree_term(wtree), copt(wgot)),
                   dict(kind="tree", tree=wtree, hierarchy=whier, queries=[(0, "x", wgot)], note="cross-branch hierarchy of the repaired defect")))
    ctx.case(tcases[-1][1])
    ctx.count("from_alias:cross-branch-hierarchy:%s" % wgot)
    if wgot != 3:
        # reported first: the smallest hierarchy on which "the one registered last wins" fails
        detail = dict(hierarchy=whier, source="R; B(R); C(R) aliases={'x'}; D(B) aliases={'x'}", start=0, alias="x",
                      expected=3, got=wgot, returned={0: "R", 1: "B", 2: "C", 3: "D"}.get(wgot, str(wgot)), registered_last="D")
        ctx.fail("property violated on the implementation (last_registered_carrier_does_not_win): two classes share an alias and "
                 "the one registered last does not win: %s" % json.dumps(detail)[:400],
                 dict(check="last_registered_carrier_does_not_win", input=detail), kind="impl")
    del wR, wB, wC, wD, wid
    gc.collect()
    if ok_corr:
        for name, cases, checker in (("trees", tcases, "tree_case_ok"), ("trees_as_graphs", tcases, "tree_as_graph_ok"), ("graphs", gcases, "graph_case_ok")):
            # negative control: a perturbed expectation must be reported
            canary = None
            for k, (term, obj) in enumerate(cases):
                if obj["queries"]:
                    canary = k
                    break
            mism, log = coq_compare(ctx, name, [t for t, _ in cases], checker)
            if mism is None:
                ctx.fail("correspondence file %s does not compile" % name, dict(correspondence=name, log_tail=log[-1500:]), kind="tie", no_input=True)
                continue
            ctx.cov["traces_validated_against_impl"] += len(cases) - len(mism)
            for k in mism[:3]:
                obj = cases[k][1]
                ctx.fail("from_alias: implementation and model disagree on a run-time class %s: %s" % (obj["kind"], json.dumps(obj)[:400]),
                         dict(case=obj, note="queries are (class from_alias is called on, alias, class instantiated or null); classes are numbered in "
                                             "registration order; hierarchy = [id, base ids, aliases] in order of definition"),
                         kind="correspondence")
        # negative control (one file): flipping an expectation must produce a mismatch
        flip = None
        for term, obj in tcases:
            if obj["queries"]:
                s, a, g = obj["queries"][0]
                q2 = [(s, a, (g + 1) if g is not None else 0)] + obj["queries"][1:]
                flip = "(%s, %s)" % (ctree_term(obj["tree"]), clist("(%d, %s, %s)" % (x, cstr(y), copt(z)) for x, y, z in q2))
                break
        if flip is not None:
            mism, log = coq_compare(ctx, "canary_tree", [flip], "tree_case_ok")
            if mism != [0]:
                ctx.fail("negative control of the tree comparator did not fire", dict(correspondence="canary_tree", got=mism), kind="tie", no_input=True)

    # ---- (b), (c) alias_factory_subclass_from_arg and nested configurations
    gen = Gen(ctx, w, spy)
    n_cfg = ctx.scale(260, 4000)
    cfg_terms, cfg_objs, arg_terms, arg_objs, arg_expected = [], [], [], [], []
    cfg_parts, arg_parts = [], []
    discarded = 0
    twin_done = 0
    twin_budget = ctx.scale(60, 600)
    for i in range(n_cfg):
        fam = ctx.rng.choice(w.families)
        g = gen.cfg(fam)
        if g is None:
            ctx.count("cfg:ungenerable")
            continue
        # explicit construction must work on valid values (value-level validation is not modelled)
        try:
            exp_obj = gen.explicit(g)
            exp = ("ok", spy.describe(exp_obj))
        except (ValueError, ZeroDivisionError, OverflowError, FloatingPointError) as e:
            discarded += 1
            ctx.count("cfg:discarded-value-error")
            continue
        except Exception as e:  # noqa: BLE001
            bad.append(("explicit_construction_failed", dict(config=gen.cfg_json(g), error=repr(e))))
            continue
        doc = json.loads(json.dumps(gen.to_json(g)))
        out, mutated, obj = gen.run_from_arg(fam, doc)
        nested = any(v[0] == "nested" for _, v in g["kw"])
        jobj = dict(kind="config", family=w.by_id[fam]["name"], config=gen.cfg_json(g), document=doc,
                    implementation=[out[0], out[1].as_json() if isinstance(out[1], Inst) else out[1]])
        ctx.case(jobj, nontrivial=nested)
        ctx.count("cfg:depth%d" % (1 + (1 if nested else 0) + (1 if any(v[0] == "nested" and any(x[0] == "nested" for _, x in v[1]["kw"]) for _, v in g["kw"]) else 0)))
        ctx.count("cfg:style:" + g["style"][0])
        if mutated:
            bad.append(("mapping_modified", dict(family=w.by_id[fam]["name"], document_before=json.loads(json.dumps(gen.to_json(g))), document_after=doc)))
        if out[0] != "ok":
            bad.append(("alias_built_fails_where_explicit_works", dict(family=w.by_id[fam]["name"], document=doc, error=out[1], config=gen.cfg_json(g))))
        else:
            try:
                if cval(out[1]) != cval(exp[1]):
                    bad.append(("alias_built_object_differs_from_explicit", dict(
                        family=w.by_id[fam]["name"], document=doc, alias_built=out[1].as_json(), explicit=exp[1].as_json())))
            except NotRenderable:
                pass
        try:
            cfg_terms.append("(%d, %s, %s)" % (fam, gen.cfg_term(g), cres(out if out[0] == "ok" else ("err", out[1].split(":")[0]))))
            cfg_objs.append(jobj)
            cfg_parts.append((str(fam), gen.cfg_term(g)))
        except (NotRenderable, ValueError):
            ctx.count("cfg:not-renderable")
        # JSON twin: bit-identical features
        if twin_done < twin_budget and hasattr(exp_obj, "compute_full") and out[0] == "ok":
            twin_done += 1
            ctx.count("twin:features")
            try:
                msg = twin_features(ctx, w, gen, g, np)
            except Exception as e:  # noqa: BLE001
                msg = "exception %r" % (e,)
            if msg:
                bad.append(("json_twin", dict(document=doc, config=gen.cfg_json(g), problem=msg)))
        # perturbed variants
        for _ in range(2):
            pv = gen.perturb(fam, json.loads(json.dumps(gen.to_json(g))), g)
            if pv is None:
                continue
            label, f2, arg = pv
            try:
                argd = copy.deepcopy(arg) if not gen.has_instance(arg) else spy.describe(arg)
            except NotRenderable:
                argd = None
            out2, mutated2, obj2 = gen.run_from_arg(f2, arg)
            ctx.count("arg:" + label + ":" + (out2[0] if out2[0] == "ok" else out2[1]))
            try:
                if argd is None:
                    raise NotRenderable("argument")
                expected = cres(out2 if out2[0] == "ok" else ("err", out2[1].split(":")[0]))
                term = "(%d, %s, %s)" % (f2, cval(argd), expected)
            except (NotRenderable, ValueError):
                ctx.count("arg:not-renderable")
                continue
            aobj = dict(kind="arg", label=label, family=w.by_id[f2]["name"],
                        arg=argd.as_json() if isinstance(argd, Inst) else argd,
                        implementation=[out2[0], out2[1].as_json() if isinstance(out2[1], Inst) else out2[1]])
            ctx.case(aobj, nontrivial=label != "string")
            if mutated2:
                bad.append(("mapping_modified", dict(family=w.by_id[f2]["name"], argument_after=arg, label=label)))
            if label == "own_inst" and obj2 is not arg:
                bad.append(("instance_not_returned_unchanged", dict(family=w.by_id[f2]["name"], instance=aobj["arg"])))
            if out2[0] == "err" and out2[2] == "body":
                ctx.count("arg:value-level-error-not-modelled")
                continue
            if out2[0] == "err" and out2[1].startswith("Other"):
                bad.append(("unexpected_exception", dict(family=w.by_id[f2]["name"], arg=aobj["arg"], error=out2[1])))
                continue
            arg_terms.append(term)
            arg_objs.append(aobj)
            arg_expected.append(expected)
            arg_parts.append((str(f2), cval(argd)))
    if n_cfg and discarded > 0.5 * n_cfg:
        ctx.fail("more than half of the generated configurations are rejected by the constructors (%d of %d)" % (discarded, n_cfg),
                 dict(discarded=discarded), kind="tie", no_input=True)
    if corr_ok:
        for name, terms, objs, checker in (("cfgs", cfg_terms, cfg_objs, "cfg_case_ok reg"), ("args", arg_terms, arg_objs, "arg_case_ok reg"),
                                            ("cfgs_heap", cfg_terms, cfg_objs, "cfg_case_heap_ok reg"),
                                            ("args_heap", arg_terms, arg_objs, "arg_case_heap_ok reg")):
            mism, log = coq_compare(ctx, name, terms, checker)
            if mism is None:
                ctx.fail("correspondence file %s does not compile" % name, dict(correspondence=name, log_tail=log[-1500:]), kind="tie", no_input=True)
                continue
            # cases the model declares outside its domain
            real = []
            for k in mism:
                if objs[k]["kind"] == "arg":
                    fam_s, arg_s = arg_parts[k]
                    ans = model_answer(ctx, "from_arg reg corr_fuel %s %s" % (fam_s, arg_s))
                    if "Unmodelled" in ans:
                        ctx.count("arg:unmodelled")
                        continue
                    objs[k]["model"] = ans
                else:
                    fam_s, cfg_s = cfg_parts[k]
                    objs[k]["model"] = model_answer(ctx, "(from_arg reg corr_fuel %s (to_json %s), explicit reg corr_fuel %s)" % (fam_s, cfg_s, cfg_s))
                real.append(k)
                if len(real) >= 5:
                    break
            ctx.cov["traces_validated_against_impl"] += len(terms) - len(mism)
            for k in real:
                what = ("nested configuration: the alias-built object of the model, its explicitly built object and the "
                        "implementation's object are not all equal" if objs[k]["kind"] == "config" and not name.endswith("_heap")
                        else "alias_factory_subclass_from_arg: implementation and %s disagree" % ("heap model" if name.endswith("_heap") else "model"))
                ctx.fail("%s: %s" % (what, json.dumps(objs[k])[:600]),
                         dict(case=objs[k], model_file="HeapModel.v" if name.endswith("_heap") else "Model.v"), kind="correspondence")
        # negative control for the value comparator
        if arg_terms:
            flipped = arg_terms[0][:arg_terms[0].rindex(arg_expected[0])] + "(Err Unmodelled))"
            mism, log = coq_compare(ctx, "canary_arg", [flipped], "arg_case_ok reg")
            if mism != [0]:
                ctx.fail("negative control of the value comparator did not fire", dict(correspondence="canary_arg", got=mism), kind="tie", no_input=True)

    # ---- verdict
    seen = {}
    for name, detail in bad:
        seen[name] = seen.get(name, 0) + 1
        if seen[name] > 3:
            continue
        ctx.fail("property violated on the implementation (%s): %s" % (name, json.dumps(detail, default=str)[:500]),
                 dict(check=name, input=detail), kind="impl")
    if (pr is not None and not pr["ok"]) and not bad:
        ctx.log("search found no failing input on the implementation")
    ctx.assumptions += [
        "an object is identified with its class and the arguments it was built from (after nested alias resolution): "
        "constructors are deterministic functions of these - exercised by the bit-identical JSON-twin feature comparison",
        "value-level validation inside constructors (frequency ranges etc.) is not modelled; generated plain values are valid",
        "class identity = registration rank = order of _registration_index (compared at run time on every scratch hierarchy and on "
        "the registry); Python's set of class objects is modelled by the list of identities",
    ]
    return C.finish(ctx, "proof")


def replay(ctx, rp):
    """Re-run a recorded case on the implementation."""
    C.ensure_impl_path()
    f = rp.get("failure", {})
    print(json.dumps(f, indent=1)[:4000])
    case = f.get("replay", {})
    inp = case.get("input") or case.get("case") or {}
    alias_mod = importlib.import_module("pydrobert.speech.alias")
    if isinstance(inp, dict) and inp.get("hierarchy"):
        hier = inp["hierarchy"]
        made = build_hierarchy(alias_mod.AliasedFactory, hier)
        ri = [made[c].__dict__.get("_registration_index") for c, _, _ in hier]
        print("hierarchy [id, base ids, aliases]:", hier)
        print("_registration_index in order of definition:", ri)
        rc = int(any(v is None for v in ri) or any(not a < b for a, b in zip(ri, ri[1:])))
        qs = inp.get("queries") or [(inp["start"], inp["alias"], inp.get("expected"))]
        for s, a, g in qs:
            try:
                got = [k for k, v in made.items() if v is type(made[s].from_alias(a))][0]
            except ValueError:
                got = None
            exp = last_registered_carrier(hier, s, a)
            print("from_alias on class %d, alias %r: implementation %r, last registered carrier %r" % (s, a, got, exp))
            rc |= got != exp
        return int(rc)
    if isinstance(inp, dict) and "document" in inp and "family" in inp:
        for modn in ("scales", "filters", "compute", "pre", "post"):
            m = importlib.import_module("pydrobert.speech." + modn)
            if hasattr(m, inp["family"]):
                doc = copy.deepcopy(inp["document"])
                try:
                    obj = alias_mod.alias_factory_subclass_from_arg(getattr(m, inp["family"]), doc)
                    print("implementation built", type(obj).__name__, "document after call:", doc)
                except Exception as e:  # noqa: BLE001
                    print("implementation raised", repr(e))
                    return 1
                return int(doc != inp["document"])
    return 1
