"""C09 - command-line tools store exactly what the library pipeline computes.

Tie, in three parts, all re-done on every run:

* translator: gen/cmdline.py regenerates coq/gen/CmdLine.v (seeding statement,
  wave-table loop and exit status of compute-feats-from-kaldi-tables; the data
  set's __getitem__ of signals-to-torch-feat-dir; the STFT framing arithmetic
  of compute.py and torch.py) and the theorems of coq/C09 are re-checked
  against the regenerated text;
* correspondence: the generated code (and the hand-written entry points of
  coq/C09/Tools.v) is run by vm_compute on descriptions of generated wave
  tables / signal maps, instantiated with the symbolic library of
  coq/C09/Sym.v.  What it stores are terms; the harness evaluates them with the
  real library and compares with what the real entry points (called in-process)
  stored: exit status / exception, ids, order, file names, manifest lines,
  dtype, shape and values;
* search: the property statement itself, written directly in Python, is
  evaluated on the same runs, plus --seed twice from different generator
  states and the same configuration as inline JSON / JSON file / YAML file.
"""

import contextlib
import io
import json
import logging
import os
import shutil
import sys
import warnings
import wave
from fractions import Fraction

from . import common as C

sys.path.insert(0, os.path.join(C.ROOT, "gen"))

PID = "C09"
BD = os.path.join(C.BUILD, PID)
RUN = os.path.join(BD, "run-%d" % os.getpid())  # concurrent runs of this check must not share scratch files
REQ = ("From Coq Require Import ZArith QArith List Bool String Ascii.\n"
       "From Verif Require Import C09.Model gen.CmdLine C09.Tools C09.Sym.\n"
       "Import ListNotations.\nOpen Scope Z_scope.\nOpen Scope string_scope.\n")
EXN = {"EIndexError": ("IndexError",), "EValueError": ("ValueError",), "EIOError": ("OSError", "IOError"),
       "ENotImplementedError": ("NotImplementedError",), "ELibraryError": None}


# --------------------------------------------------------------------------- translator
def regenerate(ctx):
    import cmdline as gen

    try:
        gen.main(C.SRC, os.path.join(C.COQ, "gen", "CmdLine.v"))
        return True
    except (gen.Unsupported, SyntaxError, OSError, KeyError, AttributeError, IndexError, TypeError) as e:
        if not C.tie_fallback(ctx, "translator gen/cmdline.py no longer recognises the tools' code: %s: %s" % (type(e).__name__, e),
                 dict(correspondence="gen/cmdline.py -> coq/gen/CmdLine.v", error=str(e)), kind="tie", no_input=True):
            return False
        return True


# --------------------------------------------------------------------------- Coq terms
def qlit(x):
    fr = Fraction(x)
    n, d = fr.numerator, fr.denominator
    return "((%d) # %d)" % (n, d)


def slit(s):
    """a Python str (ASCII) as a Coq string term"""
    parts, cur = [], ""
    for ch in s:
        o = ord(ch)
        if o > 127:
            raise ValueError("non-ASCII text in a case")
        if 32 <= o < 127 and ch != '"':
            cur += ch
        else:
            if cur:
                parts.append('"%s"' % cur)
                cur = ""
            parts.append("(String (ascii_of_nat %d) EmptyString)" % o)
    if cur or not parts:
        parts.append('"%s"' % cur)
    return parts[0] if len(parts) == 1 else "(" + " ++ ".join(parts) + ")"


def optz(v):
    return "None" if v is None else "(Some %s)" % C.zlist(int(v))


def parse_term(s):
    """Coq's printing of constructors / lists / pairs / ints / strings -> nested tuples"""
    toks, i, n = [], 0, len(s)
    while i < n:
        ch = s[i]
        if ch.isspace():
            i += 1
        elif ch == '"':
            j, out = i + 1, ""
            while True:
                if s[j] == '"':
                    if j + 1 < n and s[j + 1] == '"':
                        out += '"'
                        j += 2
                        continue
                    break
                out += s[j]
                j += 1
            toks.append(("str", out))
            i = j + 1
        elif ch in "()[];,":
            toks.append((ch, ch))
            i += 1
        elif ch == "-" or ch.isdigit():
            j = i + 1
            while j < n and s[j].isdigit():
                j += 1
            toks.append(("int", int(s[i:j])))
            i = j
        elif ch == "%":
            j = i + 1
            while j < n and (s[j].isalnum() or s[j] == "_"):
                j += 1
            i = j
        else:
            j = i
            while j < n and (s[j].isalnum() or s[j] in "_'"):
                j += 1
            if j == i:
                raise ValueError("cannot parse %r" % s[i:i + 20])
            toks.append(("id", s[i:j]))
            i = j
    pos = [0]

    def peek():
        return toks[pos[0]][0] if pos[0] < len(toks) else None

    def nxt():
        t = toks[pos[0]]
        pos[0] += 1
        return t

    def atom():
        k, v = nxt()
        if k in ("int", "str"):
            return v
        if k == "[":
            items = []
            if peek() == "]":
                nxt()
                return items
            while True:
                items.append(expr())
                k2, _ = nxt()
                if k2 == "]":
                    return items
                assert k2 == ";", k2
        if k == "(":
            items = [expr()]
            while peek() == ",":
                nxt()
                items.append(expr())
            k2, _ = nxt()
            assert k2 == ")", k2
            return tuple(items) if len(items) > 1 else items[0]
        if k == "id":
            return ("@", v)
        raise ValueError("unexpected token %r" % (v,))

    def expr():
        a = atom()
        if isinstance(a, tuple) and len(a) == 2 and a[0] == "@":
            args = []
            while peek() in ("int", "str", "[", "(", "id"):
                b = atom()
                if isinstance(b, tuple) and len(b) == 2 and b[0] == "@":
                    b = (b[1],)
                args.append(b)
            return (a[1],) + tuple(args)
        return a

    return expr()


# --------------------------------------------------------------------------- the implementation side
class Impl:
    """Lazy imports of the implementation under test and of the library."""

    def __init__(self):
        C.ensure_impl_path()
        import numpy as np
        import torch

        from pydrobert.speech import command_line as cl
        from pydrobert.speech.alias import alias_factory_subclass_from_arg as mk
        from pydrobert.speech.compute import FrameComputer
        from pydrobert.speech.post import PostProcessor
        from pydrobert.speech.pre import Dither, PreProcessor
        from pydrobert.speech.util import read_signal
        from pydrobert.kaldi.io import open as kaldi_open
        from pydrobert.speech.torch import PyTorchSTFTFrameComputer

        self.PyTorchSTFT = PyTorchSTFTFrameComputer
        self.np, self.torch, self.cl, self.mk = np, torch, cl, mk
        self.FrameComputer, self.PostProcessor, self.PreProcessor = FrameComputer, PostProcessor, PreProcessor
        self.Dither, self.read_signal, self.kaldi_open = Dither, read_signal, kaldi_open
        torch.set_num_threads(1)


@contextlib.contextmanager
def quiet():
    """the tools log to stderr through handlers they add on every call"""
    old = sys.stderr
    sys.stderr = io.StringIO()
    try:
        with warnings.catch_warnings():
            warnings.simplefilter("ignore")
            yield
    finally:
        sys.stderr = old
        lg = logging.getLogger(sys.argv[0])
        for h in list(lg.handlers):
            lg.removeHandler(h)


def signal_of(I, seed, nchan, n, amp):
    return I.np.random.RandomState(seed).randint(-amp, amp + 1, (nchan, n)).astype(I.np.int16)


# --------------------------------------------------------------------------- case generation
BANKS = [
    {"name": "fbank", "num_filts": 5},
    {"name": "fbank", "num_filts": 8, "analytic": True},
    {"name": "tri", "num_filts": 6, "scaling_function": "mel"},
    {"name": "gabor", "num_filts": 4, "scaling_function": "bark"},
    {"name": "gammatone", "num_filts": 4, "scaling_function": "mel"},
]


# spectral corners of the STFT port used by the torch tool (and of the NumPy computer used by the kaldi tool):
# complex banks whose filters wrap past the Nyquist bin / below 0 Hz, with odd, even-not-power-of-two and
# power-of-two DFT sizes, padded and not.  (8 kHz: 5.125 ms = 41 samples, 25.125 ms = 201, 8 ms = 64, 10 ms = 80.)
CORNER_COMPUTERS = [
    dict(bank="gabor", L_ms=5.125, S_ms=2, pad=False), dict(bank="gammatone", L_ms=5.125, S_ms=2, pad=False),
    dict(bank="gabor", L_ms=25.125, S_ms=10, pad=False), dict(bank="gammatone", L_ms=25.125, S_ms=10, pad=True),
    dict(bank="gabor", L_ms=10, S_ms=5, pad=False), dict(bank="gammatone", L_ms=8, S_ms=3.125, pad=True),
    dict(bank="gabor", L_ms=8, S_ms=8, pad=False), dict(bank="gammatone", L_ms=12.5, S_ms=5, pad=False),
]


def corner_computer(r, k):
    c = CORNER_COMPUTERS[k % len(CORNER_COMPUTERS)]
    rate = 8000
    bank = dict(name=c["bank"], num_filts=4, scaling_function=r.choice(["mel", "bark"]), sampling_rate=rate,
                low_hz=r.choice([0, 20]), high_hz=rate // 2)
    cfg = {"name": "stft", "bank": bank, "frame_length_ms": c["L_ms"], "frame_shift_ms": c["S_ms"],
           "use_log": r.random() < 0.7, "use_power": r.random() < 0.5, "pad_to_nearest_power_of_two": c["pad"],
           "frame_style": r.choice(["causal", "centered"])}
    if r.random() < 0.3:
        cfg["include_energy"] = True
    return cfg


def gen_computer(r, rate=None, si=False, corner=None):
    if corner is not None and not si:
        return corner_computer(r, corner)
    rate = rate or r.choice([8000, 16000])
    bank = dict(r.choice(BANKS))
    bank.update(sampling_rate=rate, low_hz=r.choice([20, 100]), high_hz=r.choice([rate // 2, rate // 2 - 500]))
    if si:
        bank = dict(name=r.choice(["gabor", "gammatone"]), num_filts=3, sampling_rate=rate, low_hz=200, high_hz=rate // 2 - 500,
                    scaling_function="mel")
        return {"name": "si", "bank": bank, "frame_shift_ms": r.choice([5, 10]), "use_log": r.random() < 0.7,
                "use_power": r.random() < 0.5}
    # all four parities of (frame length, frame shift) in samples occur (8 kHz: 200/80, 41/16, 50/25, 80/25, 41/9)
    L_ms, S_ms = r.choice([(25, 10), (20, 10), (10, 5), (12.5, 5), (5.125, 2), (8, 8), (6.25, 3.125), (25, 10),
                           (10, 3.125), (5.125, 1.125), (10, 3.125)])
    wide = r.random() < 0.2
    if wide:
        # frames shorter than the shift (legal: "the algorithm works when the shift exceeds the frame length"): the tail of
        # an utterance can then hold a whole frame more than the (len + shift//2)//shift frames that are computed
        L_ms, S_ms = r.choice([(4, 10), (2.5, 10), (5.125, 12.5), (8, 10)])
    cfg = {"name": "stft", "bank": bank, "frame_length_ms": L_ms, "frame_shift_ms": S_ms,
           "use_log": r.random() < 0.7, "use_power": r.random() < 0.5}
    u = r.random()
    if u < 0.3:
        cfg["frame_style"] = "causal"
    elif u < 0.8:
        cfg["frame_style"] = "centered"
        if r.random() < 0.5 and not wide:
            cfg["kaldi_shift"] = True
    if r.random() < 0.3:
        cfg["include_energy"] = True
    if r.random() < 0.3:
        cfg["window_function"] = r.choice(["hanning", "hamming", "blackman", "bartlett"])
    if r.random() < 0.2:
        cfg["pad_to_nearest_power_of_two"] = False
    return cfg


def gen_pre(r):
    out = []
    for _ in range(r.choice([0, 0, 1, 1, 2])):
        if r.random() < 0.5:
            out.append(r.choice(["dither", {"name": "dither", "coeff": r.choice([1.0, 2.5])}]))
        else:
            out.append(r.choice(["preemph", {"name": "preemphasize", "coeff": r.choice([0.97, 0.5, 0.9])}]))
    if out and isinstance(out[-1], dict) and r.random() < 0.3:
        out.append(dict(out[-1]))  # the same step a second time
    return out


def gen_post(r):
    out = []
    for _ in range(r.choice([0, 0, 1, 1, 2])):
        u = r.random()
        if u < 0.35:
            out.append({"name": "deltas", "num_deltas": r.choice([1, 2])})
        elif u < 0.6:
            out.append({"name": "stack", "num_vectors": r.choice([2, 3])})
        else:
            out.append(r.choice(["cmvn", "standardize", {"name": "unit"}]))
    if out and isinstance(out[-1], dict) and out[-1].get("name") in ("deltas", "stack") and r.random() < 0.3:
        out.append(dict(out[-1]))  # the same step a second time
    return out


def frame_params(I, cfg):
    comp = I.mk(I.FrameComputer, cfg)
    return comp, comp.frame_length, comp.frame_shift


def si_try(I, comp, n):
    try:
        with warnings.catch_warnings():
            warnings.simplefilter("ignore")
            with I.np.errstate(all="ignore"):
                comp.compute_full(I.np.zeros(n))
        return True
    except Exception:
        return False


def si_lengths(I, comp, lens):
    """the short-integration computer has a precondition on the signal length (C03);
    keep the lengths on which the library itself works (None: this configuration never does)"""
    out = []
    for n in lens:
        for _ in range(8):
            if si_try(I, comp, n):
                break
            n = 2 * n + 50
        else:
            return None
        out.append(n)
    return out


def gen_lengths(r, L, S, k):
    """utterance lengths: around the no-frame limit, around one frame, a few frames"""
    pool = [L // 2 - 1, L // 2, L // 2 + 1, L // 2 + 2, (L + 1) // 2, L - 1, L, L + 1, S // 2, S, 1, 2,
            L + S // 2, (L * 3) // 5, (L * 7) // 10, 2 * S, 3 * L + 7, 10 * S + 3]
    if S > L:
        pool += [2 * S + L // 2 + 1, 2 * S + L, 3 * S + L + 1, S + (S + 1) // 2 - 1, 4 * S + (L + S // 2) // 2]
    out = []
    for _ in range(k):
        u = r.random()
        if u < 0.55:
            n = r.choice(pool)
        elif u < 0.8:
            n = r.randint(1, 2 * L)
        else:
            n = r.randint(L, 12 * S + L)
        out.append(max(1, n))
    return out


def dump_cfg(r, cfg, d, name, force=None):
    """the configuration as an argument string: inline JSON, path to JSON, path to YAML"""
    how = force or r.choice(["inline", "json", "yaml"])
    if how == "inline":
        text = json.dumps(cfg)
        if r.random() < 0.35:
            # a long inline document (no path component may be that long: open() fails with ENAMETOOLONG, not ENOENT)
            text = json.dumps(cfg, indent=6) + " " * 300
        return text, how
    # every other configuration file goes to ONE directory shared by all cases of the run: the same path is then
    # rewritten with other contents between invocations of the tools in this process (a tuning loop does that), and
    # what a tool stores must follow the file's current contents
    if r.random() < 0.5:
        d = os.path.join(os.path.dirname(os.path.abspath(d)), "shared_cfg")
        os.makedirs(d, exist_ok=True)
    path = os.path.join(d, "%s.%s" % (name, how))
    with open(path, "w") as f:
        if how == "json":
            json.dump(cfg, f, indent=1)
        else:
            f.write(to_yaml(cfg, 0))
    return path, how


_ANCHOR = [0]


def to_yaml(v, ind):
    """block-style YAML written by hand (not with the library under test's loader)"""
    pad = "  " * ind
    if isinstance(v, dict):
        if not v:
            return pad + "{}\n"
        out = ""
        for k, x in v.items():
            if isinstance(x, (dict, list)) and x:
                out += "%s%s:\n%s" % (pad, k, to_yaml(x, ind + 1))
            else:
                out += "%s%s: %s\n" % (pad, k, yaml_scalar(x))
        return out
    if isinstance(v, list):
        if not v:
            return pad + "[]\n"
        out = ""
        # a step that occurs more than once is written once with an anchor and repeated as an alias (the usual way to say
        # "the same settings again" in YAML; the loader hands the consumer the same mapping object each time)
        anchors = {}
        for i, x in enumerate(v):
            if isinstance(x, dict) and x:
                key = json.dumps(x, sort_keys=True)
                if key in anchors:
                    out += "%s- *%s\n" % (pad, anchors[key])
                    continue
                if any(isinstance(y, dict) and json.dumps(y, sort_keys=True) == key for y in v[i + 1:]):
                    _ANCHOR[0] += 1
                    anchors[key] = "step%d" % _ANCHOR[0]
                    out += "%s- &%s\n%s" % (pad, anchors[key], to_yaml(x, ind + 1))
                    continue
            if isinstance(x, (dict, list)) and x:
                body = to_yaml(x, ind + 1)
                out += pad + "- " + body[len(pad) + 2:]
            else:
                out += "%s- %s\n" % (pad, yaml_scalar(x))
        return out
    return pad + yaml_scalar(v) + "\n"


def yaml_scalar(x):
    if isinstance(x, bool):
        return "true" if x else "false"
    if isinstance(x, (int, float)):
        return repr(x)
    if isinstance(x, str):
        return x
    if x in ({}, []):
        return "{}" if x == {} else "[]"
    raise ValueError(x)


# --------------------------------------------------------------------------- library-side evaluation
class Pipeline:
    """The library objects of one case, built by the harness (not by the tool)."""

    def __init__(self, I, comp_cfg, pre_cfgs, post_cfgs):
        self.I = I
        self.comp = I.mk(I.FrameComputer, comp_cfg) if comp_cfg is not None else None
        self.pres = [I.mk(I.PreProcessor, c) for c in pre_cfgs]
        self.posts = [I.mk(I.PostProcessor, c) for c in post_cfgs]

    @classmethod
    def of_objects(cls, I, comp, pres, posts, pre_ids, post_ids):
        """from objects built elsewhere; the model's terms name processors by the number of their configuration tree"""
        self = cls.__new__(cls)
        self.I, self.comp, self.pres, self.posts = I, comp, list(pres), list(posts)
        self.pre_by_id = dict(zip(pre_ids, pres))
        self.post_by_id = dict(zip(post_ids, posts))
        return self

    def compute(self, x):
        if self.comp is None:
            return x[:, None]
        return self.comp.compute_full(x)

    def frames_for_len(self, n):
        np = self.I.np
        with warnings.catch_warnings():
            warnings.simplefilter("ignore")
            with np.errstate(all="ignore"):
                return int(self.compute(np.zeros(n)).shape[0])

    def post_tables(self, frame_counts):
        """per post-processor: {frames in: frames out | None (raises)}"""
        np = self.I.np
        rs = np.random.RandomState(7)
        width = int(self.compute(rs.randn(4000) * 100).shape[1]) if self.comp is not None else 1
        cur = set(frame_counts)
        tables = []
        for q in self.posts:
            t, nxt, w2 = {}, set(), None
            for nf in sorted(cur):
                try:
                    with warnings.catch_warnings():
                        warnings.simplefilter("ignore")
                        with np.errstate(all="ignore"):
                            out = q.apply(rs.randn(nf, width))
                    t[nf] = int(out.shape[0])
                    nxt.add(int(out.shape[0]))
                    if nf >= 4:
                        w2 = int(np.prod(out.shape[1:]))
                except Exception:
                    t[nf] = None
            if w2 is None:
                try:
                    with warnings.catch_warnings():
                        warnings.simplefilter("ignore")
                        w2 = int(np.prod(q.apply(rs.randn(12, width)).shape[1:]))
                except Exception:
                    w2 = width
            tables.append(t)
            width, cur = w2, nxt
        return tables


class CfgDB:
    """What the environment of a tool does with each configuration argument: open(),
    the YAML loader (ruamel, the one the tool uses), isinstance/iteration, and the
    library's alias factories.  Rendered as the tables of coq/C09/Sym.v (cfgdb)."""

    def __init__(self, I):
        from ruamel.yaml import YAML

        self.I, self.YAML = I, YAML
        self.files, self.loads, self.trees, self.ids = {}, {}, [], {}
        self.built = {"comp": {}, "pre": {}, "post": {}}

    def arg(self, s):
        """register an argument string; -> tree number or None (the loader raises)"""
        text = s
        try:
            with open(s) as f:
                text = f.read()
            self.files[s] = text
        except OSError:
            pass
        if text not in self.loads:
            try:
                with warnings.catch_warnings():
                    warnings.simplefilter("ignore")
                    tree = self.YAML(typ="safe").load(text)
                self.loads[text] = self.tid(tree)
            except Exception:
                self.loads[text] = None
        return self.loads[text]

    def tid(self, tree):
        key = repr((type(tree).__name__, json.dumps(tree, sort_keys=True, default=repr)))
        if key not in self.ids:
            self.ids[key] = len(self.trees)
            self.trees.append(tree)
        return self.ids[key]

    def shape(self, t):
        tree = self.trees[t]
        if isinstance(tree, dict):
            return "ShDict", None
        if isinstance(tree, (list, tuple, str)):
            return "ShSeq", [self.tid(x) for x in tree]
        return "ShNotIterable", None

    def build(self, kind, t):
        """-> ('Built', obj) | ('BuildValueError', None) | ('BuildOtherError', None), by the library's factory"""
        if t not in self.built[kind]:
            base = {"comp": self.I.FrameComputer, "pre": self.I.PreProcessor, "post": self.I.PostProcessor}[kind]
            try:
                with warnings.catch_warnings():
                    warnings.simplefilter("ignore")
                    self.built[kind][t] = ("Built", self.I.mk(base, self.trees[t]))
            except ValueError:
                self.built[kind][t] = ("BuildValueError", None)
            except Exception:
                self.built[kind][t] = ("BuildOtherError", None)
        return self.built[kind][t]

    def elements(self, t):
        """trees of the elements of a --preprocess / --postprocess argument (None: not iterable / absent)"""
        if t is None:
            return None
        sh, el = self.shape(t)
        return [t] if sh == "ShDict" else el

    def coq(self, comp_term, pre_term, post_term):
        """comp_term(obj) etc. render a built object as a Sym.v record"""
        # shapes of every tree reachable (registering elements may add trees)
        shapes, i = [], 0
        while i < len(self.trees):
            sh, el = self.shape(i)
            shapes.append("(%d, %s)" % (i, sh if el is None else "ShSeq %s" % C.zlist(el)))
            i += 1
        def tab(kind, render):
            out = []
            for t, (tag, obj) in sorted(self.built[kind].items()):
                out.append("(%d, %s)" % (t, "Built %s" % render(t, obj) if tag == "Built" else tag))
            return "[" + "; ".join(out) + "]"
        files = "[" + "; ".join("(%s, %s)" % (slit(k), slit(v)) for k, v in self.files.items()) + "]"
        loads = "[" + "; ".join("(%s, %s)" % (slit(k), optz(v)) for k, v in self.loads.items()) + "]"
        return "(mkDB %s %s [%s] %s %s %s)" % (files, loads, "; ".join(shapes), tab("comp", comp_term), tab("pre", pre_term), tab("post", post_term))

    def pipeline(self, comp_t, pre_t, post_t, no_comp=False):
        """the objects the tool will end up with, when every factory call succeeds (else None)"""
        comp = None
        if not no_comp:
            if comp_t is None:
                return None
            tag, comp = self.build("comp", comp_t)
            if tag != "Built":
                return None
        pres, posts = [], []
        for kind, t, acc in (("pre", pre_t, pres), ("post", post_t, posts)):
            if t == "absent":
                continue
            el = self.elements(t)
            if el is None:
                return None
            for e in el:
                tag, obj = self.build(kind, e)
                if tag != "Built":
                    return None
                acc.append((e, obj))
        return Pipeline.of_objects(self.I, comp, [o for _, o in pres], [o for _, o in posts], [e for e, _ in pres], [e for e, _ in posts])


def cfg_args_of(args, positional):
    """the configuration strings of an argument list: (computer | None, preprocess | None, postprocess | None)"""
    comp = args[positional] if positional is not None else None
    pre = post = None
    for i, a in enumerate(args):
        if a.startswith("--preprocess="):
            pre = a[len("--preprocess="):]
        elif a == "--preprocess":
            pre = args[i + 1]
        elif a.startswith("--postprocess="):
            post = a[len("--postprocess="):]
        elif a == "--postprocess":
            post = args[i + 1]
    return comp, pre, post


class TermEval:
    """Evaluate the model's terms with the library."""

    def __init__(self, I, pipe, sigs, mode, init_state):
        self.I, self.pipe, self.sigs, self.mode, self.init = I, pipe, sigs, mode, init_state
        self.memo = {}

    # generator states ------------------------------------------------------
    def _get(self):
        return self.I.np.random.get_state() if self.mode == "np" else self.I.torch.get_rng_state()

    def _set(self, st):
        if self.mode == "np":
            self.I.np.random.set_state(st)
        else:
            self.I.torch.set_rng_state(st)

    def _apply_pre(self, p, x):
        pre = self.pipe.pre_by_id[p] if hasattr(self.pipe, "pre_by_id") else self.pipe.pres[p]
        if self.mode == "pt" and isinstance(pre, self.I.Dither):
            # the library's Dither with torch's generator as the noise source
            t = self.I.torch
            return x + pre.coeff * t.randn(x.shape, dtype=t.float64).numpy()
        return pre.apply(x.copy())

    def r(self, t):
        k = ("r", repr(t))
        if k in self.memo:
            return self.memo[k]
        if t[0] == "RInit":
            st = self.init
        elif t[0] == "RSeed":
            if self.mode == "np":
                self.I.np.random.seed(t[1])
            else:
                self.I.torch.manual_seed(t[1])
            st = self._get()
        else:  # RNext p s r
            self.s(("SPre", t[1], t[2], t[3]))
            st = self.memo[("after", repr(("SPre", t[1], t[2], t[3])))]
        self.memo[k] = st
        return st

    def s(self, t):
        k = ("s", repr(t))
        if k in self.memo:
            return self.memo[k]
        np = self.I.np
        if t[0] == "SChan":
            sig = self.sigs[t[1]]
            v = np.asarray(sig if t[2] == -1 and sig.ndim == 1 else sig[t[2]], dtype=np.float64)
        else:  # SPre p s r
            x = self.s(t[2])
            st = self.r(t[3])
            self._set(st)
            v = self._apply_pre(t[1], x)
            self.memo[("after", repr(t))] = self._get()
        self.memo[k] = v
        return v

    def f(self, t):
        np = self.I.np
        if t[0] == "FCompute":
            return self.pipe.compute(self.s(t[2]))
        if t[0] == "FColumn":
            return self.s(t[1])[:, None]
        if t[0] == "FPost":
            q = self.pipe.post_by_id[t[1]] if hasattr(self.pipe, "post_by_id") else self.pipe.posts[t[1]]
            return q.apply(self.f(t[2]))
        if t[0] == "FCast":
            return self.f(t[1]).astype(np.float32)
        raise ValueError(t)


def close(np, act, exp, rtol, atol, strict_shape):
    act, exp = np.asarray(act), np.asarray(exp)
    if act.shape != exp.shape:
        if not strict_shape and act.shape[0] == 0 and exp.shape[0] == 0:
            return True, ""
        return False, "shape %s vs expected %s" % (act.shape, exp.shape)
    if act.size == 0:
        return True, ""
    with np.errstate(all="ignore"):
        bad = ~(np.abs(act.astype(np.float64) - exp.astype(np.float64)) <= atol + rtol * np.abs(exp.astype(np.float64)))
        bad &= ~((act == exp) | (np.isnan(act) & np.isnan(exp)))
    if bad.any():
        i = tuple(int(x) for x in np.argwhere(bad)[0])
        return False, "value at %s: %r vs expected %r (%d of %d differ)" % (i, float(act[i]), float(exp[i]), int(bad.sum()), act.size)
    return True, ""


# --------------------------------------------------------------------------- kaldi tool
def kaldi_gen_case(ctx, I, idx):
    r = ctx.rng
    si = r.random() < 0.08
    comp_cfg = gen_computer(r, si=si, corner=(idx // 4 if idx % 4 == 3 else None))
    if idx % 4 == 3 and not si:
        ctx.count("generator:corner-computer")
    comp, L, S = frame_params(I, comp_cfg)
    rate = comp_cfg["bank"]["sampling_rate"]
    if si:
        L = 4 * S
    nutt = r.choice([1, 2, 3, 3, 4, 5])
    lens = gen_lengths(r, L, S, nutt)
    if si:
        lens = si_lengths(I, comp, lens)
        if lens is None:  # a short-integration configuration the library itself cannot run: take an STFT one
            ctx.count("generator:si-config-not-runnable")
            comp_cfg = gen_computer(r, si=False)
            comp, L, S = frame_params(I, comp_cfg)
            rate = comp_cfg["bank"]["sampling_rate"]
            lens = gen_lengths(r, L, S, nutt)
    multi = r.random() < 0.45
    utts = []
    for k, n in enumerate(lens):
        nchan = r.choice([1, 2, 2, 3]) if multi else 1
        urate = rate if r.random() < 0.85 else r.choice([8000, 16000, 11025])
        utts.append(dict(id="%s%d" % (r.choice(["utt", "u-", "spk1_"]), k), nchan=nchan, n=n, rate=urate,
                         sig_seed=r.randrange(1 << 30), amp=r.choice([30, 300, 20000])))
    if r.random() < 0.3:
        r.shuffle(utts)  # the table need not be sorted (scp without ,s)
    u = r.random()
    if multi:
        channel = r.choice([0, 1, 1, 2, None, -2 if u < 0.1 else 0, r.choice(utts)["nchan"], r.choice(utts)["nchan"] - 1])
    else:
        channel = r.choice([None, None, None, 0, 1 if u < 0.3 else None])
    min_dur = None
    if r.random() < 0.4:
        durs = [u_["n"] / u_["rate"] for u_ in utts]
        # ("at"|"above"|"below", k): relative to the duration the tool is given for utterance k (a float32 quotient)
        k = r.randrange(len(utts))
        min_dur = r.choice([0.0, ("at", k), ("at", k), ("above", k), ("below", k), r.choice(durs) * 1.0001,
                            r.choice(durs) * 0.999, max(durs) + 1, 0.01])
    seed = r.choice([None, 0, 0, 1, 30, 2 ** 31 - 5])
    pre, post = gen_pre(r), gen_post(r)
    return dict(tool="kaldi", idx=idx, computer=comp_cfg, pre=pre, post=post, channel=channel, min_duration=min_dur,
                seed=seed, utts=utts, syntax=[r.choice(["inline", "json", "yaml"]) for _ in range(3)],
                init_seed=r.randrange(1 << 30))


def kaldi_materialise(I, case, d):
    """wave files + scp; returns the argument list and the signals"""
    shutil.rmtree(d, ignore_errors=True)
    os.makedirs(d)
    sigs = []
    with open(os.path.join(d, "wav.scp"), "w") as scp:
        for k, u in enumerate(case["utts"]):
            sig = signal_of(I, u["sig_seed"], u["nchan"], u["n"], u["amp"])
            sigs.append(sig)
            p = os.path.join(d, "w%d.wav" % k)
            wv = wave.open(p, "wb")
            wv.setnchannels(u["nchan"])
            wv.setsampwidth(2)
            wv.setframerate(u["rate"])
            wv.writeframes(I.np.ascontiguousarray(sig.T).tobytes())
            wv.close()
            scp.write("%s %s\n" % (u["id"], p))
    return sigs


def kaldi_args(case, d, syntax=None, seed="case", out="feat.ark"):
    r = __import__("random").Random(case["idx"])
    syn = syntax or case["syntax"]
    args = ["scp:" + os.path.join(d, "wav.scp"), "ark:" + os.path.join(d, out)]
    a, _ = dump_cfg(r, case["computer"], d, "computer", syn[0])
    args.append(a)
    if case["pre"]:
        a, _ = dump_cfg(r, case["pre"], d, "pre", syn[1])
        args.append("--preprocess=" + a)
    if case["post"]:
        a, _ = dump_cfg(r, case["post"], d, "post", syn[2])
        args += ["--postprocess", a]
    if case["channel"] is not None:
        args.append("--channel=%d" % case["channel"])
    if case["min_duration"] is not None:
        args.append("--min-duration=%r" % case["min_duration"])
    sd = case["seed"] if seed == "case" else seed
    if sd is not None:
        args.append("--seed=%d" % sd)
    return args


def kaldi_run_tool(I, case, d, args, init_seed):
    """-> dict(kind='exit'|'exc', code, exc, stored=[(id, matrix)])"""
    out = args[1][4:]
    if os.path.exists(out):
        os.remove(out)
    I.np.random.seed(init_seed)
    res = {}
    with quiet():
        try:
            res = dict(kind="exit", code=I.cl.compute_feats_from_kaldi_tables(list(args)))
        except Exception as e:  # noqa: BLE001
            res = dict(kind="exc", exc=type(e).__name__, msg=str(e)[:200])
    stored = []
    if os.path.exists(out) and os.path.getsize(out):
        try:
            with I.kaldi_open("ark:" + out, "bm") as rd:
                for k, v in rd.items():
                    stored.append((k, I.np.array(v)))
        except Exception as e:  # a table left open by an exception may be truncated
            res["read_error"] = str(e)[:100]
    res["stored"] = stored
    return res


def kaldi_table_view(I, d):
    """what the tool itself is given: (id, channels, rate, duration) read with the same library"""
    out = []
    with I.kaldi_open("scp:" + os.path.join(d, "wav.scp"), "wm", value_style="bsd") as rd:
        for k, (buff, sf, dur) in rd.items():
            out.append((k, I.np.array(buff), float(sf), float(dur)))
    return out


def kaldi_direct_spec(I, case, view, pipe):
    """The property statement, directly: which ids, which matrices (no Coq involved)."""
    np = I.np
    o_ch = -1 if case["channel"] is None else case["channel"]
    mind = 0.0 if case["min_duration"] is None else case["min_duration"]
    rate = pipe.comp.bank.sampling_rate
    if case["seed"] is not None:
        np.random.seed(case["seed"])
    else:
        np.random.seed(case["init_seed"])
    exp, undecided = [], False
    for (k, buff, sf, dur) in view:
        nchan = buff.shape[0]
        if dur < mind or sf != rate:
            continue
        if o_ch == -1:
            if nchan > 1:
                undecided = True  # outside the property's domain (the tool warns and takes channel 0)
                ch = 0
            else:
                ch = 0
        elif o_ch >= nchan:
            continue
        elif o_ch < 0:
            return exp, "domain"  # negative channel other than -1: outside the property
        else:
            ch = o_ch
        x = buff[ch].astype(np.float64)
        for p in pipe.pres:
            x = p.apply(x)
        f = pipe.comp.compute_full(x)
        if len(f):
            try:
                for q in pipe.posts:
                    f = q.apply(f)
            except Exception:
                return exp, "library-raises"
        exp.append((k, f.astype(np.float32)))
    return exp, ("undecided" if undecided else "ok")


def kaldi_coq_case(case, view, pipe, name):
    o_ch = -1 if case["channel"] is None else case["channel"]
    mind = 0.0 if case["min_duration"] is None else case["min_duration"]
    frames, counts = [], set()
    for u, (k, buff, sf, dur) in enumerate(view):
        nf = pipe.frames_for_len(buff.shape[1])
        counts.add(nf)
        for c in range(buff.shape[0]):
            frames.append((u, c, nf))
    tables = pipe.post_tables(counts)
    comp = "(mkSC 0 %s %s true)" % (qlit(pipe.comp.bank.sampling_rate), C.zlist(frames))
    pres = "[" + "; ".join("mkSP %d true" % i for i in range(len(pipe.pres))) + "]"
    posts = "[" + "; ".join(
        "mkSQ %d [%s]" % (i, "; ".join("(%d, %s)" % (a, optz(b)) for a, b in sorted(t.items())))
        for i, t in enumerate(tables)) + "]"
    descs = "[" + "; ".join(
        "(%d, %s, %s, %s, %s)" % (u, slit(k), C.zlist([int(buff.shape[1])] * buff.shape[0]), qlit(sf), qlit(dur))
        for u, (k, buff, sf, dur) in enumerate(view)) + "]"
    opts = "(mkKO %s %s %s)" % (qlit(mind), C.zlist(o_ch), optz(case["seed"]))
    return "Definition %s := kaldi_run %s %s %s %s %s.\nEval vm_compute in %s.\n" % (name, opts, comp, pres, posts, descs, name)


def exc_matches(model_exn, obs):
    if obs["kind"] != "exc":
        return False
    names = EXN.get(model_exn)
    return True if names is None else obs["exc"] in names


def compare_stored(I, ctx, case, what, obs_stored, exp_stored, rtol, atol, strict_shape):
    """ids in order, then matrices"""
    if [k for k, _ in obs_stored] != [k for k, _ in exp_stored]:
        return "%s: stored ids %r, expected %r" % (what, [k for k, _ in obs_stored], [k for k, _ in exp_stored])
    for (k, a), (_, e) in zip(obs_stored, exp_stored):
        ok, why = close(I.np, a, e, rtol, atol, strict_shape)
        if not ok:
            return "%s: utterance %s: %s" % (what, k, why)
    return None


# --------------------------------------------------------------------------- torch tool
def torch_gen_case(ctx, I, idx):
    r = ctx.rng
    no_comp = r.random() < 0.12
    si = (not no_comp) and r.random() < 0.08
    comp_cfg = None if no_comp else gen_computer(r, si=si, corner=(idx // 3 if idx % 3 == 2 else None))
    if idx % 3 == 2 and not no_comp and not si:
        ctx.count("generator:corner-computer")
    if no_comp:
        L, S = 50, 20
    else:
        comp, L, S = frame_params(I, comp_cfg)
        if not si:
            # the PyTorch port refuses (ValueError at construction) a bank with a filter that has no DFT bin at this frame
            # length - short frames with narrow low filters; such a configuration is outside what the tool can run at all
            for _ in range(8):
                try:
                    I.PyTorchSTFT.from_stft_frame_computer(comp)
                    break
                except ValueError:
                    ctx.count("generator:torch-port-refuses-bank")
                    comp_cfg = gen_computer(r, si=False)
                    comp, L, S = frame_params(I, comp_cfg)
        if si:
            L = 4 * S
        elif S > L:
            ctx.count("generator:shift>frame-length")
    nutt = r.choice([1, 2, 3, 4, 5])
    lens = gen_lengths(r, L, S, nutt)
    if si:
        lens = si_lengths(I, comp, lens)
        if lens is None:  # a short-integration configuration the library itself cannot run: take an STFT one
            ctx.count("generator:si-config-not-runnable")
            comp_cfg = gen_computer(r, si=False)
            comp, L, S = frame_params(I, comp_cfg)
            lens = gen_lengths(r, L, S, nutt)
    multi = r.random() < 0.45
    utts = []
    for k, n in enumerate(lens):
        u = r.random()
        if multi:
            shape = r.choice(["2d", "2d", "2d", "1d" if u < 0.2 else "2d"])
            nchan = r.choice([1, 2, 2, 3])
        else:
            shape = r.choice(["1d", "1d", "1d", "2d" if u < 0.3 else "1d"])
            nchan = 1
        kind = r.choice(["npy", "npy", "pt", "wav" if (shape == "1d" or nchan == 1) else "npy"])
        sp = " " if r.random() < 0.08 else ""
        utts.append(dict(id="%s%d" % (r.choice(["utt", "a.b-", "X_"]), k), shape=shape, nchan=nchan, n=n, kind=kind,
                         sig_seed=r.randrange(1 << 30), amp=r.choice([30, 300, 20000]), space_in_path=sp,
                         missing=r.random() < 0.03))
    if no_comp and multi:
        # a snippet with fewer samples than channels (channels first: (5, 4), (3, 2)): still one column of samples per channel
        utts[0].update(shape="2d", nchan=r.choice([3, 4, 5]))
        utts[0]["n"] = utts[0]["nchan"] - 1
        ctx.count("generator:fewer-samples-than-channels")
    post_cfg = gen_post(r)
    if no_comp and r.random() < 0.6:
        # raw storage of float64 recordings riding on a large offset (a pressure / DC-coupled sensor: 1013.25 +- 0.01): the
        # post-processors see the samples in full precision and only the stored result is rounded to float32
        for u_ in utts:
            if u_["kind"] == "npy":
                u_["offset"] = True
        if not post_cfg:
            post_cfg = [r.choice(["cmvn", {"name": "deltas", "num_deltas": 1}])]
        ctx.count("generator:raw-float64-on-offset")
    if r.random() < 0.3:
        r.shuffle(utts)
    if multi:
        if r.random() < 0.7:  # mostly a channel every matrix has
            channel = r.randrange(min(u_["nchan"] for u_ in utts))
        else:
            channel = r.choice([0, 1, 2, None, -2 if r.random() < 0.3 else 1, r.choice(utts)["nchan"], r.choice(utts)["nchan"]])
    else:
        channel = r.choice([None, None, None, None, 0 if r.random() < 0.5 else None])
    manifest = None
    if r.random() < 0.4:
        # lines as an earlier run wrote them, sometimes hand-edited (blanks around an id, an unknown id)
        listed = [u_["id"] + r.choice(["", "", "", " ", "\t"]) for u_ in utts if r.random() < 0.4]
        listed = [(" " + x) if r.random() < 0.08 else x for x in listed]
        extra = ["ghost"] if r.random() < 0.3 else []
        manifest = listed + extra
    mapfmt = r.choice(["plain", "plain", "blank-lines", "trailing-space", "crlf"])
    bad = None
    if r.random() < 0.06:
        bad = r.choice(["one-field", "duplicate"])
    return dict(tool="torch", idx=idx, computer=comp_cfg, pre=gen_pre(r), post=post_cfg, channel=channel,
                seed=r.choice([None, 0, 0, 7, 12345]), utts=utts, manifest=manifest, mapfmt=mapfmt, bad=bad,
                prefix=r.choice(["", "", "feat_"]), suffix=r.choice([None, None, ".feat.pt"]),
                syntax=[r.choice(["inline", "json", "yaml"]) for _ in range(3)], init_seed=r.randrange(1 << 30),
                workers=0)


def torch_materialise(I, case, d):
    np, torch = I.np, I.torch
    shutil.rmtree(d, ignore_errors=True)
    os.makedirs(os.path.join(d, "raw dir"))
    lines, sigs = [], []
    for k, u in enumerate(case["utts"]):
        sig = signal_of(I, u["sig_seed"], u["nchan"], u["n"], u["amp"])
        if u["shape"] == "1d":
            sig = sig[0]
        base = os.path.join(d, "raw dir" if u["space_in_path"] else "", "s%d" % k)
        if u["kind"] == "npy" and u.get("offset"):
            path = base + ".npy"
            sig = 1013.25 + 0.01 * np.random.RandomState(u["sig_seed"]).randn(*sig.shape)
            np.save(path, sig)
        elif u["kind"] == "npy":
            path = base + ".npy"
            np.save(path, sig.astype(np.float32 if k % 2 else np.float64))
        elif u["kind"] == "pt":
            path = base + ".pt"
            torch.save(torch.from_numpy(sig.astype(np.float32)), path)
        else:
            path = base + ".wav"
            wv = wave.open(path, "wb")
            wv.setnchannels(1)
            wv.setsampwidth(2)
            wv.setframerate(16000)
            wv.writeframes(np.ascontiguousarray(sig.reshape(-1)).tobytes())
            wv.close()
        if u["missing"]:
            os.remove(path)
        sigs.append(sig)
        lines.append("%s %s" % (u["id"], path))
    if case["bad"] == "one-field":
        lines.insert(len(lines) // 2, "justanid")
    elif case["bad"] == "duplicate":
        lines.append(lines[0])
    fmt = case["mapfmt"]
    if fmt == "blank-lines":
        text = "\n" + "\n\n".join(lines) + "\n   \n"
    elif fmt == "trailing-space":
        text = "".join("  " + ln + " \t\n" for ln in lines)
    elif fmt == "crlf":
        text = "".join(ln + "\r\n" for ln in lines)
    else:
        text = "".join(ln + "\n" for ln in lines)
    with open(os.path.join(d, "map"), "w", newline="") as f:
        f.write(text)
    if case["manifest"] is not None:
        with open(os.path.join(d, "manifest"), "w") as f:
            for ln in case["manifest"]:
                f.write(ln + "\n")
    return sigs, lines


def torch_args(case, d, syntax=None, seed="case", out="out"):
    r = __import__("random").Random(case["idx"])
    syn = syntax or case["syntax"]
    args = [os.path.join(d, "map")]
    if case["computer"] is not None:
        a, _ = dump_cfg(r, case["computer"], d, "computer", syn[0])
        args.append(a)
    args.append(os.path.join(d, out))
    if case["pre"]:
        a, _ = dump_cfg(r, case["pre"], d, "pre", syn[1])
        args.append("--preprocess=" + a)
    if case["post"]:
        a, _ = dump_cfg(r, case["post"], d, "post", syn[2])
        args += ["--postprocess", a]
    if case["channel"] is not None:
        args.append("--channel=%d" % case["channel"])
    sd = case["seed"] if seed == "case" else seed
    if sd is not None:
        args.append("--seed=%d" % sd)
    if case["prefix"]:
        args += ["--file-prefix", case["prefix"]]
    if case["suffix"] is not None:
        args += ["--file-suffix", case["suffix"]]
    if case["manifest"] is not None:
        args += ["--manifest", os.path.join(d, "manifest")]
    if case.get("workers"):
        args += ["--num-workers", str(case["workers"])]
    return args


def torch_run_tool(I, case, d, args, init_seed, out="out"):
    torch = I.torch
    od = os.path.join(d, out)
    shutil.rmtree(od, ignore_errors=True)
    mpath = os.path.join(d, "manifest")
    if case["manifest"] is not None:
        with open(mpath, "w") as f:
            for ln in case["manifest"]:
                f.write(ln + "\n")
    I.np.random.seed(init_seed)
    torch.manual_seed(init_seed)
    with quiet():
        try:
            res = dict(kind="exit", code=I.cl.signals_to_torch_feat_dir(list(args)))
        except Exception as e:  # noqa: BLE001
            res = dict(kind="exc", exc=type(e).__name__, msg=str(e)[:200])
    # argparse keeps the map / manifest files open: close what the tool left open
    import gc

    gc.collect()
    disk = {}
    if os.path.isdir(od):
        for fn in sorted(os.listdir(od)):
            t = torch.load(os.path.join(od, fn))
            disk[fn] = t
    res["disk"] = disk
    res["manifest_after"] = open(mpath).read().split("\n")[:-1] if case["manifest"] is not None else None
    return res


def torch_file_view(I, case, lines):
    """what read_signal (the library's reader) returns for each path of the map"""
    view = []
    for k, ln in enumerate(lines):
        if " " not in ln:
            continue
        utt, path = ln.split(" ", 1)
        try:
            with warnings.catch_warnings():
                warnings.simplefilter("ignore")
                a = I.read_signal(path, dtype=I.np.float64, key=utt)
            view.append((utt, path, a))
        except Exception:
            view.append((utt, path, None))
    return view


def torch_coq_case(case, d, text_lines, view, pipe, name):
    o_ch = -1 if case["channel"] is None else case["channel"]
    frames, counts = [], set()
    files, seen = [], set()
    unum = {}
    for (utt, path, a) in view:
        if path in seen:
            continue
        seen.add(path)
        u = unum.setdefault(path, len(unum))
        if a is None:
            files.append("(%s, (%d, None))" % (slit(path), u))
            continue
        if a.ndim == 1:
            nf = pipe.frames_for_len(a.shape[0])
            counts.add(nf)
            frames.append((u, -1, nf))
            files.append("(%s, (%d, Some (inl %d)))" % (slit(path), u, a.shape[0]))
        else:
            nf = pipe.frames_for_len(a.shape[1])
            counts.add(nf)
            for c in range(a.shape[0]):
                frames.append((u, c, nf))
            files.append("(%s, (%d, Some (inr (%d, %d))))" % (slit(path), u, a.shape[0], a.shape[1]))
    tables = pipe.post_tables(counts)
    comp = "None" if pipe.comp is None else "(Some (mkSC 0 (1 # 1) %s true))" % C.zlist(frames)
    pres = "[" + "; ".join("mkSP %d true" % i for i in range(len(pipe.pres))) + "]"
    posts = "[" + "; ".join(
        "mkSQ %d [%s]" % (i, "; ".join("(%d, %s)" % (a, optz(b)) for a, b in sorted(t.items())))
        for i, t in enumerate(tables)) + "]"
    mlines = "[" + "; ".join(slit(x) for x in text_lines) + "]"
    mani = "None" if case["manifest"] is None else "(Some [%s])" % "; ".join(slit(x + "\n") for x in case["manifest"])
    seed = case["seed"] if case["seed"] is not None else 0
    targs = "(mkTA %s None None None %s %s %s %s %s)" % (
        mlines, C.zlist(o_ch), optz(case["seed"]), slit(case["prefix"]),
        slit(".pt" if case["suffix"] is None else case["suffix"]), mani)
    body = "Definition %s := torch_run %s %s [%s] %s %s %s.\nEval vm_compute in %s.\n" % (
        name, targs, C.zlist(seed), "; ".join(files), pres, comp, posts, name)
    return body, unum


def torch_direct_spec(I, case, view, pipe, seed):
    """The property statement for signals-to-torch-feat-dir, directly in Python."""
    np, torch = I.np, I.torch
    o_ch = -1 if case["channel"] is None else case["channel"]
    listed = set(case["manifest"] or [])
    exp, status = {}, "ok"
    for pos, (utt, path, a) in enumerate(view):
        if utt in listed:
            continue
        if a is None:
            return exp, "unreadable"
        if a.ndim == 1:
            if o_ch != -1:
                return exp, "channel-complaint"  # "Channel specified as .. but signal has shape .."
            x = a
        else:
            if o_ch == -1:
                if a.shape[0] > 1:
                    return exp, "channel-complaint"  # "Channel is not specified but signal has shape .."
                x = a[0]
            elif 0 <= o_ch < a.shape[0]:
                x = a[o_ch]
            elif o_ch >= a.shape[0]:
                return exp, "channel-complaint"
            else:
                return exp, "domain"
        x = np.asarray(x, dtype=np.float64)
        torch.manual_seed(seed + pos)
        for p in pipe.pres:
            if isinstance(p, I.Dither):
                x = x + p.coeff * torch.randn(x.shape, dtype=torch.float64).numpy()
            else:
                x = p.apply(x)
        f = pipe.compute(x)
        if f.shape[0]:
            try:
                for q in pipe.posts:
                    f = q.apply(f)
            except Exception:
                return exp, "library-raises"
        exp[utt] = f.astype(np.float32)
    return exp, status


# --------------------------------------------------------------------------- driver
def eval_cases(ctx, bodies, tag):
    """bodies: list of vernacular (one Eval each) -> list of parsed answers (None on failure)"""
    if not getattr(ctx, "can_eval", True):
        return [None] * len(bodies)  # the model does not build: already reported; the direct search still runs
    shard = 60
    files = [("%s_%d_%d" % (tag, os.getpid(), i // shard), "".join(bodies[i:i + shard])) for i in range(0, len(bodies), shard)]
    res = C.coq_eval_many(ctx, files, REQ)
    out = []
    for (name, _), (ans, log), base in zip(files, res, range(0, len(bodies), shard)):
        k = min(shard, len(bodies) - base)
        if ans is None or len(ans) != k:
            ctx.fail("the model could not be evaluated on generated cases (%s)" % name,
                     dict(correspondence="coq/C09/Sym.v on build/C09/%s.v" % name, log_tail=(log or "")[-1500:]),
                     kind="correspondence", no_input=True)
            out += [None] * k
        else:
            out += [parse_term(a) for a in ans]
    return out


def check_kaldi(ctx, I, ncases):
    np = I.np
    d = os.path.join(RUN, "kaldi")
    runs, bodies = [], []
    for idx in range(ncases):
        case = kaldi_gen_case(ctx, I, idx)
        sigs = kaldi_materialise(I, case, d)
        try:
            pipe = Pipeline(I, case["computer"], case["pre"], case["post"])
        except Exception as e:  # the generator only makes valid configurations
            ctx.fail("library refuses a generated configuration: %s" % e, dict(case=case), kind="impl")
            continue
        view = kaldi_table_view(I, d)
        if isinstance(case["min_duration"], (tuple, list)):
            how, k = case["min_duration"]
            dur = view[k][3]
            import math

            case["min_duration"] = dur if how == "at" else math.nextafter(dur, math.inf if how == "above" else -math.inf)
            ctx.count("kaldi:min-duration:" + how)
        args = kaldi_args(case, d)
        obs = kaldi_run_tool(I, case, d, args, case["init_seed"])
        # ---- the property statement, directly
        exp, status = kaldi_direct_spec(I, case, view, pipe)
        nontriv = bool(obs["stored"])
        ctx.count("kaldi:status:" + status)
        ctx.count("kaldi:" + ("exc:" + obs.get("exc", "") if obs["kind"] == "exc" else "exit:%s" % obs.get("code")))
        ctx.count("kaldi:syntax:" + "/".join(case["syntax"]))
        ctx.count("kaldi:utts", len(case["utts"]))
        for (k, m) in obs["stored"]:
            ctx.count("kaldi:stored:" + ("empty" if m.shape[0] == 0 else "1-frame" if m.shape[0] == 1 else "frames"))
        if status in ("ok", "undecided"):
            why = None
            if obs["kind"] != "exit":
                why = "the tool raised %s: %s" % (obs["exc"], obs.get("msg"))
            elif obs["code"] != (0 if exp else 1):
                why = "exit status %r, expected %r" % (obs["code"], 0 if exp else 1)
            else:
                why = compare_stored(I, ctx, case, "table", obs["stored"], exp, 1e-6, 1e-6, False)
                if why is None and any(m.dtype != np.float32 for _, m in obs["stored"]):
                    why = "stored matrix is not float32"
            if why:
                ctx.fail("compute-feats-from-kaldi-tables does not store what the library pipeline computes: " + why,
                         dict(case=case, argv=args, observed=summ(obs)), kind="impl")
        elif status == "library-raises" and obs["kind"] != "exc":
            ctx.fail("the library pipeline raises on an utterance but the tool stored something / exited normally",
                     dict(case=case, argv=args, observed=summ(obs)), kind="impl")
        ctx.case(dict(tool="kaldi", computer=case["computer"], pre=case["pre"], post=case["post"], channel=case["channel"],
                      min_duration=case["min_duration"], seed=case["seed"],
                      utts=[(u["nchan"], u["n"], u["rate"]) for u in case["utts"]]), nontrivial=nontriv)
        # ---- for the model
        bodies.append(kaldi_coq_case(case, view, pipe, "k%d" % idx))
        init_state = None
        np.random.seed(case["init_seed"])
        init_state = np.random.get_state()
        runs.append((case, args, obs, view, pipe, init_state))
        # ---- --seed twice from different generator states; configuration syntaxes
        if case["seed"] is not None and idx % 3 == 0:
            obs2 = kaldi_run_tool(I, case, d, args, case["init_seed"] + 17)
            ctx.count("kaldi:seed-twice")
            if not same_obs(np, obs, obs2):
                ctx.fail("compute-feats-from-kaldi-tables --seed=%d: two runs differ" % case["seed"],
                         dict(case=case, argv=args, first=summ(obs), second=summ(obs2)), kind="impl")
        if idx % 4 == 1:
            base = None
            for syn in (["inline"] * 3, ["json"] * 3, ["yaml"] * 3):
                a2 = kaldi_args(case, d, syntax=syn, seed=case["seed"] if case["seed"] is not None else 11)
                o2 = kaldi_run_tool(I, case, d, a2, 5)
                ctx.count("kaldi:syntax-triple")
                if base is None:
                    base = (syn, a2, o2)
                elif not same_obs(np, base[2], o2):
                    ctx.fail("compute-feats-from-kaldi-tables: the same configuration as %s and as %s gives different output" % (base[0][0], syn[0]),
                             dict(case=case, argv_a=base[1], argv_b=a2, a=summ(base[2]), b=summ(o2)), kind="impl")
    # ---- the model's prediction
    answers = eval_cases(ctx, bodies, "kaldi")
    for (case, args, obs, view, pipe, init_state), ans in zip(runs, answers):
        if ans is None:
            continue
        why = None
        ids = [k for k, _, _, _ in view]
        if ans[0] == "ObsExit":
            if obs["kind"] != "exit" or obs["code"] != ans[1]:
                why = "model: exit status %d; tool: %s" % (ans[1], summ(obs)["result"])
        else:
            if not exc_matches(ans[1][0] if isinstance(ans[1], tuple) else ans[1], obs):
                why = "model: raises %s; tool: %s" % (ans[1], summ(obs)["result"])
        if why is None and obs["kind"] == "exit":
            ev = TermEval(I, pipe, [b for _, b, _, _ in view], "np", init_state)
            try:
                exp = [(ids[u], ev.f(t)) for (u, t) in ans[2]]
            except Exception as e:  # noqa: BLE001
                why = "a term of the model cannot be evaluated with the library: %s: %s" % (type(e).__name__, e)
                exp = None
            if exp is not None:
                why = compare_stored(I, ctx, case, "table vs model", obs["stored"], exp, 1e-6, 1e-6, False)
                if why is None:
                    ctx.cov["traces_validated_against_impl"] += 1
        elif why is None:
            # an exception: the entries written before it (the table may be unterminated; ids only)
            ctx.cov["traces_validated_against_impl"] += 1
        if why:
            ctx.fail("compute-feats-from-kaldi-tables disagrees with its model: " + why,
                     dict(case=case, argv=args, observed=summ(obs), model=repr(ans)[:600]), kind="correspondence")


def summ(obs):
    s = dict(result=("exit %r" % obs.get("code")) if obs["kind"] == "exit" else "raises %s (%s)" % (obs.get("exc"), obs.get("msg")))
    if "stored" in obs:
        s["stored"] = [(k, list(m.shape)) for k, m in obs["stored"]]
    if "disk" in obs:
        s["files"] = [(k, list(v.shape)) for k, v in obs["disk"].items()]
        s["manifest_after"] = obs.get("manifest_after")
    return s


def same_obs(np, a, b):
    if a["kind"] != b["kind"] or a.get("code") != b.get("code") or a.get("exc") != b.get("exc"):
        return False
    if "stored" in a:
        if [k for k, _ in a["stored"]] != [k for k, _ in b["stored"]]:
            return False
        return all(x.shape == y.shape and np.array_equal(x, y, equal_nan=True) for (_, x), (_, y) in zip(a["stored"], b["stored"]))
    if sorted(a["disk"]) != sorted(b["disk"]):
        return False
    return all(a["disk"][k].shape == b["disk"][k].shape and bool((a["disk"][k] == b["disk"][k]).all() or
               np.array_equal(a["disk"][k].numpy(), b["disk"][k].numpy(), equal_nan=True)) for k in a["disk"])


def check_torch(ctx, I, ncases):
    np, torch = I.np, I.torch
    d = os.path.join(RUN, "torch")
    runs, bodies = [], []
    for idx in range(ncases):
        case = torch_gen_case(ctx, I, idx)
        if ctx.thorough and idx % 25 == 7:
            case["workers"] = 2
        sigs, lines = torch_materialise(I, case, d)
        try:
            pipe = Pipeline(I, case["computer"], case["pre"], case["post"])
        except Exception as e:
            ctx.fail("library refuses a generated configuration: %s" % e, dict(case=case), kind="impl")
            continue
        view = torch_file_view(I, case, lines)
        args = torch_args(case, d)
        obs = torch_run_tool(I, case, d, args, case["init_seed"])
        suffix = ".pt" if case["suffix"] is None else case["suffix"]
        ctx.count("torch:" + ("exc:" + obs.get("exc", "") if obs["kind"] == "exc" else "exit:%s" % obs.get("code")))
        ctx.count("torch:map:" + case["mapfmt"] + (":" + case["bad"] if case["bad"] else ""))
        ctx.count("torch:computer:" + ("none" if case["computer"] is None else case["computer"]["name"]))
        for t in obs["disk"].values():
            ctx.count("torch:stored:" + ("empty" if t.shape[0] == 0 else "1-frame" if t.shape[0] == 1 else "frames"))
        # ---- the property statement, directly (needs a seed to know the dither noise)
        if case["bad"] is None:
            exp, status = torch_direct_spec(I, case, view, pipe, case["seed"] if case["seed"] is not None else 0)
            ctx.count("torch:status:" + status)
            dithered = any(isinstance(p, I.Dither) for p in pipe.pres)
            if status == "ok":
                why = None
                want = {case["prefix"] + u + suffix: m for u, m in exp.items()}
                if obs["kind"] != "exit" or obs["code"] != 0:
                    why = "the tool did not finish: %s" % summ(obs)["result"]
                elif sorted(obs["disk"]) != sorted(want):
                    why = "files %r, expected %r" % (sorted(obs["disk"]), sorted(want))
                else:
                    for fn, m in want.items():
                        t = obs["disk"][fn]
                        if t.dtype != torch.float32:
                            why = "%s is %s, not float32" % (fn, t.dtype)
                            break
                        if dithered and case["seed"] is None:
                            ok, w = (tuple(t.shape) == m.shape, "shape %s vs %s" % (tuple(t.shape), m.shape))
                        else:
                            ok, w = close(np, t.numpy(), m, 2e-4, 2e-4, True)
                        if not ok:
                            why = "%s: %s" % (fn, w)
                            break
                    if why is None and case["manifest"] is not None:
                        wantm = case["manifest"] + [u for (u, _, _) in view if u in exp]
                        if obs["manifest_after"] != wantm:
                            why = "manifest %r, expected %r" % (obs["manifest_after"], wantm)
                if why:
                    ctx.fail("signals-to-torch-feat-dir does not store what the library pipeline computes: " + why,
                             dict(case=case, argv=args, observed=summ(obs)), kind="impl")
            elif status == "library-raises" and obs["kind"] != "exc":
                ctx.fail("the library pipeline raises on an utterance but signals-to-torch-feat-dir finished",
                         dict(case=case, argv=args, observed=summ(obs)), kind="impl")
            elif status == "channel-complaint" and not (obs["kind"] == "exc" and obs["exc"] == "ValueError"):
                # a signal that does not have the requested channel is refused with the tool's own ValueError
                ctx.fail("signals-to-torch-feat-dir: a signal without the requested channel must be refused with ValueError; got: %s"
                         % summ(obs)["result"], dict(case=case, argv=args, observed=summ(obs)), kind="impl")
        ctx.case(dict(tool="torch", computer=case["computer"], pre=case["pre"], post=case["post"], channel=case["channel"],
                      seed=case["seed"], manifest=case["manifest"], mapfmt=case["mapfmt"], bad=case["bad"],
                      utts=[(u["shape"], u["nchan"], u["n"], u["kind"]) for u in case["utts"]]),
                 nontrivial=bool(obs["disk"]))
        with open(os.path.join(d, "map")) as mf:  # text mode, universal newlines, as the tool reads it
            text_lines = list(mf)
        body, unum = torch_coq_case(case, d, text_lines, view, pipe, "t%d" % idx)
        bodies.append(body)
        runs.append((case, args, obs, view, pipe, unum))
        if case["seed"] is not None and idx % 3 == 0 and case["bad"] is None:
            obs2 = torch_run_tool(I, case, d, args, case["init_seed"] + 17)
            ctx.count("torch:seed-twice")
            if not same_obs(np, obs, obs2):
                ctx.fail("signals-to-torch-feat-dir --seed=%d: two runs differ" % case["seed"],
                         dict(case=case, argv=args, first=summ(obs), second=summ(obs2)), kind="impl")
        if idx % 4 == 1 and case["bad"] is None and case["computer"] is not None:
            base = None
            for syn in (["inline"] * 3, ["json"] * 3, ["yaml"] * 3):
                a2 = torch_args(case, d, syntax=syn, seed=case["seed"] if case["seed"] is not None else 11)
                o2 = torch_run_tool(I, case, d, a2, 5)
                ctx.count("torch:syntax-triple")
                if base is None:
                    base = (syn, a2, o2)
                elif not same_obs(np, base[2], o2):
                    ctx.fail("signals-to-torch-feat-dir: the same configuration as %s and as %s gives different output" % (base[0][0], syn[0]),
                             dict(case=case, argv_a=base[1], argv_b=a2, a=summ(base[2]), b=summ(o2)), kind="impl")
    answers = eval_cases(ctx, bodies, "torch")
    for (case, args, obs, view, pipe, unum), ans in zip(runs, answers):
        if ans is None:
            continue
        why = None
        if ans[0] == "TObsExit":
            if obs["kind"] != "exit" or obs["code"] != ans[1]:
                why = "model: exit status %d; tool: %s" % (ans[1], summ(obs)["result"])
        else:
            e = ans[1][0] if isinstance(ans[1], tuple) else ans[1]
            if not exc_matches(e, obs):
                why = "model: raises %s; tool: %s" % (e, summ(obs)["result"])
        if why is None:
            disk, mani = ans[2], ans[3]
            # later writes to the same name replace earlier ones
            want = {}
            for fn, t in disk:
                want[fn] = t
            if sorted(want) != sorted(obs["disk"]):
                why = "model: files %r; tool: %r" % (sorted(want), sorted(obs["disk"]))
            elif case["manifest"] is not None and obs["manifest_after"] != case["manifest"] + list(mani):
                why = "model: manifest gains %r; tool: manifest is %r" % (mani, obs["manifest_after"])
            elif case["seed"] is not None or not any(isinstance(p, I.Dither) for p in pipe.pres):
                sigs = {}
                for (utt, path, a) in view:
                    if path in unum and a is not None:
                        sigs[unum[path]] = a
                ev = TermEval(I, pipe, sigs, "pt", None)
                for fn, t in want.items():
                    try:
                        m = ev.f(t)
                    except Exception as e:  # noqa: BLE001
                        why = "a term of the model cannot be evaluated with the library: %s: %s" % (type(e).__name__, e)
                        break
                    ok, w = close(np, obs["disk"][fn].numpy(), m, 2e-4, 2e-4, True)
                    if not ok:
                        why = "%s vs model: %s" % (fn, w)
                        break
            if why is None:
                ctx.cov["traces_validated_against_impl"] += 1
        if why:
            ctx.fail("signals-to-torch-feat-dir disagrees with its model: " + why,
                     dict(case=case, argv=args, observed=summ(obs), model=repr(ans)[:600]), kind="correspondence")


def merged_post_tables(pipe, counts, post_ids):
    tabs = {}
    for t, tab in zip(post_ids, pipe.post_tables(counts)):
        tabs.setdefault(t, {}).update(tab)
    return tabs


def register_custom(I):
    """a pre-processor the library knows nothing about: fine for the kaldi tool, no PyTorch port"""
    if not hasattr(I, "VerifGain"):
        class VerifGain(I.PreProcessor):
            aliases = {"verif_gain"}

            def __init__(self, gain=2.0):
                self.gain = gain

            def apply(self, signal, axis=-1, in_place=False):
                return signal * self.gain

        I.VerifGain = VerifGain


K_VARIANTS = [None, None, None, "bad-syntax", "unknown-alias", "path-missing", "pre-unknown", "pre-string", "pre-number",
              "post-dict", "post-bad-args", "post-unknown", "no-table", "unwritable", "custom-pre", "pre-dict"]
T_VARIANTS = [None, None, "bad-syntax", "unknown-alias", "pre-unknown", "pre-number", "post-dict", "custom-pre", "post-unknown",
              "pre-dict"]


def apply_variant(r, variant, args, comp_pos):
    """rewrite the configuration arguments of an argument list"""
    args = [a for a in args]

    def drop(opt):
        out, skip = [], False
        for a in args:
            if skip:
                skip = False
                continue
            if a == opt:
                skip = True
                continue
            if a.startswith(opt + "="):
                continue
            out.append(a)
        return out

    if variant == "bad-syntax":
        args[comp_pos] = r.choice(["{unclosed", "[1, 2", "a: b: c"])
    elif variant == "unknown-alias":
        args[comp_pos] = r.choice(["nosuchcomputer", '{"name": "nosuch"}'])
    elif variant == "path-missing":
        args[comp_pos] = "/nonexistent/dir/computer.json"
    elif variant in ("pre-unknown", "pre-string", "pre-number", "custom-pre", "pre-dict"):
        args = drop("--preprocess")
        val = {"pre-unknown": '["nosuchpre"]', "pre-string": "dither", "pre-number": r.choice(["3", "null", "2.5"]),
               "custom-pre": r.choice(['["verif_gain"]', '[{"name": "verif_gain", "gain": 0.5}, "preemph"]']),
               "pre-dict": '{"name": "preemphasize", "coeff": 0.9}'}[variant]
        args += ["--preprocess", val]
    elif variant in ("post-dict", "post-bad-args", "post-unknown"):
        args = drop("--postprocess")
        val = {"post-dict": '{"name": "deltas", "num_deltas": 1}', "post-bad-args": '[{"name": "deltas"}]',
               "post-unknown": '[{"name": "nope"}]'}[variant]
        args += ["--postprocess=" + val]
    return args


def check_kaldi_entry(ctx, I, ncases):
    """the whole entry point, argument handling included (kaldi_main of coq/C09/Tools.v)"""
    np = I.np
    register_custom(I)
    d = os.path.join(RUN, "kaldi-entry")
    r = ctx.rng
    runs, bodies = [], []
    for idx in range(ncases):
        case = kaldi_gen_case(ctx, I, 100000 + idx)
        if isinstance(case["min_duration"], (tuple, list)):
            case["min_duration"] = None
        variant = r.choice(K_VARIANTS)
        case["variant"] = variant
        kaldi_materialise(I, case, d)
        args = apply_variant(r, variant, kaldi_args(case, d), 2)
        wav_ok, writable = True, True
        if variant == "no-table":
            args[0] = "scp:" + os.path.join(d, "missing.scp")
            wav_ok = False
        elif variant == "unwritable":
            args[1] = "ark:" + os.path.join(d, "no", "such", "dir", "feat.ark")
            writable = False
        db = CfgDB(I)
        comp_s, pre_s, post_s = cfg_args_of(args, 2)
        ct = db.arg(comp_s)
        pt = db.arg(pre_s) if pre_s is not None else "absent"
        qt = db.arg(post_s) if post_s is not None else "absent"
        parsed = ct is not None and pt is not None and qt is not None
        pipe = db.pipeline(ct, pt, qt) if parsed else None
        view = kaldi_table_view(I, d)
        obs = kaldi_run_tool(I, case, d, args, case["init_seed"])
        ctx.count("kaldi-entry:" + str(variant))
        ctx.count("kaldi-entry:" + ("exc:" + obs.get("exc", "") if obs["kind"] == "exc" else "exit:%s" % obs.get("code")))
        ctx.case(dict(tool="kaldi-entry", variant=variant, argv_cfg=[comp_s, pre_s, post_s], channel=case["channel"],
                      seed=case["seed"], utts=[(u["nchan"], u["n"], u["rate"]) for u in case["utts"]]), nontrivial=bool(obs["stored"]))
        # tables for the model
        frames, counts = [], set()
        if pipe is not None:
            for u, (k, buff, sf, dur) in enumerate(view):
                nf = pipe.frames_for_len(buff.shape[1])
                counts.add(nf)
                frames += [(u, c, nf) for c in range(buff.shape[0])]
            post_ids = [t for t in pipe.post_by_id]
            qtab = merged_post_tables(pipe, counts, [e for e in (db.elements(qt) if qt != "absent" else [])])
        else:
            qtab = {}
        tag, cobj = db.build("comp", ct) if (parsed and ct is not None) else ("none", None)
        rate = cobj.bank.sampling_rate if tag == "Built" else 1
        dbterm = db.coq(lambda t, o: "(mkSC %d %s %s true)" % (t, qlit(rate), C.zlist(frames)),
                        lambda t, o: "(mkSP %d true)" % t,
                        lambda t, o: "(mkSQ %d [%s])" % (t, "; ".join("(%d, %s)" % (a, optz(b)) for a, b in sorted(qtab.get(t, {}).items()))))
        o_ch = -1 if case["channel"] is None else case["channel"]
        mind = 0.0 if case["min_duration"] is None else case["min_duration"]
        descs = "[" + "; ".join(
            "(%d, %s, %s, %s, %s)" % (u, slit(k), C.zlist([int(buff.shape[1])] * buff.shape[0]), qlit(sf), qlit(dur))
            for u, (k, buff, sf, dur) in enumerate(view)) + "]"
        ka = "(mkKA %s %s %s (mkKO %s %s %s))" % (
            slit(comp_s), "None" if pre_s is None else "(Some %s)" % slit(pre_s),
            "None" if post_s is None else "(Some %s)" % slit(post_s), qlit(mind), C.zlist(o_ch), optz(case["seed"]))
        name = "ke%d" % idx
        bodies.append("Definition %s := kaldi_main_run %s %s %s %s.\nEval vm_compute in %s.\n" % (
            name, dbterm, ka, ("(Some %s)" % descs) if wav_ok else "None", "true" if writable else "false", name))
        np.random.seed(case["init_seed"])
        runs.append((case, args, obs, view, pipe, np.random.get_state()))
    answers = eval_cases(ctx, bodies, "kentry")
    for (case, args, obs, view, pipe, init_state), ans in zip(runs, answers):
        if ans is None:
            continue
        why = None
        ids = [k for k, _, _, _ in view]
        if ans[0] == "ObsExit":
            if obs["kind"] != "exit" or obs["code"] != ans[1]:
                why = "model: exit status %d; tool: %s" % (ans[1], summ(obs)["result"])
        elif not exc_matches(ans[1][0] if isinstance(ans[1], tuple) else ans[1], obs):
            why = "model: raises %s; tool: %s" % (ans[1], summ(obs)["result"])
        if why is None and obs["kind"] == "exit":
            if ans[2] and pipe is None:
                why = "model stores entries although a factory call fails"
            else:
                ev = TermEval(I, pipe, [b for _, b, _, _ in view], "np", init_state)
                try:
                    exp = [(ids[u], ev.f(t)) for (u, t) in ans[2]]
                    why = compare_stored(I, ctx, case, "table vs model", obs["stored"], exp, 1e-6, 1e-6, False)
                except Exception as e:  # noqa: BLE001
                    why = "a term of the model cannot be evaluated with the library: %s: %s" % (type(e).__name__, e)
        if why:
            ctx.fail("compute-feats-from-kaldi-tables (entry point) disagrees with its model: " + why,
                     dict(case=case, argv=args, observed=summ(obs), model=repr(ans)[:600]), kind="correspondence")
        else:
            ctx.cov["traces_validated_against_impl"] += 1


def check_seed_across_processes(ctx, I):
    """'with a fixed --seed two runs produce identical output' for runs that are separate interpreter processes with
    their own string-hash secret (PYTHONHASHSEED unset is Python's default), for both tools, with dither."""
    import subprocess

    np, torch = I.np, I.torch
    d = os.path.join(RUN, "seed-proc")
    os.makedirs(d, exist_ok=True)
    rs = np.random.RandomState(ctx.seed + 91)
    ids = ["utt1", "utt12", "spk-a_b", "z"]
    lines, scp = [], []
    for k, u in enumerate(ids):
        x = (rs.randn(400 + 37 * k) * 3000).astype(np.int16)
        p = os.path.join(d, "%d.npy" % k)
        np.save(p, x)
        lines.append("%s %s" % (u, p))
        import wave
        wp = os.path.join(d, "%d.wav" % k)
        with wave.open(wp, "wb") as wf:
            wf.setnchannels(1)
            wf.setsampwidth(2)
            wf.setframerate(8000)
            wf.writeframes(x.tobytes())
        scp.append("%s %s" % (u, wp))
    with open(os.path.join(d, "map"), "w") as f:
        f.write("\n".join(lines) + "\n")
    with open(os.path.join(d, "wav.scp"), "w") as f:
        f.write("\n".join(scp) + "\n")
    comp = json.dumps({"name": "stft", "bank": {"name": "fbank", "num_filts": 4, "sampling_rate": 8000}, "frame_length_ms": 10, "frame_shift_ms": 5})
    outs = {}
    for salt in ("101", "202"):
        env = dict(os.environ)
        env.update(C.impl_env())
        env["PYTHONHASHSEED"] = salt
        od = os.path.join(d, "out_" + salt)
        code = ("import sys; from pydrobert.speech import command_line as cl; "
                "cl.signals_to_torch_feat_dir([%r, %r, %r, '--preprocess', '[\"dither\"]', '--seed', '7']); "
                "cl.compute_feats_from_kaldi_tables(['scp:%s', 'ark:%s', %r, '--preprocess', '[\"dither\"]', '--seed', '7'])"
                % (os.path.join(d, "map"), comp, od, os.path.join(d, "wav.scp"), os.path.join(d, "feats_%s.ark" % salt), comp))
        p = subprocess.run([C.PY, "-c", code], env=env, stdout=subprocess.PIPE, stderr=subprocess.STDOUT, text=True, timeout=300)
        if p.returncode:
            ctx.fail("a tool failed in a fresh interpreter (PYTHONHASHSEED=%s)" % salt, dict(output=p.stdout[-800:]), kind="impl")
            return
        feats = {}
        for u in ids:
            feats["torch:" + u] = torch.load(os.path.join(od, u + ".pt")).numpy().tobytes()
        feats["kaldi"] = open(os.path.join(d, "feats_%s.ark" % salt), "rb").read()
        outs[salt] = feats
    ctx.count("seed-across-processes")
    ctx.case(dict(kind="seed-across-processes", ids=ids), nontrivial=True)
    diff = sorted(k for k in outs["101"] if outs["101"][k] != outs["202"][k])
    if diff:
        ctx.fail("with the same --seed two runs in separate interpreter processes (different string-hash secrets) store different output",
                 dict(differing=diff, ids=ids, seed=7, preprocess=["dither"], PYTHONHASHSEED=["101", "202"]), kind="impl")


def check_torch_entry(ctx, I, ncases):
    """the whole entry point, argument handling included (torch_main of coq/C09/Tools.v)"""
    np, torch = I.np, I.torch
    register_custom(I)
    from pydrobert.speech.pre import Preemphasize

    d = os.path.join(RUN, "torch-entry")
    r = ctx.rng
    runs, bodies = [], []
    for idx in range(ncases):
        case = torch_gen_case(ctx, I, 100000 + idx)
        case["bad"] = case["bad"] if r.random() < 0.5 else None
        variant = r.choice(T_VARIANTS) if case["computer"] is not None else r.choice([None, "pre-unknown", "custom-pre", "post-dict"])
        case["variant"] = variant
        sigs, lines = torch_materialise(I, case, d)
        comp_pos = 1 if case["computer"] is not None else None
        args = torch_args(case, d)
        if variant in ("bad-syntax", "unknown-alias") and comp_pos is None:
            variant = case["variant"] = None
        args = apply_variant(r, variant, args, comp_pos if comp_pos is not None else 0)
        db = CfgDB(I)
        comp_s, pre_s, post_s = cfg_args_of(args, comp_pos)
        ct = db.arg(comp_s) if comp_s is not None else "absent"
        pt = db.arg(pre_s) if pre_s is not None else "absent"
        qt = db.arg(post_s) if post_s is not None else "absent"
        parsed = ct is not None and pt is not None and qt is not None
        pipe = db.pipeline(None if ct == "absent" else ct, pt, qt, no_comp=(ct == "absent")) if parsed else None
        view = torch_file_view(I, case, lines)
        np.random.seed(case["init_seed"])
        fresh = int(np.random.randint(np.iinfo(np.int32).max))
        obs = torch_run_tool(I, case, d, args, case["init_seed"])
        ctx.count("torch-entry:" + str(variant))
        ctx.count("torch-entry:" + ("exc:" + obs.get("exc", "") if obs["kind"] == "exc" else "exit:%s" % obs.get("code")))
        ctx.case(dict(tool="torch-entry", variant=variant, argv_cfg=[comp_s, pre_s, post_s], channel=case["channel"], seed=case["seed"],
                      manifest=case["manifest"], bad=case["bad"], utts=[(u["shape"], u["nchan"], u["n"], u["kind"]) for u in case["utts"]]),
                 nontrivial=bool(obs["disk"]))
        frames, counts, files, seen, unum = [], set(), [], set(), {}
        for (utt, path, a) in view:
            if path in seen:
                continue
            seen.add(path)
            u = unum.setdefault(path, len(unum))
            if a is None:
                files.append("(%s, (%d, None))" % (slit(path), u))
                continue
            n = a.shape[0] if a.ndim == 1 else a.shape[1]
            nf = pipe.frames_for_len(n) if pipe is not None else 0
            counts.add(nf)
            if a.ndim == 1:
                frames.append((u, -1, nf))
                files.append("(%s, (%d, Some (inl %d)))" % (slit(path), u, n))
            else:
                frames += [(u, c, nf) for c in range(a.shape[0])]
                files.append("(%s, (%d, Some (inr (%d, %d))))" % (slit(path), u, a.shape[0], n))
        qtab = merged_post_tables(pipe, counts, [e for e in (db.elements(qt) if qt != "absent" else [])]) if pipe is not None else {}
        dbterm = db.coq(lambda t, o: "(mkSC %d (1 # 1) %s true)" % (t, C.zlist(frames)),
                        lambda t, o: "(mkSP %d %s)" % (t, "true" if isinstance(o, (I.Dither, Preemphasize)) else "false"),
                        lambda t, o: "(mkSQ %d [%s])" % (t, "; ".join("(%d, %s)" % (a, optz(b)) for a, b in sorted(qtab.get(t, {}).items()))))
        with open(os.path.join(d, "map")) as mf:
            text_lines = list(mf)
        o_ch = -1 if case["channel"] is None else case["channel"]
        mani = "None" if case["manifest"] is None else "(Some [%s])" % "; ".join(slit(x + "\n") for x in case["manifest"])
        ta = "(mkTA [%s] %s %s %s %s %s %s %s %s)" % (
            "; ".join(slit(x) for x in text_lines),
            "None" if comp_s is None else "(Some %s)" % slit(comp_s),
            "None" if pre_s is None else "(Some %s)" % slit(pre_s),
            "None" if post_s is None else "(Some %s)" % slit(post_s),
            C.zlist(o_ch), optz(case["seed"]), slit(case["prefix"]), slit(".pt" if case["suffix"] is None else case["suffix"]), mani)
        name = "te%d" % idx
        bodies.append("Definition %s := torch_main_run %s %s %s [%s].\nEval vm_compute in %s.\n" % (
            name, dbterm, ta, C.zlist(fresh), "; ".join(files), name))
        runs.append((case, args, obs, view, pipe, unum))
    answers = eval_cases(ctx, bodies, "tentry")
    for (case, args, obs, view, pipe, unum), ans in zip(runs, answers):
        if ans is None:
            continue
        why = None
        if ans[0] == "TObsExit":
            if obs["kind"] != "exit" or obs["code"] != ans[1]:
                why = "model: exit status %d; tool: %s" % (ans[1], summ(obs)["result"])
        else:
            e = ans[1][0] if isinstance(ans[1], tuple) else ans[1]
            if not exc_matches(e, obs):
                why = "model: raises %s; tool: %s" % (e, summ(obs)["result"])
        if why is None:
            want = {}
            for fn, t in ans[2]:
                want[fn] = t
            if sorted(want) != sorted(obs["disk"]):
                why = "model: files %r; tool: %r" % (sorted(want), sorted(obs["disk"]))
            elif case["manifest"] is not None and obs["manifest_after"] != case["manifest"] + list(ans[3]):
                why = "model: manifest gains %r; tool: manifest is %r" % (ans[3], obs["manifest_after"])
            elif want:
                sigs = {unum[path]: a for (utt, path, a) in view if path in unum and a is not None}
                ev = TermEval(I, pipe, sigs, "pt", None)
                for fn, t in want.items():
                    try:
                        m = ev.f(t)
                    except Exception as e:  # noqa: BLE001
                        why = "a term of the model cannot be evaluated with the library: %s: %s" % (type(e).__name__, e)
                        break
                    ok, w = close(np, obs["disk"][fn].numpy(), m, 2e-4, 2e-4, True)
                    if not ok:
                        why = "%s vs model: %s" % (fn, w)
                        break
        if why:
            ctx.fail("signals-to-torch-feat-dir (entry point) disagrees with its model: " + why,
                     dict(case=case, argv=args, observed=summ(obs), model=repr(ans)[:600]), kind="correspondence")
        else:
            ctx.cov["traces_validated_against_impl"] += 1


def check_plans(ctx, I, n):
    """STFT framing: generated np_stft_plan / pt_stft_plan vs the frame counts of
    compute_full and of the PyTorch port; includes the two regression inputs
    (causal short signal; frameless utterance with a post-processor)."""
    np, torch = I.np, I.torch
    from pydrobert.speech.torch import PyTorchSTFTFrameComputer

    r = ctx.rng
    rows, cases = [], []
    cfgs = []
    for style, kaldi in (("causal", False), ("centered", False), ("centered", True)):
        for (Lms, Sms) in ((25, 10), (5, 1), (5.125, 2), (3, 3), (2.5, 0.5), (5, 1.125), (5.125, 1.125)):  # all parities of (L, S)
            cfgs.append((style, kaldi, Lms, Sms))
        if not kaldi:
            # frames shorter than the shift: the tail of a signal can hold a whole frame beyond the (N + S//2)//S computed
            cfgs += [(style, kaldi, 4, 10), (style, kaldi, 2.5, 7.125)]
    per = max(8, n // len(cfgs))
    for (style, kaldi, Lms, Sms) in cfgs:
        cfg = {"name": "stft", "bank": {"name": "fbank", "num_filts": 3, "sampling_rate": 8000},
               "frame_length_ms": Lms, "frame_shift_ms": Sms, "frame_style": style, "kaldi_shift": kaldi}
        comp = I.mk(I.FrameComputer, cfg)
        pt = PyTorchSTFTFrameComputer.from_stft_frame_computer(comp)
        L, S = comp.frame_length, comp.frame_shift
        ns = {0, 1, L // 2 - 1, L // 2, L // 2 + 1, (L + 1) // 2, L - 1, L, L + 1, (3 * L) // 5, (3 * L) // 5 + 1, 2 * L}
        top = 3 * L if S <= L else 3 * S + L
        if S > L:
            ns |= {2 * S + L // 2 + 1, 2 * S + L, S + (S + 1) // 2 - 1, S + L, (S + 1) // 2 - 1, (S + 1) // 2}
        while len(ns) < min(per, top):
            ns.add(r.randint(0, top))
        for N in sorted(ns):
            if N < 0:
                continue
            x = np.random.RandomState(N).randn(N) * 100
            a = comp.compute_full(x)
            try:
                with torch.no_grad():
                    b = pt(torch.from_numpy(x)).numpy()
                bn = b.shape[0]
            except Exception as e:  # noqa: BLE001
                b, bn = None, -2
                ctx.fail("PyTorch STFT port raises on a signal the NumPy computer accepts: %s: %s" % (type(e).__name__, str(e)[:80]),
                         dict(frame_length=L, frame_shift=S, frame_style=style, kaldi_shift=kaldi, samples=N, config=cfg),
                         kind="impl", key="torch-stft-causal-short-pad" if style == "causal" else None)
            if b is not None:
                ok, w = close(np, b, a, 2e-4, 2e-4, True)
                if not ok:
                    ctx.fail("PyTorch STFT port differs from compute_full: " + w,
                             dict(frame_length=L, frame_shift=S, frame_style=style, kaldi_shift=kaldi, samples=N, config=cfg), kind="impl")
            rows.append((L, S, style == "causal", kaldi, N, int(a.shape[0]), bn))
            ctx.count("plan:" + style + (":kaldi" if kaldi else ""))
            ctx.case(dict(plan=(L, S, style, kaldi, N)), nontrivial=True)
    body = "Definition fr (o : option (Z * Z * Z)) : Z := match o with None => 0 | Some (n, _, _) => n end.\n"
    body += "Definition rows := %s.\n" % C.zlist([(a, b, c, d, e, f, g) for (a, b, c, d, e, f, g) in rows])
    body += ("Eval vm_compute in (map (fun '(fl, fs, c, k, n, a, b) => (fr (np_stft_plan fl fs c k n), fr (pt_stft_plan fl fs (negb c) k n))) rows).\n")
    if not getattr(ctx, "can_eval", True):
        return
    ans, log = C.coq_eval(ctx, "plans_%d" % os.getpid(), body, REQ)
    if ans is None:
        ctx.fail("generated STFT framing definitions could not be evaluated", dict(correspondence="gen/CmdLine.v np_stft_plan", log_tail=log[-1200:]),
                 kind="correspondence", no_input=True)
        return
    got = C.parse_coq(ans[0])
    for (L, S, c, k, N, a, b), (ma, mb) in zip(rows, got):
        if ma != a or (b >= 0 and mb != b):
            ctx.fail("frame count: model (numpy %d, torch %d) vs implementation (numpy %d, torch %d)" % (ma, mb, a, b),
                     dict(frame_length=L, frame_shift=S, causal=c, kaldi_shift=k, samples=N), kind="correspondence")
        else:
            ctx.cov["traces_validated_against_impl"] += 1


def check_regressions(ctx, I):
    """the two defects found while building this check (fixed in 57763aa, 85d1ba6)"""
    np = I.np
    d = os.path.join(RUN, "regress")
    base = {"name": "stft", "bank": {"name": "fbank", "num_filts": 10, "low_hz": 20, "high_hz": 4000, "sampling_rate": 8000},
            "frame_length_ms": 25, "frame_shift_ms": 10}
    for key, cfg, lens, extra in (
        ("torch-tool-post-on-empty", base, [1000, 50, 1000], ["--postprocess", '["cmvn"]']),
        ("torch-stft-causal-short-pad", dict(base, frame_style="causal"), [1000, 125, 139, 1000], []),
    ):
        shutil.rmtree(d, ignore_errors=True)
        os.makedirs(d)
        with open(os.path.join(d, "map"), "w") as f:
            for i, n in enumerate(lens):
                np.save(os.path.join(d, "u%d.npy" % i), (np.arange(n) % 37 - 18).astype(np.float64))
                f.write("u%d %s/u%d.npy\n" % (i, d, i))
        args = [os.path.join(d, "map"), json.dumps(cfg), os.path.join(d, "out")] + extra
        with quiet():
            try:
                res = ("exit", I.cl.signals_to_torch_feat_dir(args))
            except Exception as e:  # noqa: BLE001
                res = ("raises", "%s: %s" % (type(e).__name__, str(e)[:100]))
        have = sorted(os.listdir(os.path.join(d, "out"))) if os.path.isdir(os.path.join(d, "out")) else []
        ctx.count("regression:" + key)
        ctx.case(dict(regression=key, lens=lens), nontrivial=True)
        if res != ("exit", 0) or have != sorted("u%d.pt" % i for i in range(len(lens))):
            ctx.fail("signals-to-torch-feat-dir: %s, files %r (every utterance must be stored)" % (res, have),
                     dict(argv=args, samples=lens, config=cfg), kind="impl", key=key)


def cleanup_stale():
    """scratch of earlier runs of this check whose process is gone (a failing run keeps its files)"""
    import re

    for fn in os.listdir(BD):
        m = re.match(r"run-(\d+)$", fn) or re.match(r"[a-z]+_(\d+)(?:_\d+)?\.(?:v|vo|vok|vos|glob)$", fn)
        if m and not os.path.exists("/proc/%s" % m.group(1)):
            path = os.path.join(BD, fn)
            if os.path.isdir(path):
                shutil.rmtree(path, ignore_errors=True)
            else:
                try:
                    os.remove(path)
                except OSError:
                    pass


def run(ctx):
    os.makedirs(BD, exist_ok=True)
    cleanup_stale()
    I = Impl()
    ok_gen = regenerate(ctx)
    pr = C.proof_step(ctx) if ok_gen else None
    ctx.cov["trusted_base"].append("translator /verif/gen/cmdline.py (Python ast -> Gallina for the tools' per-utterance code)")
    ctx.cov["trusted_base"].append("hand-written entry points coq/C09/Tools.v and symbolic library coq/C09/Sym.v (tied by the correspondence)")
    ctx.cov["rule"] = (
        "one case = one in-process run of a real entry point on generated wave files / signal maps (lengths at the "
        "no-frame limit, multi-channel, wrong rate, --min-duration at the boundary, manifest, malformed map lines, "
        "inline/JSON/YAML configs, seeds incl. 0); compared: exit status or exception, ids and order / file names, "
        "manifest, dtype, shape, values (1e-6 kaldi, 2e-4 torch) against (a) the terms the Coq model stores, evaluated "
        "with the library, (b) the property statement in Python; non-trivial = at least one matrix was stored; "
        "plus STFT frame counts of compute_full and the PyTorch port against the generated framing definitions")
    can_eval = False
    if ok_gen:
        regenerate(ctx) if not os.path.exists(os.path.join(C.COQ, "gen", "CmdLine.v")) else None
        ok, out = C.coq_make(["C09/Sym.v"])
        if not ok:
            ctx.fail("the generated model no longer compiles with the entry points", dict(correspondence="coq/C09/Sym.v", log_tail=out[-1500:]),
                     kind="tie", no_input=True)
        else:
            can_eval = True
    ctx.can_eval = can_eval
    check_regressions(ctx, I)
    check_plans(ctx, I, ctx.scale(300, 3000))
    ctx.log("framing plans compared")
    check_kaldi(ctx, I, ctx.scale(100, 1000))
    ctx.log("compute-feats-from-kaldi-tables: loop cases done")
    check_torch(ctx, I, ctx.scale(100, 1000))
    ctx.log("signals-to-torch-feat-dir: loop cases done")
    check_kaldi_entry(ctx, I, ctx.scale(45, 450))
    check_torch_entry(ctx, I, ctx.scale(45, 450))
    check_seed_across_processes(ctx, I)
    ctx.log("entry-point cases done")
    if pr is not None and not pr["ok"] and not [f for f in ctx.failures if not f["no_input"]]:
        ctx.log("search found no failing input on the implementation")
    ctx.assumptions += [
        "the library's objects are functions of their arguments and the generator state (C04); their values are other properties' subject",
        "float rounding is not modelled: values are compared to 1e-6 (kaldi tool: same float64 code path) / 2e-4 (torch tool: float32 filters and window)",
        "argparse, the alias factories, the YAML/JSON loaders, Kaldi table I/O, torch.save/load and DataLoader are parameters of the model, exercised only by the correspondence",
        "PyTorchDither is compared with the library's Dither fed from torch's generator (same seed), since the two noise sources differ",
    ]
    rc = C.finish(ctx, "proof")
    if rc == 0:  # keep the scratch files of a failing run for inspection
        shutil.rmtree(RUN, ignore_errors=True)
        for fn in os.listdir(BD):
            if ("_%d_" % os.getpid()) in fn or fn.startswith("plans_%d." % os.getpid()):
                try:
                    os.remove(os.path.join(BD, fn))
                except OSError:
                    pass
    return rc


def replay(ctx, rp):
    """re-run the recorded case on the implementation and print what is observed"""
    I = Impl()
    f = rp.get("failure", {}).get("replay", {})
    case = f.get("case")
    print(json.dumps(rp.get("failure", {}).get("what"), indent=1))
    if not case or "tool" not in case:
        print(json.dumps(f, indent=1, default=str)[:3000])
        return 0
    d = os.path.join(RUN, "replay")
    if case["tool"] == "kaldi":
        kaldi_materialise(I, case, d)
        args = kaldi_args(case, d)
        obs = kaldi_run_tool(I, case, d, args, case["init_seed"])
        pipe = Pipeline(I, case["computer"], case["pre"], case["post"])
        exp, status = kaldi_direct_spec(I, case, kaldi_table_view(I, d), pipe)
        print("argv:", args)
        print("observed:", json.dumps(summ(obs), default=str))
        print("library pipeline (%s):" % status, [(k, list(m.shape)) for k, m in exp])
        why = compare_stored(I, ctx, case, "table", obs["stored"], exp, 1e-6, 1e-6, False) if obs["kind"] == "exit" else "raised"
    else:
        sigs, lines = torch_materialise(I, case, d)
        args = torch_args(case, d)
        obs = torch_run_tool(I, case, d, args, case["init_seed"])
        pipe = Pipeline(I, case["computer"], case["pre"], case["post"])
        exp, status = torch_direct_spec(I, case, torch_file_view(I, case, lines), pipe, case["seed"] or 0)
        print("argv:", args)
        print("observed:", json.dumps(summ(obs), default=str))
        print("library pipeline (%s):" % status, [(k, list(m.shape)) for k, m in exp.items()])
        why = None
        if status == "ok":
            suffix = ".pt" if case["suffix"] is None else case["suffix"]
            want = {case["prefix"] + u + suffix: m for u, m in exp.items()}
            if obs["kind"] != "exit" or obs["code"] != 0:
                why = "the tool did not finish: %s" % summ(obs)["result"]
            elif sorted(want) != sorted(obs["disk"]):
                why = "files %r, expected %r" % (sorted(obs["disk"]), sorted(want))
            elif case["seed"] is not None or not any(isinstance(p, I.Dither) for p in pipe.pres):
                for fn, m in want.items():
                    ok, w = close(I.np, obs["disk"][fn].numpy(), m, 2e-4, 2e-4, True)
                    if not ok:
                        why = "%s: %s" % (fn, w)
                        break
        elif status == "channel-complaint" and not (obs["kind"] == "exc" and obs["exc"] == "ValueError"):
            why = "expected the tool's ValueError, got %s" % summ(obs)["result"]
    print("verdict:", why or "agrees")
    return 1 if why else 0
