"""C10 - signals-to-torch-feat-dir survives kill/resume and parallelism unchanged.

Proof: coq/C10 (crash-state machine; theorems over every history of kills of
every schedule).  Tie: (1) gen/c10tool.py regenerates coq/gen/C10Tool.v (the
shape of the tool: loop order, flush, seeding, append mode, re-seeding) from
command_line.py and ``tool_ok`` is re-checked; (2) correspondence: the REAL tool
is run in driver processes that wrap ``torch.save``, the manifest file object
and ``__getitem__`` to count operations and to SIGKILL / interrupt themselves at
the k-th operation (a torn file is left for mid-write points); directory,
manifest and operation trace after every invocation are compared with the
model evaluated in Coq.  Search: the property itself stated on the files
(bytes against an uninterrupted run, manifest vs. completed files, nothing
listed is recomputed or rewritten, worker count irrelevant).

This module is also the driver: ``python -m harness.c10 serve|once``.
"""

import json
import os
import shutil
import signal
import subprocess
import sys
import threading
import time

from . import common as C

BIG = 10000  # kill point beyond every schedule = run to completion
SCRATCH = os.path.join(C.BUILD, "C10", "run")

# ===========================================================================
# driver side (runs inside the implementation's interpreter)
# ===========================================================================


def _install(job):
    """Wrap the tool's I/O so that it dies right after its ``kill_at``-th operation."""
    import argparse

    import torch
    import pydrobert.speech.command_line as cl

    main_pid = os.getpid()
    kill_at = job["kill_at"]
    hard = job["hard"]
    workers = job["workers"]
    fd = os.open(job["evlog"], os.O_WRONLY | os.O_CREAT | os.O_APPEND, 0o644)
    cnt = [0]
    prefix, suffix = job["prefix"], job["suffix"]

    def die():
        if hard:
            os.kill(os.getpid(), signal.SIGKILL)
            time.sleep(30)
        os.kill(os.getpid(), signal.SIGINT)
        for _ in range(2000):
            time.sleep(0.001)
        raise KeyboardInterrupt

    def event(code, utt):
        mine = os.getpid() == main_pid
        os.write(fd, ("%s %d %s\n" % (code, 1 if mine else 0, utt)).encode())
        if not mine:
            return
        cnt[0] += 1
        if cnt[0] == kill_at:
            die()

    real_save = torch.save

    def utt_of(path):
        b = os.path.basename(str(path))
        if b.startswith(prefix):
            b = b[len(prefix):]
        if suffix and b.endswith(suffix):
            b = b[: -len(suffix)]
        return b

    def save(obj, f, *a, **kw):
        utt = utt_of(f)
        if cnt[0] + 1 == kill_at and isinstance(f, (str, os.PathLike)):
            # mid-write kill point: leave a torn file (a strict prefix of the real bytes)
            os.makedirs(job["tmpdir"], exist_ok=True)
            tmp = os.path.join(job["tmpdir"], os.path.basename(f))
            real_save(obj, tmp, *a, **kw)
            data = open(tmp, "rb").read()
            os.unlink(tmp)
            cut = min(int(job["cut"] * len(data)), len(data) - 1)
            with open(f, "wb") as fo:
                fo.write(data[:cut])
        event("B", utt)
        real_save(obj, f, *a, **kw)
        event("E", utt)

    torch.save = save

    class MProxy(object):
        def __init__(self, f):
            self._f = f
            self._line = ""

        def write(self, s):
            r = self._f.write(s)
            self._line += s
            while "\n" in self._line:
                line, self._line = self._line.split("\n", 1)
                event("W", line)
            return r

        def flush(self):
            self._f.flush()
            event("F", "")

        def __iter__(self):
            return iter(self._f)

        def __getattr__(self, name):
            return getattr(self._f, name)

    real_call = argparse.FileType.__call__
    mpath = os.path.abspath(job["manifest"])

    def call(self, string):
        f = real_call(self, string)
        if isinstance(string, str) and os.path.abspath(string) == mpath:
            if kill_at == 0:
                die()
            return MProxy(f)
        return f

    argparse.FileType.__call__ = call

    ds = cl._FeatureProcessorDataset
    real_getitem = ds.__getitem__

    def getitem(self, idx):
        r = real_getitem(self, idx)
        event("C", r[0])
        return r

    ds.__getitem__ = getitem
    return cl


def _child(job, fast=False):
    """Run the tool once under the wrappers and leave the interpreter the normal way.

    ``fast`` (fork-server mode): interpreter finalisation with torch loaded costs
    0.6 s, so the exit is emulated: drop what the tool's frames referenced, collect
    0.6 s, so the exit is emulated: every file object the run opened through
    ``open`` and that is still open is flushed (what function return /
    finalisation does to them), then ``_exit``.  A sample of histories is re-run in fresh interpreters that
    exit the real way (``once`` mode) to validate the emulation."""
    try:
        os.setsid()
    except OSError:
        pass  # already a session leader (fresh-interpreter mode)
    log = os.open(job["log"], os.O_WRONLY | os.O_CREAT | os.O_TRUNC, 0o644)
    sys.stdout.flush()
    os.dup2(log, 1)
    os.dup2(log, 2)
    opened = []
    if fast:
        import builtins
        import io

        real_open = builtins.open

        def rec_open(*a, **kw):
            f = real_open(*a, **kw)
            opened.append(f)
            return f

        builtins.open = io.open = rec_open
    cl = _install(job)
    rc = 97
    try:
        rc = cl.signals_to_torch_feat_dir(job["args"])
    except KeyboardInterrupt:
        rc = 130
    except BaseException:  # noqa: B902 - whatever the tool raises ends the process, as on the command line
        import traceback

        traceback.print_exc()
        rc = 1
    if fast:
        for o in opened:
            try:
                if not o.closed:
                    o.flush()
            except Exception:
                pass
        os._exit(rc or 0)
    sys.exit(rc or 0)


def _serve():
    C.ensure_impl_path()
    import torch  # noqa: F401 - warm import; children are forked from here
    import pydrobert.speech.command_line  # noqa: F401

    out = os.fdopen(os.dup(1), "w")
    for line in sys.stdin:
        job = json.loads(line)
        sys.stdout.flush()
        sys.stderr.flush()
        pid = os.fork()
        if pid == 0:
            out.close()
            _child(job, fast=True)
            os._exit(98)
        _, status = os.waitpid(pid, 0)
        try:
            os.killpg(pid, signal.SIGKILL)
        except (ProcessLookupError, PermissionError):
            pass
        if os.WIFSIGNALED(status):
            st = "signal %d" % os.WTERMSIG(status)
        else:
            st = "exit %d" % os.WEXITSTATUS(status)
        out.write(json.dumps(dict(status=st)) + "\n")
        out.flush()


def _once(path):
    C.ensure_impl_path()
    _child(json.load(open(path)))


# ===========================================================================
# harness side
# ===========================================================================


class Server:
    _count = 0

    def __init__(self):
        env = dict(os.environ)
        env.update(C.impl_env())
        env["PYTHONPATH"] = os.path.join(C.REPO, "src")
        # every driver process has its own string-hash secret, as separate invocations of the tool have
        # (PYTHONHASHSEED unset): reference runs, interrupted runs and resumptions of one world are spread over
        # several of them, so nothing stored may depend on hash() of a string or on set iteration order
        Server._count += 1
        env["PYTHONHASHSEED"] = str(1000 + 37 * Server._count)
        self.p = subprocess.Popen(
            [C.PY, "-m", "harness.c10", "serve"], cwd=C.ROOT, env=env,
            stdin=subprocess.PIPE, stdout=subprocess.PIPE, text=True, bufsize=1,
        )

    def run(self, job):
        self.p.stdin.write(json.dumps(job) + "\n")
        self.p.stdin.flush()
        line = self.p.stdout.readline()
        if not line:
            raise RuntimeError("driver server died (see %s)" % job.get("log"))
        return json.loads(line)["status"]

    def close(self):
        try:
            self.p.stdin.close()
            self.p.wait(timeout=20)
        except Exception:
            self.p.kill()


def run_fresh(job):
    """Same job in a brand-new interpreter (no fork server)."""
    env = dict(os.environ)
    env.update(C.impl_env())
    env["PYTHONPATH"] = os.path.join(C.REPO, "src")
    env["PYTHONHASHSEED"] = "random"  # as an ordinary invocation of the tool
    jp = job["evlog"] + ".job.json"
    json.dump(job, open(jp, "w"))
    p = subprocess.Popen([C.PY, "-m", "harness.c10", "once", jp], cwd=C.ROOT, env=env, start_new_session=True)
    p.wait(timeout=300)
    try:
        os.killpg(p.pid, signal.SIGKILL)
    except (ProcessLookupError, PermissionError):
        pass
    return "signal %d" % (-p.returncode) if p.returncode < 0 else "exit %d" % p.returncode


# ----------------------------------------------------------------- worlds
ID_POOL = ["utt1", "utt12", "utt2", "a", "A", "x-y", "z.w", "0", "u_3", "utt", "1utt", "b+c", "Q", "utt21"]

CONFIGS = {
    # name: (computer json or None, preprocess json, postprocess json or None)
    "raw_dither": (None, '["dither"]', None),
    "raw_dither_preemph": (None, '[{"name": "dither", "coeff": 2.5}, "preemphasize"]', None),
    "stft_dither": (
        '{"name": "stft", "bank": {"name": "fbank", "num_filts": 5, "sampling_rate": 8000}, '
        '"frame_length_ms": 10, "frame_shift_ms": 5}',
        '["dither"]',
        None,
    ),
    "stft_dither_deltas": (
        '{"name": "stft", "bank": {"name": "fbank", "num_filts": 4, "sampling_rate": 8000}, '
        '"frame_length_ms": 8, "frame_shift_ms": 4, "include_energy": true}',
        '["preemphasize", {"name": "dither", "coeff": 0.5}]',
        '[{"name": "deltas", "num_deltas": 1}]',
    ),
    # half of the recordings of a world with this configuration are digitally silent: their features sit on the log floor,
    # every coefficient has zero variance and the per-utterance standardisation replaces it with 1 - for each of them,
    # whichever process handles it and whatever that process handled before
    "stft_cmvn_muted": (
        '{"name": "stft", "bank": {"name": "fbank", "num_filts": 4, "sampling_rate": 8000}, '
        '"frame_length_ms": 10, "frame_shift_ms": 5}',
        '[]',
        '["cmvn"]',
    ),
    # frames stacked three by three, the incomplete last run padded with the mode's default fill value
    "stft_stack_pad": (
        '{"name": "stft", "bank": {"name": "fbank", "num_filts": 4, "sampling_rate": 8000}, '
        '"frame_length_ms": 10, "frame_shift_ms": 5, "use_log": false}',
        '["dither"]',
        '[{"name": "stack", "num_vectors": 3, "pad_mode": "constant"}]',
    ),
    "si_dither": (
        '{"name": "si", "bank": {"name": "gabor", "scaling_function": "mel", "num_filts": 3, '
        '"sampling_rate": 8000}, "frame_shift_ms": 5}',
        '["dither"]',
        None,
    ),
}


def make_world(rng, wid, n, config=None, ids=None, short_at=None):
    ids = ids or rng.sample(ID_POOL, n)
    w = _make_world(rng, wid, n, config, ids)
    if w["config"] == "stft_stack_pad":
        # frame counts 13, 8, 11, 7, ...: every utterance ends with an incomplete run of three frames
        w["lens"] = [40 * f for f in (13, 8, 11, 7, 10, 14, 16, 5)][: len(w["lens"])]
    if w["config"] == "stft_cmvn_muted":
        w["lens"] = [max(ln, 150) for ln in w["lens"]]  # every recording yields frames (the muted ones too)
    if short_at is not None and short_at < len(ids):
        w["lens"][short_at] = rng.choice([1, 7, 19])  # certainly an utterance without frames ...
        if short_at + 1 < len(ids):
            w["lens"][short_at + 1] = rng.randint(150, 500)  # ... followed by one with frames
    return w


def _make_world(rng, wid, n, config, ids):
    return dict(
        wid=wid,
        ids=ids,
        # one utterance in five is too short to yield a frame (its file is an empty matrix; it must not leak into
        # the features of the utterance the same process handles next)
        lens=[rng.choice([1, 7, 19]) if rng.random() < 0.2 else rng.randint(150, 500) for _ in ids],
        fmts=[rng.choice(["npy", "npy", "pt", "wav"]) for _ in ids],
        sigseed=rng.randint(0, 10**6),
        seed=rng.randint(20, 10**6),
        config=config or rng.choice(sorted(CONFIGS)),
        prefix=rng.choice(["", "", "f_"]),
        suffix=rng.choice([".pt", ".pt", ".feat"]),
    )


# ids that END in a whitespace character other than " " (possible: the map is
# split on " " only).  Model encoding: minus the label of the stripped id.
WS_IDS = ["a\t", "utt1\t"]


def label(world, utt):
    if utt in ID_POOL:
        return ID_POOL.index(utt) + 1
    if utt in WS_IDS and utt.strip() in ID_POOL:
        return -(ID_POOL.index(utt.strip()) + 1)
    return -1000


def utt_of_label(world, lab):
    for u in world["ids"]:
        if label(world, u) == lab:
            return u
    raise KeyError(lab)


def world_dir(world):
    return os.path.join(SCRATCH, "w%s" % world["wid"])


def build_world(world):
    import numpy as np
    import torch
    import wave

    d = world_dir(world)
    shutil.rmtree(d, ignore_errors=True)
    os.makedirs(os.path.join(d, "raw"))
    rs = np.random.RandomState(world["sigseed"])
    paths = []
    for i, (u, ln, fmt) in enumerate(zip(world["ids"], world["lens"], world["fmts"])):
        sig = rs.randint(-2000, 2000, size=ln).astype(np.float32)
        if world["config"] == "stft_cmvn_muted" and i % 2 == 0:
            sig[:] = 0.0
        p = os.path.join(d, "raw", "%d.%s" % (i, fmt))
        if fmt == "npy":
            np.save(p, sig)
        elif fmt == "pt":
            torch.save(torch.from_numpy(sig), p)
        else:
            wv = wave.open(p, "wb")
            wv.setnchannels(1)
            wv.setsampwidth(2)
            wv.setframerate(8000)
            wv.writeframes(sig.astype(np.int16).tobytes())
            wv.close()
        paths.append(p)
    world["_paths"] = paths
    return d


def tool_args(world, mapfile, out, manifest, seed, workers):
    comp, pre, post = CONFIGS[world["config"]]
    a = [mapfile]
    if comp is not None:
        a.append(comp)
    a += [out, "--seed=%d" % seed, "--preprocess=" + pre]
    if post is not None:
        a.append("--postprocess=" + post)
    a += ["--file-prefix=" + world["prefix"], "--file-suffix=" + world["suffix"],
          "--num-workers=%d" % workers, "--manifest=" + manifest]
    return a


def write_map(world, mapfile, paths, rng_blank=0):
    with open(mapfile, "w") as f:
        for k, (u, p) in enumerate(zip(world["ids"], paths)):
            if rng_blank and k == 1:
                f.write("\n")  # blank lines are skipped by the tool
            f.write("%s %s\n" % (u, p))


def fname(world, u):
    return world["prefix"] + u + world["suffix"]


def job_for(world, base, mapfile, seed, kill_at, hard, workers, cut, tag):
    out = base + ".out"
    return dict(
        args=tool_args(world, mapfile, out, base + ".manifest", seed, workers),
        kill_at=kill_at, hard=bool(hard), workers=workers, cut=cut,
        evlog=base + ".%s.ev" % tag, log=base + ".%s.log" % tag, tmpdir=base + ".tmp",
        manifest=base + ".manifest", prefix=world["prefix"], suffix=world["suffix"],
    )


def read_dir(world, out):
    res = {}
    if os.path.isdir(out):
        for f in sorted(os.listdir(out)):
            res[f] = open(os.path.join(out, f), "rb").read()
    return res


def read_manifest(base):
    p = base + ".manifest"
    return open(p).read() if os.path.exists(p) else ""


def parse_events(path):
    ev = []
    if os.path.exists(path):
        for line in open(path):
            parts = line.rstrip("\n").split(" ", 2)
            if len(parts) == 3:
                ev.append((parts[0], parts[1] == "1", parts[2]))
    return ev


CODE = {"C": 0, "B": 1, "E": 2, "W": 3, "F": 4}


def reference(server, world):
    """Uninterrupted runs: seeds seed+delta (to name the seed a stored file was
    computed with) and worker counts 0..3 at delta 0."""
    d = world_dir(world)
    n = len(world["ids"])
    mapfile = os.path.join(d, "map")
    write_map(world, mapfile, world["_paths"])
    refs = {}
    for delta in range(-(n - 1), n):
        base = os.path.join(d, "ref_%d" % delta)
        job = job_for(world, base, mapfile, world["seed"] + delta, None, False, 0, 0.5, "r")
        st = server.run(job)
        refs[delta] = (read_dir(world, base + ".out"), st, read_manifest(base))
    byw = {}
    for w in (1, 2, 3):
        base = os.path.join(d, "refw_%d" % w)
        job = job_for(world, base, mapfile, world["seed"], None, False, w, 0.5, "r")
        st = server.run(job)
        byw[w] = (read_dir(world, base + ".out"), st, read_manifest(base))
    world["_refs"] = refs
    world["_byw"] = byw


def name_file(world, u, data):
    """Model vocabulary for one stored file: [u,1] torn, [u,2,s] the file an
    uninterrupted run stores when the pipeline of u is seeded with s."""
    import io
    import torch

    lu = label(world, u)
    i = world["ids"].index(u)
    f = fname(world, u)
    order = sorted(world["_refs"], key=abs)
    for delta in order:
        if world["_refs"][delta][0].get(f) == data:
            return [lu, 2, world["seed"] + delta + i]
    try:
        torch.load(io.BytesIO(data))
    except Exception:
        return [lu, 1]
    return [lu, 9]


def observe(world, base):
    out = base + ".out"
    files = read_dir(world, out)
    view = []
    for u in world["ids"]:
        f = fname(world, u)
        view.append([label(world, u), 0] if f not in files else name_file(world, u, files[f]))
    extra = sorted(set(files) - set(fname(world, u) for u in world["ids"]))
    text = read_manifest(base)
    lines = text.split("\n")
    if lines and lines[-1] == "":
        lines = lines[:-1]
    else:
        lines = lines[:-1] + [lines[-1] + "<no newline>"]
    return dict(view=view, manifest=[label(world, x) for x in lines], lines=lines, files=files, extra=extra, text=text)


def run_history(server, world, hist, hid, fresh=False):
    """Run one history on the real tool.  Returns (stages, oracle failures)."""
    d = world_dir(world)
    base = os.path.join(d, "h%s" % hid)
    for suf in (".out", ".tmp", ".raw"):
        shutil.rmtree(base + suf, ignore_errors=True)
    if os.path.exists(base + ".manifest"):
        os.unlink(base + ".manifest")
    # per-history signal links, so that one signal can be made unreadable
    os.makedirs(base + ".raw")
    links = []
    for i, p in enumerate(world["_paths"]):
        lp = os.path.join(base + ".raw", os.path.basename(p))
        os.symlink(p, lp)
        links.append(lp)
    mapfile = base + ".map"
    write_map(world, mapfile, links, rng_blank=hid_blank(hid))
    ref0 = world["_refs"][0][0]
    stages, bad = [], []
    for step, (a, kc, w, cut) in enumerate(hist):
        before = observe(world, base)
        stat0 = {}
        for f in before["files"]:
            s = os.stat(os.path.join(base + ".out", f))
            stat0[f] = (s.st_mtime_ns, s.st_ino, s.st_size)
        broken = None
        if kc == 2:
            broken = links[world["ids"].index(utt_of_label(world, a))]
            os.unlink(broken)
        job = job_for(world, base, mapfile, world["seed"], None if kc == 2 else a, kc == 1, w, cut, "s%d" % step)
        if os.path.exists(job["evlog"]):
            os.unlink(job["evlog"])
        status = run_fresh(job) if fresh else server.run(job)
        if broken is not None:
            os.symlink(world["_paths"][links.index(broken)], broken)
        after = observe(world, base)
        ev = parse_events(job["evlog"])
        main_ev = [e for e in ev if e[1]]
        trace = [[CODE[c]] if c == "F" else [CODE[c], label(world, u)] for (c, _, u) in main_ev]
        stages.append(dict(view=after["view"], manifest=after["manifest"], trace=trace, status=status))
        where = dict(step=step, entry=[a, kc, w], status=status)

        def oops(what, **kw):
            bad.append(dict(what=what, at=where, **kw))

        # O1 the manifest lists only complete files, identical to an uninterrupted run's
        for ln in after["lines"]:
            f = fname(world, ln)
            if ln not in world["ids"]:
                oops("manifest line %r is not an utterance of the map" % ln)
            elif f not in after["files"]:
                oops("manifest lists %r but its feature file does not exist" % ln)
            elif after["files"][f] != ref0.get(f):
                oops("manifest lists %r but its feature file differs from the uninterrupted run's (%s)" % (
                    ln, name_file(world, ln, after["files"][f])))
        if len(set(after["lines"])) != len(after["lines"]):
            oops("manifest lists an utterance twice: %r" % after["lines"])
        # O2 everything completed in this invocation is listed, except possibly the last
        done = [u for (c, _, u) in main_ev if c == "E"]
        for u in done[:-1]:
            if u not in after["lines"]:
                oops("file of %r was completed before the interruption (and is not the last one) but is not in the manifest" % u,
                     completed=done, manifest=after["lines"])
        # O3 the manifest only grows
        if not after["text"].startswith(before["text"]):
            oops("manifest lost content: %r -> %r" % (before["text"], after["text"]))
        # O4 listed utterances are neither recomputed nor rewritten
        for u in before["lines"]:
            if u not in world["ids"]:
                continue
            if any(c in "CBE" and x == u for (c, _, x) in ev):
                oops("utterance %r was listed in the manifest but was recomputed/rewritten" % u,
                     events=[e for e in ev if e[2] == u])
            f = fname(world, u)
            p = os.path.join(base + ".out", f)
            if f in stat0 and os.path.exists(p):
                s = os.stat(p)
                if (s.st_mtime_ns, s.st_ino, s.st_size) != stat0[f]:
                    oops("file of listed utterance %r was rewritten" % u)
        if after["extra"]:
            oops("unexpected files in the output directory: %r" % after["extra"])
        if step == len(hist) - 1 and a >= BIG and kc != 2:
            # O5 final resume: identical to the uninterrupted run
            if status != "exit 0":
                oops("final resume did not exit normally: %s" % status)
            if after["files"] != ref0:
                diff = sorted(f for f in set(after["files"]) | set(ref0) if after["files"].get(f) != ref0.get(f))
                oops("after resuming, files differ from an uninterrupted run: %r" % [
                    (f, after["view"][[fname(world, u) for u in world["ids"]].index(f)] if f in [fname(world, u) for u in world["ids"]] else None)
                    for f in diff])
            if sorted(after["lines"]) != sorted(world["ids"]):
                oops("after resuming, manifest is %r, expected every utterance once" % after["lines"])
    return stages, bad


def hid_blank(hid):
    return 1 if str(hid).endswith("7") else 0


def coq_history(world, hist):
    ids = [label(world, u) for u in world["ids"]]
    es = "[" + "; ".join("(%d, [%d])" % (l, 100 + i) for i, l in enumerate(ids)) + "]"
    h = "[" + "; ".join("(%d, %d, %d)" % (a, kc, w) for (a, kc, w, _) in hist) + "]"
    return "Eval vm_compute in (run_obs tool %d %s %s disk0 %s).\n" % (world["seed"], es, C.zlist(ids), h)


REQ = ("From Coq Require Import ZArith List.\nImport ListNotations.\nOpen Scope Z_scope.\n"
       "From Verif Require Import C10.Model gen.C10Tool.\n")


def regenerate(ctx):
    sys.path.insert(0, os.path.join(C.ROOT, "gen"))
    import c10tool
    from pyexpr import Unsupported

    try:
        txt = c10tool.main(os.path.join(C.SRC, "command_line.py"), os.path.join(C.COQ, "gen", "C10Tool.v"))
        ctx.log("tool shape: " + [x for x in txt.split("\n") if x.strip().startswith("mkcfg")][0].strip())
        return True
    except (Unsupported, SyntaxError, OSError, IndexError, AttributeError) as e:
        if not C.tie_fallback(ctx, "translator gen/c10tool.py no longer recognises signals_to_torch_feat_dir: %s" % e,
                 dict(correspondence="gen/c10tool.py -> coq/gen/C10Tool.v", error=str(e)), kind="tie", no_input=True):
            return False
        return True


def gen_histories(ctx, world, exhaustive_ws, kinds=(0, 1), n_random=0, doubles=False):
    r = ctx.rng
    n = len(world["ids"])
    hs = []
    fin = [0, 2, 1, 3]
    for w in exhaustive_ws:
        per = 5 if w == 0 else 4
        for k in range(0, per * n + 1):
            for kc in kinds:
                hs.append([(k, kc, w, r.choice([0.0, 0.3, 0.7, 0.999])), (BIG, 0, fin[(k + kc + w) % 4], 0.5)])
    if doubles:
        for k1 in range(0, 5 * n + 1):
            for k2 in range(0, 5 * n + 1):
                kc1, kc2 = r.choice([0, 1]), r.choice([0, 1])
                hs.append([(k1, kc1, 0, r.random()), (k2, kc2, 0, r.random()), (BIG, 0, r.choice(fin), 0.5)])
    for _ in range(n_random):
        h = []
        for _ in range(r.randint(2, 4)):
            w = r.choice([0, 0, 0, 1, 2, 3])
            u = r.random()
            if u < 0.15:
                h.append((label(world, r.choice(world["ids"])), 2, w, 0.5))
            else:
                h.append((r.randint(0, (5 if w == 0 else 4) * n + 1), r.choice([0, 1]), w, r.choice([0.0, r.random(), 0.999])))
        h.append((BIG, 0, r.choice(fin), 0.5))
        hs.append(h)
    return hs


def gen_map_cases(ctx, world, count):
    """Token-level map files: valid lines, blank lines, one-token lines, duplicate ids, padded lines."""
    r = ctx.rng
    cases = []
    for _ in range(count):
        lines, used = [], []
        order = list(range(len(world["ids"])))
        r.shuffle(order)
        for i in order[: r.randint(1, len(order))]:
            u = r.random()
            if u < 0.12:
                lines.append(dict(kind="blank", text=r.choice(["", "  ", " "])))
            if u > 0.9:
                lines.append(dict(kind="single", id=world["ids"][i], text=world["ids"][i] + r.choice(["", " "])))
            elif u > 0.8 and used:
                j = r.choice(used)
                lines.append(dict(kind="valid", id=world["ids"][j], sig=i, spaced=False))
            else:
                lines.append(dict(kind="valid", id=world["ids"][i], sig=i, spaced=r.random() < 0.4,
                                  pad=r.choice(["", " ", "  "])))
                used.append(i)
        cases.append(lines)
    return cases


def run_map_case(server, world, lines, cid):
    d = world_dir(world)
    base = os.path.join(d, "m%d" % cid)
    for suf in (".out", ".raw dir"):
        shutil.rmtree(base + suf, ignore_errors=True)
    if os.path.exists(base + ".manifest"):
        os.unlink(base + ".manifest")
    os.makedirs(base + ".raw dir")
    toks = []
    with open(base + ".map", "w") as f:
        for ln in lines:
            if ln["kind"] == "blank":
                f.write(ln["text"] + "\n")
                toks.append([])
            elif ln["kind"] == "single":
                f.write(ln["text"] + "\n")
                toks.append([label(world, ln["id"])])
            else:
                src = world["_paths"][ln["sig"]]
                if ln["spaced"]:  # a path with a space: two tokens, re-joined by the tool
                    p = os.path.join(base + ".raw dir", os.path.basename(src))
                    if not os.path.lexists(p):
                        os.symlink(src, p)
                    ptoks = [2000 + ln["sig"], 3000 + ln["sig"]]
                else:
                    p = src
                    ptoks = [1000 + ln["sig"]]
                f.write("%s%s %s%s\n" % (ln.get("pad", ""), ln["id"], p, ln.get("pad", "")))
                toks.append([label(world, ln["id"])] + ptoks)
    job = job_for(world, base, base + ".map", world["seed"], None, False, 0, 0.5, "m")
    st = server.run(job)
    obs = observe(world, base)
    if st == "exit 0":
        got = obs["manifest"]
        present = sorted(label(world, u) for u in world["ids"] if fname(world, u) in obs["files"])
        if present != sorted(got):
            got = ["files", present, "manifest", got]
    else:
        got = None if (st == "exit 1" and not obs["files"] and not obs["lines"]) else [st, sorted(obs["files"]), obs["lines"]]
    return toks, got, st


def check_reference(ctx, world):
    """Oracles on the uninterrupted runs themselves."""
    import io
    import numpy as np
    import torch

    refs, byw = world["_refs"], world["_byw"]
    ref0, st0, mf0 = refs[0]
    spec = {k: v for k, v in world.items() if not k.startswith("_")}
    names = [fname(world, u) for u in world["ids"]]
    if st0 != "exit 0" or sorted(ref0) != sorted(names) or sorted(mf0.split("\n")[:-1]) != sorted(world["ids"]):
        ctx.fail("uninterrupted run is wrong: status %s, files %r, manifest %r" % (st0, sorted(ref0), mf0),
                 dict(world=spec), kind="impl")
        return False
    for w, (files, st, mf) in sorted(byw.items()):
        ctx.count("workers:ref:%d" % w)
        if files != ref0 or sorted(mf.split("\n")) != sorted(mf0.split("\n")) or st != "exit 0":
            diff = sorted(f for f in set(files) | set(ref0) if files.get(f) != ref0.get(f))
            ctx.fail("output depends on --num-workers: %d vs 0 differ in %r (status %s)" % (w, diff or "manifest", st),
                     dict(world=spec, workers=[0, w], differing_files=diff, check="workers_irrelevant"), kind="impl")
            return False
    # the seed named by the model is the integer handed to torch.manual_seed
    if world["config"] == "raw_dither":
        C.ensure_impl_path()
        from pydrobert.speech.util import read_signal

        for i, u in enumerate(world["ids"]):
            sig = torch.from_numpy(read_signal(world["_paths"][i], dtype=np.float64, key=u))
            torch.manual_seed(world["seed"] + i)
            exp = (sig + torch.randn_like(sig)).unsqueeze(1).float()
            act = torch.load(io.BytesIO(ref0[fname(world, u)]))
            ctx.count("seed-semantics")
            if act.shape != exp.shape or not torch.equal(act, exp):
                ctx.fail("file of %r is not the signal dithered under torch.manual_seed(seed + map index)" % u,
                         dict(world=spec, utt=u, index=i, check="seed_semantics"), kind="impl")
                return False
    return True


def seed_boundary_oracle(ctx):
    """The property with boundary seeds, in-process and without the model: with a fixed
    --seed (0 and 1 included - 0 is falsy in Python) two uninterrupted runs, and a run
    resumed from a manifest listing the first utterance, store byte-identical files."""
    C.ensure_impl_path()
    import numpy as np
    from pydrobert.speech import command_line

    d = os.path.join(C.BUILD, "C10", "seedbound")
    shutil.rmtree(d, ignore_errors=True)
    os.makedirs(d)
    rs = np.random.RandomState(ctx.seed + 77)
    ids = ["u%d" % i for i in range(3)]
    with open(os.path.join(d, "map"), "w") as f:
        for u in ids:
            pth = os.path.join(d, u + ".npy")
            np.save(pth, rs.randn(300))
            f.write("%s %s\n" % (u, pth))

    def run_tool(out, seed, manifest=None):
        args = [os.path.join(d, "map"), out, "--seed=%d" % seed, "--preprocess=[\"dither\"]"]
        if manifest:
            args.append("--manifest=" + manifest)
        rc = command_line.signals_to_torch_feat_dir(args)
        return rc, {u: open(os.path.join(out, u + ".pt"), "rb").read() for u in ids if os.path.exists(os.path.join(out, u + ".pt"))}

    for seed in (0, 1, 12345):
        rc1, a = run_tool(os.path.join(d, "a%d" % seed), seed)
        rc2, b = run_tool(os.path.join(d, "b%d" % seed), seed)
        man = os.path.join(d, "m%d" % seed)
        outc = os.path.join(d, "c%d" % seed)
        os.makedirs(outc)
        shutil.copy(os.path.join(d, "a%d" % seed, ids[0] + ".pt"), outc)
        with open(man, "w") as f:
            f.write(ids[0] + "\n")
        rc3, c = run_tool(outc, seed, man)
        ctx.count("seed-boundary:%d" % seed)
        ctx.case(dict(kind="seed-boundary", seed=seed, utterances=ids), nontrivial=True)
        if rc1 or rc2 or rc3 or a != b or a != c:
            ctx.fail("with a fixed --seed the stored files differ between runs (uninterrupted twice / resumed from a manifest)",
                     dict(seed=seed, preprocess="dither", utterances=ids, same_twice=a == b, same_resumed=a == c, exit=[rc1, rc2, rc3]), kind="impl")


def long_manifest_oracle(ctx):
    """'utterances already listed in the manifest are neither recomputed nor rewritten' for a corpus of ordinary size: a
    manifest of some 1200 lines (about 17 KB, beyond any single I/O buffer) left by an interrupted run, then the same
    command again.  Exactly the unlisted utterances are read, written and appended; the listed files keep their bytes."""
    C.ensure_impl_path()
    import numpy as np
    import torch
    from pydrobert.speech import command_line

    d = os.path.join(C.BUILD, "C10", "longmanifest")
    shutil.rmtree(d, ignore_errors=True)
    os.makedirs(os.path.join(d, "out"))
    n, done = 1300, 1200
    ids = ["utterance_%05d" % i for i in range(n)]
    sig = os.path.join(d, "sig.npy")
    np.save(sig, np.arange(5, dtype=np.float64))
    with open(os.path.join(d, "map"), "w") as f:
        for u in ids:
            f.write("%s %s\n" % (u, sig))
    man = os.path.join(d, "manifest")
    with open(man, "w") as f:
        for u in ids[:done]:
            f.write(u + "\n")
            with open(os.path.join(d, "out", u + ".pt"), "wb") as g:
                g.write(b"as the interrupted run left it")
    saved = []
    real_save = torch.save

    def spy(obj, path, *a, **k):
        saved.append(os.path.basename(str(path)))
        return real_save(obj, path, *a, **k)

    torch.save = spy
    try:
        rc = command_line.signals_to_torch_feat_dir([os.path.join(d, "map"), os.path.join(d, "out"), "--manifest=" + man])
    finally:
        torch.save = real_save
    lines = open(man).read().split("\n")[:-1]
    touched = [u for u in ids[:done] if open(os.path.join(d, "out", u + ".pt"), "rb").read() != b"as the interrupted run left it"]
    ctx.count("long-manifest")
    ctx.case(dict(kind="long-manifest", utterances=n, listed=done, manifest_bytes=os.path.getsize(man)), nontrivial=True)
    want_saved = sorted(u + ".pt" for u in ids[done:])
    if rc or sorted(saved) != want_saved or touched or sorted(lines) != sorted(ids):
        ctx.fail("resuming from a manifest of %d lines: %d files written (expected the %d unlisted ones), %d listed files rewritten, manifest has %d "
                 "lines (%d distinct; expected %d)" % (done, len(saved), n - done, len(touched), len(lines), len(set(lines)), n),
                 dict(check="long_manifest", utterances=n, listed=done, exit=rc, rewritten_listed=touched[:5], written_twice=sorted(set(saved) - set(want_saved))[:5]),
                 kind="impl")
    shutil.rmtree(d, ignore_errors=True)


def run(ctx):
    C.ensure_impl_path()
    from concurrent.futures import ThreadPoolExecutor

    ok_gen = regenerate(ctx)
    pr = C.proof_step(ctx)
    ctx.cov["trusted_base"] += [
        "translator /verif/gen/c10tool.py (Python ast -> tool_cfg record)",
        "crash driver in harness/c10.py (wraps torch.save, the manifest file object, __getitem__; SIGKILL/SIGINT to itself)",
    ]
    shutil.rmtree(SCRATCH, ignore_errors=True)
    os.makedirs(SCRATCH)
    r = ctx.rng
    # ---- worlds and histories (all choices from ctx.rng, before anything runs)
    worlds, plan = [], []
    cfgs = sorted(CONFIGS)

    def add_world(n, config, ids=None, probe=None, short_at=None, **kw):
        w = make_world(r, len(worlds), n, config, ids=ids, short_at=short_at)
        if probe:
            w["probe"] = probe
        worlds.append(w)
        for h in gen_histories(ctx, w, **kw):
            plan.append((w, h))

    if ctx.thorough:
        add_world(1, "raw_dither", exhaustive_ws=(0, 1, 2, 3), n_random=10)
        add_world(2, "raw_dither", exhaustive_ws=(0, 1, 2, 3), n_random=100, doubles=True)
        add_world(2, "stft_dither_deltas", exhaustive_ws=(0, 2), n_random=100)
        add_world(3, "stft_dither", exhaustive_ws=(0, 1, 2, 3), n_random=200)
        add_world(3, "si_dither", exhaustive_ws=(0, 2), n_random=100, short_at=1)
        add_world(4, "raw_dither_preemph", exhaustive_ws=(0, 2, 3), n_random=300)
        add_world(5, "stft_cmvn_muted", exhaustive_ws=(0, 2, 3), n_random=100)
        add_world(5, "stft_stack_pad", exhaustive_ws=(0, 2, 3), n_random=100)
        add_world(5, None, exhaustive_ws=(0, 2), n_random=300)
        add_world(6, None, exhaustive_ws=(0, 3), n_random=300)
        add_world(8, None, exhaustive_ws=(0,), n_random=300)
    else:
        add_world(1, "raw_dither", exhaustive_ws=(0, 2), n_random=4)
        add_world(2, "raw_dither", exhaustive_ws=(0, 2), n_random=25)
        add_world(3, "stft_dither", exhaustive_ws=(0, 2), n_random=25, short_at=0)
        add_world(3, "si_dither", exhaustive_ws=(3,), n_random=10, short_at=1)
        add_world(4, "stft_dither_deltas", exhaustive_ws=(0,), n_random=30)
        add_world(4, "raw_dither_preemph", exhaustive_ws=(1,), kinds=(1,), n_random=20)
        add_world(4, "stft_cmvn_muted", exhaustive_ws=(0, 2), n_random=8)
        add_world(4, "stft_stack_pad", exhaustive_ws=(0, 2), n_random=8)
    # regression of the finding fixed by 7cfe6bc: ids that end in whitespace which
    # str.strip() would remove ("a\t" vs "a"), see NOTES.md
    add_world(3, "raw_dither", ids=["a\t", "a", "b+c"], exhaustive_ws=(0,), n_random=ctx.scale(4, 40))
    if ctx.thorough:
        add_world(3, "stft_dither", ids=["utt1", "a\t", "utt1\t"], exhaustive_ws=(0, 2), n_random=40)
    ctx.log("%d worlds, %d histories, %d invocations" % (len(worlds), len(plan), sum(len(h) for _, h in plan)))
    nproc = 12
    servers = [Server() for _ in range(nproc)]
    tl = threading.local()
    free = list(servers)
    lock = threading.Lock()

    def server():
        if not hasattr(tl, "s"):
            with lock:
                tl.s = free.pop()
        return tl.s

    results = {}
    mres, mcases = [], []
    try:
        with ThreadPoolExecutor(max_workers=nproc) as ex:
            def prep(w):
                build_world(w)
                reference(server(), w)
            list(ex.map(prep, worlds))
            good_worlds = set()
            for w in worlds:
                if check_reference(ctx, w):
                    good_worlds.add(w["wid"])
            fresh_ids = set(r.sample(range(len(plan)), min(len(plan), ctx.scale(6, 40))))

            def one(i):
                w, h = plan[i]
                if w["wid"] not in good_worlds:
                    return None
                return run_history(server(), w, h, i, fresh=i in fresh_ids)
            futs = [ex.submit(one, i) for i in range(len(plan))]
            mw = worlds[3] if worlds[3]["wid"] in good_worlds else None
            mcases = gen_map_cases(ctx, mw, ctx.scale(40, 400)) if mw else []
            mfuts = [ex.submit(lambda j=j: run_map_case(server(), mw, mcases[j], j)) for j in range(len(mcases))]
            for i, f in enumerate(futs):
                results[i] = f.result()
            mres = [f.result() for f in mfuts]
    finally:
        for s in servers:
            s.close()
    ctx.log("implementation runs done")
    # ---- model evaluation in Coq
    model = {}
    if ok_gen:
        okb, out = C.coq_make(["C10/Model.v", "gen/C10Tool.v"])
        if not okb:
            ctx.fail("generated tool description no longer compiles", dict(correspondence="coq/gen/C10Tool.v", log_tail=out[-1500:]), kind="tie", no_input=True)
        else:
            idx = [i for i in range(len(plan)) if results.get(i) is not None]
            shard = 400
            files = [("cases_%d" % (k // shard), "".join(coq_history(*plan[i]) for i in idx[k:k + shard])) for k in range(0, len(idx), shard)]
            res = C.coq_eval_many(ctx, files, REQ)
            for k, (ans, log) in zip(range(0, len(idx), shard), res):
                if ans is None or len(ans) != len(idx[k:k + shard]):
                    ctx.fail("model evaluation failed in Coq", dict(correspondence="run_obs", log_tail=(log or "")[-1500:]), kind="tie", no_input=True)
                    continue
                for i, a in zip(idx[k:k + shard], ans):
                    model[i] = C.parse_coq(a)
            # map parsing: parse_map vs. what the tool makes of the same token lines
            if mres:
                body = "".join("Eval vm_compute in (option_map (map fst) (parse_map [] %s)).\n" % C.zlist(t) for (t, _, _) in mres)
                ans, log = C.coq_eval(ctx, "mapcases", body, REQ)
                if ans is None or len(ans) != len(mres):
                    ctx.fail("model evaluation failed in Coq", dict(correspondence="parse_map", log_tail=(log or "")[-1500:]), kind="tie", no_input=True)
                else:
                    for (t, got, st), a, lines in zip(mres, ans, mcases):
                        v = C.parse_coq(a)
                        exp = v[1] if isinstance(v, tuple) and v[0] == "Some" else None
                        ctx.case(dict(map_lines=t), nontrivial=any(len(x) != 2 for x in t))
                        ctx.count("map:%s" % ("rejected" if exp is None else "accepted"))
                        if exp != got:
                            ctx.fail("map parsing: model %r, tool %r (%s) on token lines %r" % (exp, got, st, t),
                                     dict(map_lines=lines, tokens=t, model=exp, implementation=got,
                                          correspondence="parse_map (coq/C10/Model.v) vs tool"), kind="correspondence")
                        else:
                            ctx.cov["traces_validated_against_impl"] += 1
    # ---- compare, record coverage
    nfail = 0
    nprobe = [0]
    for i, (w, h) in enumerate(plan):
        if results.get(i) is None:
            continue
        stages, bad = results[i]
        spec = {k: v for k, v in w.items() if not k.startswith("_")}
        spec["labels"] = [label(w, u) for u in w["ids"]]
        n = len(w["ids"])
        inside = any(kc != 2 and 0 < a < (5 if wk == 0 else 4) * n for (a, kc, wk, _) in h[:-1])
        ctx.case(dict(world=w["wid"], ids=w["ids"], config=w["config"], history=[list(x[:3]) for x in h]), nontrivial=inside)
        ctx.count("utterances:%d" % n)
        ctx.count("history-length:%d" % len(h))
        for (a, kc, wk, _), st in zip(h, stages):
            ctx.count("kind:%s" % ("soft", "hard", "ioerror")[kc])
            ctx.count("workers:%d" % wk)
            last = st["trace"][-1][0] if st["trace"] else -1
            ctx.count("last-op:%s" % {-1: "none", 0: "compute", 1: "save-begin(torn file)", 2: "save-end", 3: "manifest-write", 4: "manifest-flush"}[last])
            ctx.count("exit:%s" % st["status"])
        for b in bad[:3]:
            if w.get("probe"):
                nprobe[0] += 1
                if nprobe[0] > 4:
                    continue
            if nfail < 40 or w.get("probe"):
                ctx.fail("property violated on the implementation: %s" % b["what"],
                         dict(world=spec, history=[list(x) for x in h], violation=b, check="oracle"), kind="impl",
                         key=w.get("probe"))
            if not w.get("probe"):
                nfail += 1
        if i in model:
            exp = model[i]
            for step, st in enumerate(stages):
                got = [st["view"], [st["manifest"]], st["trace"]]
                if step >= len(exp) or exp[step] != got:
                    if nfail < 40:
                        ctx.fail(
                            "model and implementation disagree after invocation %d of history %r: model %r, implementation %r (exit %s)"
                            % (step, [list(x[:3]) for x in h], exp[step] if step < len(exp) else None, got, st["status"]),
                            dict(world=spec, history=[list(x) for x in h], step=step, model=exp[step] if step < len(exp) else None,
                                 implementation=got, correspondence="run_obs tool (coq/C10/Model.v) vs driver observation"),
                            kind="correspondence")
                    nfail += 1
                    break
                ctx.cov["traces_validated_against_impl"] += 1
    ctx.cov["rule"] = (
        "one case = one history (sequence of invocations of the real tool on one map, each killed hard/soft after its k-th "
        "operation or failing on an unreadable signal, then resumed to completion); after every invocation the directory "
        "(absent / torn / complete-with-seed per utterance), the manifest lines and the operation trace are compared with "
        "run_obs evaluated in Coq, and the property is evaluated directly on the bytes; non-trivial = some kill point lies "
        "strictly inside a run; all single kill points are enumerated exhaustively for the listed utterance counts"
    )
    if pr is not None and not pr["ok"] and nfail == 0:
        ctx.log("search found no failing input on the implementation")
    ctx.assumptions += [
        "DataLoader delivers items in work-list order (modelled, exercised with 0-3 workers)",
        "a manifest line written by one flush is not torn by SIGKILL (single short write(2) to an O_APPEND file)",
        "process death loses exactly the user-space buffers; files closed or flushed before the kill survive (no power failure)",
        "feature computation is a deterministic function of (utterance, signal, integer given to torch.manual_seed)",
    ]
    if not ctx.failures:
        shutil.rmtree(SCRATCH, ignore_errors=True)
    seed_boundary_oracle(ctx)
    long_manifest_oracle(ctx)
    return C.finish(ctx, "proof")


def replay(ctx, rp):
    """Re-run the recorded world + history on the implementation and print what happens."""
    C.ensure_impl_path()
    f = rp["failure"]["replay"]
    if "world" not in f:
        print(json.dumps(f, indent=1))
        return 0
    w = dict(f["world"])
    w["wid"] = "replay"
    os.makedirs(SCRATCH, exist_ok=True)
    build_world(w)
    s = Server()
    try:
        reference(s, w)
        if not check_reference(ctx, w):
            for g in ctx.failures:
                print("FAIL:", g["what"])
            return 1
        if "history" not in f:
            print("reference runs agree")
            return 0
        h = [tuple(x) for x in f["history"]]
        stages, bad = run_history(s, w, h, 0)
    finally:
        s.close()
    for st in stages:
        print(json.dumps(st))
    regenerate(ctx)
    C.coq_make(["C10/Model.v", "gen/C10Tool.v"])
    ans, log = C.coq_eval(ctx, "replay", coq_history(w, h), REQ)
    print("model:", ans[0] if ans else log[-800:])
    for b in bad:
        print("VIOLATED:", b["what"], b["at"])
    return 1 if bad else 0


if __name__ == "__main__":
    if sys.argv[1] == "serve":
        _serve()
    elif sys.argv[1] == "once":
        _once(sys.argv[2])
