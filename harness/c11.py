"""C11 - read_signal returns exactly what was stored, from a path or a stream.

Proof: coq/C11 (theorems about the suffix inference, the pre-checks and the
dispatch generated from util.py, the wave decoder, the HDF5 search, the glue of
the readers around codec oracles, wds_read_signal).
Tie: (1) translator gen/readsig.py regenerates coq/gen/ReadSignal.v from util.py
and config.py on every run and the theorems are re-checked against it; (2)
correspondence: the model is evaluated inside Coq (vm_compute) on generated
cases - names for the inference; (content, access path, force_as, dtype, key)
for read_signal, with integer-coded array contents written by each container's
own writer; (key, bytes) for wds_read_signal - and compared with what the
implementation returned / raised.
Search: the property stated directly on the implementation (round trips with
arbitrary float data, dtype = final cast, key selection, error types, garbage for
the webdataset hook).  The round trips through the third-party codecs are
differential evidence, not proof.
"""

import io
import os
import shutil
import sys
import warnings

from . import common as C

sys.path.insert(0, os.path.join(C.ROOT, "gen"))

PID = "C11"
FILES = os.path.join(C.BUILD, PID, "files_%d" % os.getpid())  # per process: concurrent runs do not collide

DT = {
    "int8": "I8", "uint8": "U8", "int16": "I16", "uint16": "U16", "int32": "I32",
    "uint32": "U32", "int64": "I64", "uint64": "U64", "float32": "F32", "float64": "F64",
}
INT_RANGE = {
    "int8": (-128, 127), "uint8": (0, 255), "int16": (-32768, 32767), "uint16": (0, 65535),
    "int32": (-2 ** 31, 2 ** 31 - 1), "uint32": (0, 2 ** 32 - 1), "int64": (-2 ** 63, 2 ** 63 - 1),
    "uint64": (0, 2 ** 64 - 1), "float32": (-2 ** 24, 2 ** 24), "float64": (-2 ** 53, 2 ** 53),
}
TORCH_OK = ["uint8", "int8", "int16", "int32", "int64", "float32", "float64"]
SND_BITS = {"PCM_U8": 8, "PCM_S8": 8, "PCM_16": 16, "PCM_24": 24, "PCM_32": 32}


# --------------------------------------------------------------------------
# rendering of Coq terms


def cstr(s):
    return "[" + "; ".join(str(ord(c)) for c in s) + "]"


def copt(x, f):
    return "None" if x is None else "(Some %s)" % f(x)


def cz(v):
    return "(%d)" % v if v < 0 else "%d" % v


def czl(xs):
    return "[" + "; ".join(cz(int(x)) for x in xs) + "]"


def carr(a):
    return "(mk_arr %s %s %s)" % (DT[a["dt"]], czl(a["shape"]), czl(a["data"]))


def ch5(children):
    def node(n):
        if n[0] == "d":
            return "(H5Data %s)" % carr(n[1])
        return "(H5Group %s)" % ch5(n[1])

    return "[" + "; ".join("(%s, %s)" % (cstr(k), node(n)) for k, n in children) + "]"


def ccontent(c):
    k = c["kind"]
    if k == "wav":
        return "(CWave %d %d %s)" % (c["width"], c["chans"], czl(c["bytes"]))
    if k == "npy":
        return "(CNpy %s)" % carr(c["arr"])
    if k == "pt":
        return "(CPt %s)" % carr(c["arr"])
    if k == "npz":
        return "(CNpz [%s])" % "; ".join("(%s, %s)" % (cstr(kk), carr(a)) for kk, a in c["entries"])
    if k == "h5":
        return "(CH5 %s)" % ch5(c["tree"])
    if k == "snd":
        return "(CSnd %s %d %s)" % (cstr(c["subtype"]), c["chans"], czl(c["native"]))
    if k == "sph":
        return "(CSph %s)" % carr(c["arr"])
    if k == "raw":
        return "(CRaw %s)" % czl(c["bytes"])
    return "CBad"


def cres(o):
    if o[0] == "ok":
        return "(Ok %s)" % carr(o[1])
    return "(Err %s)" % o[1]


# --------------------------------------------------------------------------
# observing the implementation


def exn_enum(e):
    if isinstance(e, OSError):
        return "EIO"
    if isinstance(e, KeyError):
        return "EKey"
    if isinstance(e, ValueError):
        return "EValue"
    if isinstance(e, TypeError):
        return "EType"
    if isinstance(e, ZeroDivisionError):
        return "EZeroDiv"
    return "ECodec"


def observe_array(np, x):
    """An ndarray as (dtype name, shape, integer-coded data) or a reason why not."""
    if not isinstance(x, np.ndarray):
        return ("notarray", type(x).__name__)
    name = x.dtype.name
    if name not in DT:
        return ("notarray", "dtype " + name)
    flat = x.ravel(order="C")
    if x.dtype.kind == "f":
        if not np.all(np.isfinite(flat)) or not np.all(flat == np.round(flat)):
            return ("notarray", "non-integer float values")
    return ("ok", dict(dt=name, shape=[int(s) for s in x.shape], data=[int(v) for v in flat]))


def call_read(np, util, src, dtype, key, force_as):
    kw = {}
    if dtype is not None:
        kw["dtype"] = dtype
    if key is not None:
        kw["key"] = key
    if force_as is not None:
        kw["force_as"] = force_as
    with warnings.catch_warnings(), quiet_stderr():
        warnings.simplefilter("ignore")
        try:
            x = util.read_signal(src, **kw)
        except Exception as e:  # noqa: BLE001 - the class is the observation
            return ("err", exn_enum(e), type(e).__name__)
    return observe_array(np, x)


# --------------------------------------------------------------------------
# generation


def rand_values(r, dt, n, also=None, wide=False):
    lo, hi = INT_RANGE[dt]
    if also:
        l2, h2 = INT_RANGE[also]
        lo, hi = max(lo, l2), min(hi, h2)
    vals = []
    for _ in range(n):
        u = r.random()
        if u < 0.15:
            vals.append(r.choice([lo, hi, 0, min(hi, 1), max(lo, -1)]))
        elif u < 0.6 or not wide:
            vals.append(r.randint(max(lo, -200), min(hi, 200)))
        else:
            vals.append(r.randint(lo, hi))
    return vals


def rand_shape(r, maxrank=3, audio=False):
    if audio:
        t = r.choice([0, 1, 2, 3, 5, 8, 13])
        c = r.choice([1, 1, 2, 2, 3, 4])
        return [t] if c == 1 else [t, c]
    rank = r.choice([0, 1, 1, 2, 2, 3][: 2 + 2 * maxrank - 2]) if maxrank < 3 else r.choice([0, 1, 1, 2, 2, 3])
    return [r.choice([0, 1, 2, 3, 4, 5]) if r.random() < 0.9 else 7 for _ in range(rank)]


def prod(xs):
    p = 1
    for x in xs:
        p *= x
    return p


def rand_arr(r, dts, cast_to=None, audio=False, maxrank=3, wide=True):
    dt = r.choice(dts)
    shape = rand_shape(r, maxrank, audio)
    n = prod(shape)
    # values valid in the source type; if a cast target is a float type or the
    # source is a float type, also inside the target's exactly representable range
    also = None
    if cast_to is not None and (cast_to.startswith("float") or dt.startswith("float")):
        also = cast_to
    return dict(dt=dt, shape=shape, data=rand_values(r, dt, n, also, wide))


def np_of(np, a):
    return np.array(a["data"], dtype=a["dt"]).reshape(a["shape"])


def le_bytes(v, w):
    return list((v % (1 << (8 * w))).to_bytes(w, "little"))


ALL_DT = list(DT)
H5_KEYS = ["a", "b", "B", "a1", "aa", "_", "Z", "10", "9", "ab", "c"]


def rand_tree(r, depth, cast_to):
    n = r.choice([0, 1, 2, 2, 3])
    keys = r.sample(H5_KEYS, n)
    out = []
    for k in keys:
        if depth > 0 and r.random() < 0.5:
            out.append((k, ("g", rand_tree(r, depth - 1, cast_to))))
        else:
            out.append((k, ("d", rand_arr(r, ALL_DT, cast_to, maxrank=2, wide=False))))
    return out


def tree_paths(tree, prefix=""):
    ds, gs = [], []
    for k, n in tree:
        if n[0] == "d":
            ds.append(prefix + k)
        else:
            gs.append(prefix + k)
            d2, g2 = tree_paths(n[1], prefix + k + "/")
            ds += d2
            gs += g2
    return ds, gs


def gen_content(r, kind, cast_to):
    if kind == "wav":
        width = r.choice([2, 2, 4, 4, 1, 3] if r.random() < 0.25 else [2, 4])
        chans = r.choice([1, 1, 2, 2, 3, 4])
        t = r.choice([0, 1, 2, 3, 5, 8])
        dt = {1: "int8", 2: "int16", 3: "int32", 4: "int32"}[width]
        lo, hi = -(1 << (8 * width - 1)), (1 << (8 * width - 1)) - 1
        also = cast_to if cast_to and cast_to.startswith("float") else None
        vals = [max(lo, min(hi, v)) for v in rand_values(r, dt, t * chans, also, True)]
        b = []
        for v in vals:
            b += le_bytes(v, width)
        return dict(kind="wav", width=width, chans=chans, bytes=b, samples=vals)
    if kind == "npy":
        return dict(kind="npy", arr=rand_arr(r, ALL_DT, cast_to))
    if kind == "pt":
        return dict(kind="pt", arr=rand_arr(r, TORCH_OK, cast_to))
    if kind == "npz":
        n = r.choice([1, 2, 3])
        keys = r.sample(["arr_0", "arr_1", "a", "b", "key", "arr_00", "A"], n)
        if r.random() < 0.5 and "arr_0" not in keys:
            keys[0] = "arr_0"
        r.shuffle(keys)
        return dict(kind="npz", entries=[(k, rand_arr(r, ALL_DT, cast_to, maxrank=2)) for k in keys])
    if kind == "h5":
        return dict(kind="h5", tree=rand_tree(r, 3, cast_to))
    if kind == "snd":
        fmt = r.choice(["wav", "flac", "aiff"])
        subs = {"wav": ["PCM_16", "PCM_16", "PCM_32", "PCM_24", "PCM_U8", "FLOAT", "DOUBLE"],
                "flac": ["PCM_16", "PCM_16", "PCM_24"],
                "aiff": ["PCM_16", "PCM_16", "PCM_32", "PCM_24", "FLOAT", "DOUBLE"]}[fmt]
        st = r.choice(subs)
        chans = r.choice([1, 1, 2, 3])
        t = r.choice([1, 2, 3, 5, 8])
        if st in SND_BITS:
            b = SND_BITS[st]
            lo, hi = -(1 << (b - 1)), (1 << (b - 1)) - 1
            vals = [r.choice([lo, hi, 0, -1, 1]) if r.random() < 0.2 else r.randint(max(lo, -100), min(hi, 100)) for _ in range(t * chans)]
            if cast_to and cast_to.startswith("float"):
                # the first-stage read left-justifies: keep the result exactly representable
                width = 16 if st in ("PCM_16", "PCM_U8") else 32
                lim = INT_RANGE[cast_to][1] >> (width - b)
                vals = [max(-lim, min(lim, v)) for v in vals]
        else:
            lim = 100
            vals = [r.randint(-lim, lim) for _ in range(t * chans)]
        return dict(kind="snd", fmt=fmt, subtype=st, chans=chans, native=vals)
    if kind == "sph":
        dt = r.choice(["int16", "int16", "int32"])
        a = rand_arr(r, [dt], cast_to, audio=True)
        if prod(a["shape"]) == 0:
            a["shape"] = [1] + a["shape"][1:]
            a["data"] = rand_values(r, dt, prod(a["shape"]))
        return dict(kind="sph", arr=a)
    if kind == "raw":
        a = rand_arr(r, [d for d in ALL_DT if not d.startswith("float")], None, maxrank=1)
        if len(a["shape"]) == 0:
            a["shape"] = [1]
            a["data"] = a["data"][:1] or [0]
        w = int(a["dt"].replace("uint", "").replace("int", "")) // 8
        b = []
        for v in a["data"]:
            b += le_bytes(v, w)
        extra = [r.randint(0, 255) for _ in range(r.choice([0, 0, 0, 1, 3]))]
        return dict(kind="raw", bytes=b + extra, arr=a)
    raise ValueError(kind)


SUFFIX = {"wav": ".wav", "npy": ".npy", "pt": ".pt", "npz": ".npz", "h5": ".hdf5", "sph": ".sph", "raw": ".bin"}
FORCE = {"wav": "wav", "npy": "npy", "pt": "pt", "npz": "npz", "h5": "hdf5", "sph": "sph", "raw": "file"}
# readers that are certain to reject foreign content (np.load would hand back an
# NpzFile for any zip, np.fromfile reads anything, soundfile reads wav)
WRONG_READERS = ["hdf5", "sph", "pt"]


def write_content(np, c, path):
    import wave

    k = c["kind"]
    if k == "wav":
        with wave.open(path, "wb") as wf:
            wf.setnchannels(c["chans"])
            wf.setsampwidth(c["width"])
            wf.setframerate(8000)
            wf.writeframes(bytes(c["bytes"]))
    elif k == "npy":
        with open(path, "wb") as f:
            np.save(f, np_of(np, c["arr"]))
    elif k == "pt":
        import torch

        torch.save(torch.from_numpy(np_of(np, c["arr"]).copy()), path)
    elif k == "npz":
        with open(path, "wb") as f:
            np.savez(f, **{kk: np_of(np, a) for kk, a in c["entries"]})
    elif k == "h5":
        import h5py

        def put(g, tree):
            for kk, n in tree:
                if n[0] == "d":
                    g.create_dataset(kk, data=np_of(np, n[1]))
                else:
                    put(g.create_group(kk), n[1])

        with h5py.File(path, "w") as f:
            put(f, c["tree"])
    elif k == "snd":
        import soundfile

        nat = np.array(c["native"], dtype=np.int64).reshape(-1, c["chans"])
        if c["subtype"] in SND_BITS:
            data = (nat << (32 - SND_BITS[c["subtype"]])).astype(np.int32)
        else:
            data = nat.astype(np.float64)
        if c["chans"] == 1:
            data = data[:, 0]
        soundfile.write(path, data, 8000, format=c["fmt"].upper(), subtype=c["subtype"])
    elif k == "sph":
        import soundfile

        a = np_of(np, c["arr"])
        soundfile.write(path, a, 8000, format="NIST", subtype="PCM_16" if c["arr"]["dt"] == "int16" else "PCM_32")
    elif k == "raw":
        with open(path, "wb") as f:
            f.write(bytes(c["bytes"]))


def gen_read_case(r, idx, sf_actual):
    kinds = ["wav", "npy", "pt", "npz", "h5", "snd", "sph", "raw"]
    kind = r.choice(kinds)
    dtype = None
    if r.random() < 0.45:
        dtype = r.choice(ALL_DT)
    c = gen_content(r, kind, dtype)
    sf = sorted(sf_actual)
    mode = r.random()
    stem = "f%05d" % idx
    force = None
    key = None
    suffix = SUFFIX.get(kind) or "." + c["fmt"]
    right_force = FORCE.get(kind) or r.choice(["soundfile", c["fmt"]])
    access = r.choice(["path", "path", "stream", "bytesio"])
    if kind == "raw":
        access = r.choice(["path", "stream"])  # np.fromfile needs a real file
        force = "file"
        if dtype is None or dtype.startswith("float"):
            dtype = r.choice([d for d in ALL_DT if not d.startswith("float")])
    elif kind == "snd" and c["fmt"] == "wav":
        # a .wav name goes to the wave reader; soundfile is reached by force_as only
        force = "soundfile"
        if r.random() < 0.3:
            suffix = ".dat"
    elif access != "path":
        force = right_force
    elif mode < 0.55:
        force = None  # inferred from the suffix
    elif mode < 0.8:
        force = right_force
        suffix = r.choice([suffix, ".dat", "", ".txt", suffix.upper()])
    else:
        force = None
        suffix = r.choice(["", ".dat", suffix.upper(), suffix + ".bak", suffix[:-1], suffix + "x"])
    variant = r.random()
    if variant < 0.10 and kind not in ("raw",):
        # a force_as that contradicts the content / that nothing knows
        if r.random() < 0.5:
            force = r.choice([w for w in WRONG_READERS if w != right_force])
        else:
            force = r.choice(["", "foo", "WAV", "mp3", "numpy", "kaldi", "table", "raw"])
    elif variant < 0.16 and access != "path":
        force = None  # stream without force_as
    elif variant < 0.20 and access == "path":
        pass
    if variant > 0.93:
        sf = r.choice([[], ["flac"], ["wav", "ogg"], ["aiff", "flac", "ogg"]])
    # keys
    if kind == "npz":
        ks = [k for k, _ in c["entries"]]
        u = r.random()
        key = None if u < 0.35 else "" if u < 0.45 else r.choice(ks) if u < 0.85 else r.choice(["zz", "arr_9", "ARR_0"])
    elif kind == "h5":
        ds, gs = tree_paths(c["tree"])
        u = r.random()
        if u < 0.4 or (not ds and u < 0.7):
            key = None if r.random() < 0.8 else ""
        elif u < 0.8 and ds:
            key = r.choice(ds)
            if r.random() < 0.2:
                key = "/" + key
            elif r.random() < 0.1:
                key = key.replace("/", "//", 1)
        else:
            cand = ["zz", "a/zz", "q/r"] + [d + "/x" for d in ds[:2]] + [g + "/zz" for g in gs[:2]]
            key = r.choice(cand)
    elif r.random() < 0.1:
        key = r.choice(["a", "arr_0", ""])  # ignored by the other readers
    name = os.path.join(FILES, stem + suffix)
    missing = access == "path" and r.random() < 0.03
    return dict(kind=kind, content=c, access=access, name=name, force_as=force, dtype=dtype, key=key, sf=sf, missing=missing)


def fixed_read_cases(sf_actual):
    """Corpus run before the random cases: the witness of
    hdf5_cast_is_not_astype_refuted and a few boundary cases."""
    sf = sorted(sf_actual)

    def mk(kind, content, stem, suffix, access="path", force_as=None, dtype=None, key=None):
        return dict(kind=kind, content=dict(content, kind=kind), access=access, name=os.path.join(FILES, stem + suffix),
                    force_as=force_as, dtype=dtype, key=key, sf=sf, missing=False)

    i32 = dict(dt="int32", shape=[2], data=[-5, 70000])
    out = [
        mk("h5", dict(tree=[("x", ("d", i32))]), "w0", ".hdf5", dtype="uint16"),
        mk("h5", dict(tree=[("x", ("d", i32))]), "w1", ".hdf5", dtype="int8", access="bytesio", force_as="hdf5"),
        mk("npy", dict(arr=i32), "w2", ".npy", dtype="uint16"),
        mk("h5", dict(tree=[("g", ("g", []))]), "w3", ".hdf5"),
        mk("npz", dict(entries=[("a", i32), ("arr_0", dict(dt="int8", shape=[], data=[7]))]), "w4", ".npz", key=""),
        mk("npz", dict(entries=[("a", i32)]), "w5", ".npz"),
        mk("wav", dict(width=3, chans=1, bytes=[1, 2, 3], samples=[0]), "w6", ".wav"),
        mk("wav", dict(width=2, chans=3, bytes=[], samples=[]), "w7", ".wav", access="stream", force_as="wav"),
        mk("npy", dict(arr=i32), "w8", ".npy", access="stream"),
        mk("npy", dict(arr=i32), "w9", "", access="path"),
    ]
    return out


def run_read_case(np, util, config, k):
    """Write the container with its own writer, read it back through read_signal."""
    path = k["name"]
    if not k["missing"]:
        write_content(np, k["content"], path)
    elif os.path.exists(path):
        os.remove(path)
    old = config.SOUNDFILE_SUPPORTED_FILE_TYPES
    config.SOUNDFILE_SUPPORTED_FILE_TYPES = set(k["sf"])
    fh = None
    try:
        if k["access"] == "path":
            src = path
        elif k["access"] == "stream":
            fh = src = open(path, "rb")
        else:
            with open(path, "rb") as f:
                src = io.BytesIO(f.read())
        dtype = None if k["dtype"] is None else np.dtype(k["dtype"]) if k.get("dtype_form") == "dtype" else k["dtype"]
        return call_read(np, util, src, dtype, k["key"], k["force_as"])
    finally:
        config.SOUNDFILE_SUPPORTED_FILE_TYPES = old
        if fh is not None:
            fh.close()
        if os.path.exists(path):
            os.remove(path)


def coq_read_case(k, obs):
    files = "[]" if k["missing"] else "[(%s, %s)]" % (cstr(k["name"]), ccontent(k["content"]))
    if k["access"] == "path":
        src = "(Path %s)" % cstr(k["name"])
    else:
        src = "(Stream %s)" % ccontent(k["content"])
    dt = "None" if k["dtype"] is None else "(Some %s)" % DT[k["dtype"]]
    o = cres(obs) if obs[0] in ("ok", "err") else None
    return "(mk_case %s %s %s %s %s [%s] %s)" % (
        files, src, dt, copt(k["key"], cstr), copt(k["force_as"], cstr), "; ".join(cstr(s) for s in k["sf"]), o)


# ---- names for the inference


def gen_names(r, n):
    stems = ["", "a", "foo", "utt_1", "dir/x", "/abs/p.q/r", "a.b", "x y", "wav", "flac", "ark", "scp", ".", "..", "a,b", "a:b", "A"]
    sufs = [".wav", ".hdf5", ".npy", ".npz", ".pt", ".sph", "|", ".flac", ".ogg", ".aiff", ".WAV", ".wav.", ".wa", "wav",
            "", ".txt", ".h5", ".npyz", ".np", ".hdf", ".pt|", ".sph ", ".aif", "flac", ".Flac", ".", ".mp3", ".wav|", "ogg",
            "npy", "npz", "pt", "sph", "hdf5", "_npy", "-npz", ".n.pz", "|.npy", "| ", ".hdf5.", "..pt"]
    pres = ["", "", "", "", "", "", "", "", "", "", "", "", "ark:", "scp:", "ark,t:", "scp,p,cs:", "ark,:", "ark,,t:", "ark", "ark,t", "arc:", "ARK:", " ark:",
            "ark,t-:", "scp,a_1:", "ark,t,:", "scp,9:", "ark;t:", "ark,t :", "arks:", "scp,p", "ark,_:", "ark,t,bg:x:"]
    alpha = "abwvnpyzhdf5stlcog._,:|/-_ AZ09k"
    out = []
    for p in pres:
        out.append(p)
        out.append(p + "f.npy")
    for s in sufs:
        out.append(s)
        out.append("x" + s)
    while len(out) < n:
        u = r.random()
        if u < 0.6:
            out.append(r.choice(pres) + r.choice(stems) + r.choice(sufs))
        elif u < 0.8:
            out.append("".join(r.choice(alpha) for _ in range(r.randint(0, 9))))
        else:
            base = r.choice(pres) + r.choice(stems) + r.choice(sufs)
            if base:
                i = r.randrange(len(base))
                base = base[:i] + r.choice(alpha) + base[i + (r.random() < 0.5):]
            out.append(base)
    return out[:n]


SF_VARIANTS = [None, [], ["flac"], ["ogg", "wav"], ["aiff", "flac", "ogg"], ["aiff", "flac", "ogg", "wav"]]


def ref_infer(name, sf):
    """The selection strategy as read_signal's docstring states it (steps 1-10)."""
    import re

    if re.match(r"^(ark|scp)(,\w+)*:", name):
        return ("ok", "table")
    last = name.rsplit(".", 1)[-1]
    if last in sf:
        return ("ok", last)
    for suf, t in ((".wav", "wav"), (".hdf5", "hdf5"), (".npy", "npy"), (".npz", "npz"), (".pt", "pt"), (".sph", "sph"), ("|", "kaldi")):
        if name.endswith(suf):
            return ("ok", t)
    return ("err", "EIO")


def observe_infer(util, config, sf, name):
    old = config.SOUNDFILE_SUPPORTED_FILE_TYPES
    config.SOUNDFILE_SUPPORTED_FILE_TYPES = set(sf)
    try:
        try:
            v = util._infer_force_as_from_rfilename(name)
        except Exception as e:  # noqa: BLE001
            return ("err", exn_enum(e))
        if not isinstance(v, str):
            return ("err", "ECodec")
        return ("ok", v)
    finally:
        config.SOUNDFILE_SUPPORTED_FILE_TYPES = old


# ---- wds


def container_bytes(np, c):
    p = os.path.join(FILES, "wds_tmp")
    write_content(np, c, p)
    with open(p, "rb") as f:
        b = f.read()
    os.remove(p)
    return b


WDS_KEY = {"wav": ".wav", "npy": ".npy", "pt": ".pt", "npz": ".npz", "h5": ".hdf5", "sph": ".sph"}


class quiet_stderr:
    """libsndfile's virtual-IO callbacks and HDF5 print diagnostics for garbage
    input straight to file descriptor 2; keep the check's output readable."""

    def __enter__(self):
        sys.stderr.flush()
        self.saved = os.dup(2)
        self.null = os.open(os.devnull, os.O_WRONLY)
        os.dup2(self.null, 2)

    def __exit__(self, *a):
        sys.stderr.flush()
        os.dup2(self.saved, 2)
        os.close(self.saved)
        os.close(self.null)


def wds_call(util, key, data):
    with warnings.catch_warnings(), quiet_stderr():
        warnings.simplefilter("ignore")
        try:
            return ("ret", util.wds_read_signal(key, data))
        except BaseException as e:  # noqa: BLE001 - "never raises" is the property
            return ("raised", type(e).__name__ + ": " + str(e)[:80])


# --------------------------------------------------------------------------
# direct statement of the property on the implementation (search)


def search(ctx, np, util, config, sf_actual, icases=()):
    r = ctx.rng
    bad = []
    sf_initial = set(getattr(config, "SOUNDFILE_SUPPORTED_FILE_TYPES", ()))
    # the documented selection strategy, on every generated name
    for sfv, nm, obs in icases:
        ctx.count("search:infer_vs_documented_rules")
        want = ref_infer(nm, sfv)
        if tuple(obs) != want:
            bad.append(("infer", dict(name=nm, soundfile_types=sfv, got=obs, documented=want)))
            if len(bad) > 20:
                break
    import wave

    import h5py
    import soundfile
    import torch

    nrt = ctx.scale(400, 3000)

    def same(a, b):
        return isinstance(a, np.ndarray) and a.dtype == b.dtype and a.shape == b.shape and a.tobytes() == b.tobytes()

    def rnd(dt, shape, small=False, nonneg=False):
        dt = np.dtype(dt)
        n = prod(shape)
        if dt.kind == "f":
            x = np.array([r.choice([0.0, -0.0, 1e-30, 3.5, -2.25e10, 1 / 3]) if r.random() < 0.2 else r.gauss(0, 1000) for _ in range(n)])
            if small:
                x = np.clip(x, -100, 100)
            if nonneg:
                x = np.abs(x)
            return x.astype(dt).reshape(shape)
        info = np.iinfo(dt)
        lo, hi = (max(info.min, -100), min(info.max, 100)) if small else (info.min, info.max)
        if nonneg:
            lo = max(lo, 0)
        return np.array([r.randint(lo, hi) for _ in range(n)], dtype=dt).reshape(shape)

    def rnd_for(dt, shape, cast, saturating=False):
        """Data whose cast to ``cast`` is defined and the same for every C
        conversion: a float source (or a saturating converter) must stay inside
        the target's range; integer to integer wraps and is left unrestricted."""
        if cast is None:
            return rnd(dt, shape)
        src_f = np.dtype(dt).kind == "f"
        if src_f or saturating:
            return rnd(dt, shape, small=True, nonneg=cast.kind == "u")
        return rnd(dt, shape, small=cast.kind == "f")

    def both_paths(path, force, **kw):
        """read from the name (suffix inferred) and from an open binary stream."""
        res = []
        with warnings.catch_warnings():
            warnings.simplefilter("ignore")
            res.append(("path", util.read_signal(path, **kw)))
            with open(path, "rb") as f:
                res.append(("stream", util.read_signal(f, force_as=force, **kw)))
            if force != "file":
                with open(path, "rb") as f:
                    res.append(("bytesio", util.read_signal(io.BytesIO(f.read()), force_as=force, **kw)))
        return res

    for i in range(nrt):
        kind = r.choice(["wav", "npy", "npz", "pt", "h5", "flac", "aiff", "sph", "raw"])
        if i % 40 == 7:
            kind = r.choice(["wav", "wav", "flac"])
        cast = r.choice([None, None] + [np.dtype(d) for d in ALL_DT]) if r.random() < 0.5 else None
        path = os.path.join(FILES, "s%05d" % i)
        detail = dict(container=kind, cast=None if cast is None else cast.name)
        try:
            if kind in ("wav", "flac", "aiff", "sph"):
                t = r.choice([0, 1, 2, 7, 50, 400]) if kind == "wav" else r.choice([1, 2, 7, 50, 400])
                ch = r.choice([1, 1, 2, 3, 6])
                if kind in ("wav", "flac", "aiff") and i % 40 == 7:
                    # recordings of many seconds (more frames than fit a 16-bit counter), mono and multi-channel
                    t, ch = r.choice([65537, 70001, 150000]), r.choice([1, 2, 2, 5])
                    ctx.count("roundtrip:long-audio")
                if kind == "sph" and r.random() < 0.4:
                    # data sections longer than the reader's 16 KiB block, with frame sizes that do not divide it
                    t, ch = r.choice([2731, 3000, 5500, 9000]), r.choice([1, 3, 5, 6, 7])
                    ctx.count("roundtrip:sph>16KiB")
                dt = r.choice(["<i2", "<i4"]) if kind in ("wav", "sph") else "<i2"
                a = rnd_for(dt, [t, ch] if ch > 1 else [t], cast)
                detail.update(frames=t, channels=ch, sample_dtype=dt, data=a.ravel()[:12].tolist())
                path += "." + kind
                if kind == "wav":
                    with wave.open(path, "wb") as wf:
                        wf.setnchannels(ch)
                        wf.setsampwidth(a.dtype.itemsize)
                        wf.setframerate(16000)
                        wf.writeframes(a.tobytes("C"))
                    force = "wav"
                elif kind == "sph":
                    # either byte order on disk (the classic NIST corpora are big-endian): the array read back is the stored
                    # one, in the host's own dtype
                    endian = r.choice(["LITTLE", "BIG"])
                    ctx.count("roundtrip:sph:" + endian)
                    detail["byte_order_on_disk"] = endian
                    soundfile.write(path, a, 16000, format="NIST", subtype="PCM_16" if a.dtype.itemsize == 2 else "PCM_32", endian=endian)
                    force = "sph"
                else:
                    soundfile.write(path, a, 16000, format=kind.upper(), subtype="PCM_16")
                    force = r.choice([kind, "soundfile"])
                exp = a
            elif kind == "npy":
                a = rnd_for(r.choice(ALL_DT), rand_shape(r), cast)
                path += ".npy"
                np.save(path, a)
                force, exp = "npy", a
                detail.update(dtype=a.dtype.name, shape=list(a.shape))
            elif kind == "pt":
                a = rnd_for(r.choice(TORCH_OK), rand_shape(r), cast)
                path += ".pt"
                torch.save(torch.from_numpy(a.copy()), path)
                force, exp = "pt", a
                detail.update(dtype=a.dtype.name, shape=list(a.shape))
            elif kind == "npz":
                ents = {k: rnd_for(r.choice(ALL_DT), rand_shape(r, 2), cast) for k in r.sample(["arr_0", "a", "b", "arr_1"], r.choice([1, 2, 3]))}
                ents.setdefault("arr_0", rnd_for("float64", [3], cast))
                path += ".npz"
                (np.savez_compressed if r.random() < 0.5 else np.savez)(path, **ents)
                kk = r.choice([None] + list(ents))
                force, exp = "npz", ents[kk or "arr_0"]
                detail.update(keys=list(ents), key=kk)
            elif kind == "h5":
                path += ".hdf5"
                # HDF5 converts while reading and saturates: keep the data representable
                tree = rand_tree(r, 3, None)
                ds, _ = tree_paths(tree)
                if not ds:
                    tree.append(("zz", ("d", dict(dt="int16", shape=[2], data=[1, 2]))))
                    ds = ["zz"]
                arrays = {}

                def fill(tr, prefix=""):
                    for k2, n in tr:
                        if n[0] == "d":
                            arrays[prefix + k2] = rnd_for(n[1]["dt"], n[1]["shape"], cast, saturating=True)
                        else:
                            fill(n[1], prefix + k2 + "/")

                fill(tree)
                with h5py.File(path, "w") as hf:
                    for pth, arr in arrays.items():
                        hf.create_dataset(pth, data=arr)
                    _, gs = tree_paths(tree)
                    for g in gs:
                        hf.require_group(g)
                kk = r.choice([None] + ds)
                # expected without a key: first dataset in pre-order, children by ascending name

                def first(tr, prefix=""):
                    for k2, n in sorted(tr, key=lambda kn: kn[0]):
                        if n[0] == "d":
                            return prefix + k2
                        f2 = first(n[1], prefix + k2 + "/")
                        if f2 is not None:
                            return f2
                    return None

                exp = arrays[kk if kk else first(tree)]
                force = "hdf5"
                detail.update(tree=repr(tree)[:300], key=kk)
            else:
                a = rnd(r.choice(ALL_DT), [r.choice([0, 1, 5, 100])])
                path += ".bin"
                a.tofile(path)
                cast = a.dtype  # raw data has no stored type: dtype is how it is read
                force, exp, kk = "file", a, None
                detail.update(dtype=a.dtype.name, n=int(a.size))
            kw = {}
            if kind in ("npz", "h5") and kk is not None:
                kw["key"] = kk
            if cast is not None:
                kw["dtype"] = r.choice([cast, cast.name, cast.type])
            if kind == "raw":
                with warnings.catch_warnings():
                    warnings.simplefilter("ignore")
                    got = [("path", util.read_signal(path, force_as="file", **kw))]
                    with open(path, "rb") as f:
                        got.append(("stream", util.read_signal(f, force_as="file", **kw)))
                want = exp
            else:
                got = both_paths(path, force, **kw)
                with np.errstate(all="ignore"), warnings.catch_warnings():
                    warnings.simplefilter("ignore")
                    want = exp if cast is None else exp.astype(cast)
            for how, g in got:
                ctx.count("search:roundtrip:" + kind)
                if not same(g, want):
                    bad.append(("roundtrip", dict(detail, access=how, force_as=force,
                                                  got=(str(getattr(g, "dtype", type(g))), list(getattr(g, "shape", []))),
                                                  want=(want.dtype.name, list(want.shape)))))
        except Exception as e:  # noqa: BLE001
            bad.append(("roundtrip-raised", dict(detail, error=type(e).__name__ + ": " + str(e)[:120])))
        finally:
            for ext in ("", ".wav", ".flac", ".aiff", ".sph", ".npy", ".npz", ".pt", ".hdf5", ".bin"):
                pp = os.path.join(FILES, "s%05d" % i) + ext
                if os.path.exists(pp):
                    os.remove(pp)
    # error types
    a = np.arange(6, dtype=np.int16)
    blob = io.BytesIO()
    np.save(blob, a)
    for name in ["nosuffix", "a.txt", "a.wav.bak", "", "a.WAV", "a.npy ", "npy", "dir.npy/file", "x.hdf"]:
        ctx.count("search:errors")
        try:
            util.read_signal(name)
            bad.append(("no_suffix", dict(name=name, got="no exception")))
        except IOError:
            pass
        except Exception as e:  # noqa: BLE001
            bad.append(("no_suffix", dict(name=name, got=type(e).__name__)))
    for fa in [None, "foo", "", "WAV", "numpy", "mp3", "kaldi", "table", "Npy", "npy "]:
        ctx.count("search:errors")
        blob.seek(0)
        try:
            util.read_signal(blob, force_as=fa)
            bad.append(("stream_force_as", dict(force_as=fa, got="no exception")))
        except ValueError:
            pass
        except Exception as e:  # noqa: BLE001
            bad.append(("stream_force_as", dict(force_as=fa, got=type(e).__name__)))
    # every kind of open binary stream: file objects, in-memory and spooled files, tempfile's wrapper object (not an
    # io.IOBase), a delegating reader - read with force_as, ValueError without
    import tempfile

    class Delegating(object):
        def __init__(self, raw):
            self._raw = raw

        def read(self, *a):
            return self._raw.read(*a)

        def readline(self, *a):
            return self._raw.readline(*a)

        def seek(self, *a):
            return self._raw.seek(*a)

        def tell(self):
            return self._raw.tell()

    def streams(payload):
        yield "io.BytesIO", io.BytesIO(payload)
        yield "io.BufferedReader", io.BufferedReader(io.BytesIO(payload))
        t = tempfile.NamedTemporaryFile(dir=FILES)
        t.write(payload)
        t.flush()
        t.seek(0)
        yield "tempfile.NamedTemporaryFile", t
        sp = tempfile.SpooledTemporaryFile(dir=FILES)
        sp.write(payload)
        sp.seek(0)
        yield "tempfile.SpooledTemporaryFile", sp
        yield "delegating reader", Delegating(io.BytesIO(payload))
        # streams whose .name is not a string: an anonymous temporary file / a wrapped descriptor (name = the fd)
        tf = tempfile.TemporaryFile(dir=FILES)
        tf.write(payload)
        tf.seek(0)
        yield "tempfile.TemporaryFile", tf
        tf2 = tempfile.TemporaryFile(dir=FILES)
        tf2.write(payload)
        tf2.seek(0)
        yield "os.fdopen", os.fdopen(os.dup(tf2.fileno()), "rb")
        tf2.close()

    # the same array in several containers (written by the container's own writer, SPHERE header by hand)
    pay = {"npy": (blob.getvalue(), a)}
    a16 = (np.arange(40, dtype=np.int16) * 257 - 5000).reshape(20, 2)
    wb = io.BytesIO()
    with wave.open(wb, "wb") as wf:
        wf.setnchannels(2)
        wf.setsampwidth(2)
        wf.setframerate(8000)
        wf.writeframes(a16.tobytes("C"))
    pay["wav"] = (wb.getvalue(), a16)
    hdr = ("NIST_1A\n   1024\nchannel_count -i 2\nsample_count -i 20\nsample_rate -i 8000\nsample_n_bytes -i 2\n"
           "sample_byte_format -s2 01\nsample_coding -s3 pcm\nend_head\n").encode()
    pay["sph"] = (hdr + b" " * (1024 - len(hdr)) + a16.astype("<i2").tobytes("C"), a16)
    hdrbe = hdr.replace(b"sample_byte_format -s2 01", b"sample_byte_format -s2 10")
    pay["sph-be"] = (hdrbe + b" " * (1024 - len(hdrbe)) + a16.astype(">i2").tobytes("C"), a16)
    # a header of 3072 bytes whose fields (speaker and session notes, as the corpora carry them) run past the first 1024
    notes = "".join("note_%03d -s40 %s\n" % (k, ("session remark %03d " % k).ljust(40, "x")) for k in range(30))
    hdrl = ("NIST_1A\n   3072\n" + notes + "channel_count -i 2\nsample_count -i 20\nsample_rate -i 8000\nsample_n_bytes -i 2\n"
            "sample_byte_format -s2 01\nsample_coding -s3 pcm\nend_head\n").encode()
    assert 1024 < len(hdrl) < 3072
    pay["sph-long-header"] = (hdrl + b" " * (3072 - len(hdrl)) + a16.astype("<i2").tobytes("C"), a16)
    a8 = np.array([0, 1, 127, 128, 200, 255, 64, 129], dtype=np.uint8)
    hdr8 = ("NIST_1A\n   1024\nchannel_count -i 1\nsample_count -i 8\nsample_rate -i 8000\nsample_n_bytes -i 1\n"
            "sample_byte_format -s1 1\nsample_coding -s3 pcm\nend_head\n").encode()
    pay["sph8"] = (hdr8 + b" " * (1024 - len(hdr8)) + a8.tobytes(), a8)
    tb = io.BytesIO()
    torch.save(torch.from_numpy(a16.copy()), tb)
    pay["pt"] = (tb.getvalue(), a16)
    for cont, fa_ok in (("npy", "npy"), ("wav", "wav"), ("sph", "sph"), ("sph-be", "sph"), ("sph-long-header", "sph"), ("sph8", "sph"), ("pt", "pt")):
        payload, want = pay[cont]
        for fa in (None, fa_ok):
            for sname, st in streams(payload):
                ctx.count("search:stream-kinds")
                try:
                    got = util.read_signal(st, force_as=fa)
                    if fa is None:
                        bad.append(("stream_force_as", dict(stream=sname, container=cont, force_as=None, got="no exception")))
                    elif not same(got, want):
                        bad.append(("roundtrip", dict(container=cont, access=sname, force_as=fa, got=str(got)[:80], got_dtype=str(getattr(got, "dtype", None)),
                                                      want=str(want)[:80], want_dtype=str(want.dtype))))
                except ValueError as e:
                    if fa is not None:
                        bad.append(("roundtrip-raised", dict(container=cont, access=sname, force_as=fa, error="ValueError: " + str(e)[:100])))
                except Exception as e:  # noqa: BLE001
                    bad.append(("stream_force_as" if fa is None else "roundtrip-raised",
                                dict(stream=sname, container=cont, force_as=fa, got=type(e).__name__, error=str(e)[:100])))
                finally:
                    try:
                        st.close()
                    except Exception:  # noqa: BLE001
                        pass
    # the record starts where the stream stands, not at byte 0: a record behind a preamble the caller has already consumed,
    # consecutive records in one stream (np.save several arrays into one file, read them back one after the other)
    for cont, fa_ok in (("npy", "npy"), ("wav", "wav"), ("sph", "sph"), ("sph8", "sph")):
        payload, want = pay[cont]
        for pre_len in (1, 8, 44, 1024):
            st = io.BytesIO(bytes((7 * k) % 251 for k in range(pre_len)) + payload)
            st.seek(pre_len)
            ctx.count("search:stream-positioned")
            try:
                got = util.read_signal(st, force_as=fa_ok)
                if not same(got, want):
                    bad.append(("roundtrip", dict(container=cont, access="BytesIO positioned at byte %d (record behind a preamble)" % pre_len, force_as=fa_ok,
                                                  got=str(got)[:80], got_dtype=str(getattr(got, "dtype", None)), want=str(want)[:80])))
            except Exception as e:  # noqa: BLE001
                bad.append(("roundtrip-raised", dict(container=cont, access="BytesIO positioned at byte %d (record behind a preamble)" % pre_len, force_as=fa_ok,
                                                     error="%s: %s" % (type(e).__name__, str(e)[:100]))))
    recs = [np.arange(6, dtype=np.float32).reshape(2, 3), (np.arange(50) * 3 - 70).astype(np.int16), np.linspace(0, 1, 8).reshape(2, 2, 2)]
    st = io.BytesIO()
    for a in recs:
        np.save(st, a)
    st.seek(0)
    for k, a in enumerate(recs):
        ctx.count("search:stream-consecutive-records")
        try:
            got = util.read_signal(st, force_as="npy")
            if not same(got, a):
                bad.append(("roundtrip", dict(container="npy", access="record #%d of %d consecutive np.save records in one stream" % (k + 1, len(recs)), force_as="npy",
                                              got=str(got)[:80], got_dtype=str(getattr(got, "dtype", None)), want=str(a)[:80], want_dtype=str(a.dtype))))
                break
        except Exception as e:  # noqa: BLE001
            bad.append(("roundtrip-raised", dict(container="npy", access="record #%d of consecutive np.save records" % (k + 1), force_as="npy",
                                                 error="%s: %s" % (type(e).__name__, str(e)[:100]))))
            break
    # a PyTorch file in the legacy (non-zip) layout, as torch < 1.6 wrote it: by name and from a stream
    try:
        lp = os.path.join(FILES, "legacy_layout.pt")
        torch.save(torch.from_numpy(a16.copy()), lp, _use_new_zipfile_serialization=False)
    except Exception:  # noqa: BLE001 - this torch cannot write the layout any more: nothing to read
        lp = None
    if lp is not None:
        for access in ("path", "stream"):
            ctx.count("search:pt-legacy-layout")
            try:
                if access == "path":
                    got = util.read_signal(lp)
                else:
                    with open(lp, "rb") as f:
                        got = util.read_signal(f, force_as="pt")
                if not same(got, a16):
                    bad.append(("roundtrip", dict(container="pt (legacy non-zip layout)", access=access, got=str(got)[:80], got_dtype=str(getattr(got, "dtype", None)))))
            except Exception as e:  # noqa: BLE001
                bad.append(("roundtrip-raised", dict(container="pt (legacy non-zip layout)", access=access, error="%s: %s" % (type(e).__name__, str(e)[:100]))))
        os.remove(lp)
    for fa in ["foo", "", "WAV", "numpy", "mp3", "Npy"]:
        ctx.count("search:errors")
        try:
            util.read_signal("whatever.npy", force_as=fa)
            bad.append(("unknown_force_as", dict(force_as=fa, got="no exception")))
        except ValueError:
            pass
        except Exception as e:  # noqa: BLE001
            bad.append(("unknown_force_as", dict(force_as=fa, got=type(e).__name__)))
    # AFTER the error paths above have run (they mention every known force_as keyword): existing files named
    # after those keywords still have "no recognised suffix" - the dispatch tables must not have learnt anything
    os.makedirs(FILES, exist_ok=True)
    kw_names = []
    for kwd in ["file", "soundfile", "kaldi", "table", "numpy", "foo", "WAV", "mp3", "Npy", "hdf", "sphere"]:
        pth = os.path.join(FILES, "sig_%d.%s" % (len(kw_names), kwd))
        with open(pth, "wb") as fo:
            fo.write(np.arange(64, dtype=np.int16).tobytes())
        kw_names.append(pth)
    sf_types = set(getattr(config, "SOUNDFILE_SUPPORTED_FILE_TYPES", ()))
    for pth in kw_names:
        if pth.rsplit(".", 1)[-1] in sf_actual:
            continue  # a container libsndfile really supports under that suffix
        ctx.count("search:errors_after_history")
        try:
            got = util.read_signal(pth)
            bad.append(("no_suffix_after_history", dict(name=os.path.basename(pth), got="no exception: %s" % str(got)[:60],
                                                        history="ValueError for unknown force_as values raised earlier in this process")))
        except IOError as e:
            if "infer" not in str(e).lower() and not isinstance(e, FileNotFoundError):
                pass  # any IOError is what the property asks for
        except Exception as e:  # noqa: BLE001
            bad.append(("no_suffix_after_history", dict(name=os.path.basename(pth), got=type(e).__name__, error=str(e)[:100],
                                                        history="ValueError for unknown force_as values raised earlier in this process")))
    if set(getattr(config, "SOUNDFILE_SUPPORTED_FILE_TYPES", ())) != set(sf_initial):
        # not a violation by itself (the property speaks of read_signal's results only): recorded
        ctx.count("search:config_soundfile_types_changed_during_run")
    for pth in kw_names:
        try:
            os.remove(pth)
        except OSError:
            pass
    # wds_read_signal on garbage: never raises, None or an array
    seeds = []
    for kind in ["wav", "npy", "pt", "npz", "h5", "sph", "snd"]:
        c = gen_content(r, kind, None)
        try:
            seeds.append((WDS_KEY.get(kind) or "." + c["fmt"], container_bytes(np, c)))
        except Exception:  # noqa: BLE001
            pass
    keys = [".wav", ".npy", ".pt", ".npz", ".hdf5", ".sph", ".flac", ".ogg", ".aiff", "flac", "wav", "npy", ".json", "", "ark:x", "x|", ".txt", "utt.1.npy"]
    # well-formed headers announcing absurd sizes: the decoder's allocation fails (MemoryError / ValueError), which is
    # one more thing wds_read_signal must turn into None
    for cnt in (2 ** 52 + 1, 2 ** 60, 2 ** 40):
        hdr = ("NIST_1A\n   1024\nchannel_count -i 1\nsample_count -i %d\nsample_rate -i 8000\nsample_n_bytes -i 2\n"
               "sample_byte_format -s2 01\nsample_coding -s3 pcm\nend_head\n" % cnt).encode()
        big = hdr + b" " * (1024 - len(hdr)) + bytes(64)
        ctx.count("search:wds_absurd_size")
        res = wds_call(util, ".sph", big)
        if res[0] == "raised":
            bad.append(("wds_raises", dict(key=".sph", what="SPHERE header announcing %d samples" % cnt, error=res[1])))
    for shp in ("(%d,)" % (2 ** 52 + 1), "(%d, %d)" % (2 ** 31, 2 ** 29)):
        h = ("{'descr': '<f8', 'fortran_order': False, 'shape': %s, }" % shp).encode()
        h = h + b" " * ((64 - (10 + len(h) + 1) % 64) % 64) + b"\n"
        big = b"\x93NUMPY\x01\x00" + len(h).to_bytes(2, "little") + h + bytes(64)
        ctx.count("search:wds_absurd_size")
        res = wds_call(util, ".npy", big)
        if res[0] == "raised":
            bad.append(("wds_raises", dict(key=".npy", what="npy header announcing shape %s" % shp, error=res[1])))
    for i in range(ctx.scale(4000, 40000)):
        u = r.random()
        if u < 0.3:
            data = bytes(r.randrange(256) for _ in range(r.choice([0, 1, 4, 16, 64, 300])))
            key = r.choice(keys)
        elif u < 0.65:
            key, b0 = r.choice(seeds)
            data = b0[: r.randrange(len(b0) + 1)]
            if r.random() < 0.3:
                key = r.choice(keys)
        else:
            key, b0 = r.choice(seeds)
            bb = bytearray(b0)
            for _ in range(r.choice([1, 1, 2, 8])):
                if bb:
                    bb[r.randrange(min(len(bb), r.choice([16, 64, len(bb)])))] = r.randrange(256)
            data = bytes(bb)
            if r.random() < 0.2:
                key = r.choice(keys)
        ctx.count("search:wds_garbage")
        res = wds_call(util, key, data)
        if res[0] == "raised":
            bad.append(("wds_raises", dict(key=key, data_hex=data[:400].hex(), data_len=len(data), error=res[1])))
        elif res[1] is not None and not isinstance(res[1], np.ndarray):
            # a zip handed to np.load comes back as an NpzFile: not an array, but
            # not an exception either; recorded, not a violation of "never raises"
            ctx.count("search:wds_nonarray_return")
    return bad


# --------------------------------------------------------------------------


def regenerate(ctx):
    import readsig
    from pyexpr import Unsupported

    try:
        readsig.main(os.path.join(C.SRC, "util.py"), os.path.join(C.SRC, "config.py"), os.path.join(C.COQ, "gen", "ReadSignal.v"))
        return True
    except (Unsupported, SyntaxError, OSError, AttributeError, IndexError, TypeError) as e:
        if not C.tie_fallback(ctx, "translator gen/readsig.py no longer recognises util.py/config.py: %s" % e,
                 dict(correspondence="gen/readsig.py -> coq/gen/ReadSignal.v", error=str(e)), kind="tie", no_input=True):
            return False
        return True


REQ = ("From Coq Require Import ZArith List Bool.\nFrom Verif Require Import lib.C11_Base gen.ReadSignal C11.Model.\n"
       "Import ListNotations.\nOpen Scope Z_scope.\n")


def run(ctx):
    C.ensure_impl_path()
    import importlib

    import numpy as np

    util = importlib.import_module("pydrobert.speech.util")
    config = importlib.import_module("pydrobert.speech.config")
    shutil.rmtree(FILES, ignore_errors=True)
    os.makedirs(FILES, exist_ok=True)
    sf_actual = sorted(config.SOUNDFILE_SUPPORTED_FILE_TYPES)
    try:
        import scipy  # noqa: F401

        have_scipy = True
    except ImportError:
        have_scipy = False
    ok_gen = regenerate(ctx)
    pr = C.proof_step(ctx) if ok_gen else None
    ctx.cov["trusted_base"].append("translator /verif/gen/readsig.py (Python ast -> Gallina decision chains and reader glue)")
    ctx.cov["trusted_base"].append("third-party codecs (wave, numpy, torch, h5py, soundfile/libsndfile) are oracles; _sphere.py is property C12/C13")
    r = ctx.rng
    model_ok = ok_gen
    if ok_gen and not (pr and pr["ok"]):
        # (a successful proof step has already built Model.vo; do not queue for the build lock again)
        okm, out = C.coq_make(["C11/Model.v"])
        if not okm:
            model_ok = False
            ctx.fail("model no longer compiles against the regenerated gen/ReadSignal.v", dict(correspondence="coq/C11/Model.v", log_tail=out[-1500:]), kind="tie", no_input=True)

    # ---- correspondence 1: suffix inference
    n_names = ctx.scale(3000, 30000)
    names = gen_names(r, n_names)
    icases = []
    for nm in names:
        sfv = r.choice(SF_VARIANTS)
        sfv = sf_actual if sfv is None else sfv
        obs = observe_infer(util, config, sfv, nm)
        icases.append((sfv, nm, obs))
        ctx.case(dict(fn="infer", sf=sfv, name=nm, observed=obs), nontrivial=True)
        ctx.count("infer:" + (obs[1] if obs[0] == "ok" else "Err " + obs[1]))
    ctx.log("inference: %d names observed" % len(icases))
    # ---- correspondence 2: read_signal
    n_read = ctx.scale(2000, 12000)
    rcases = []
    fixed = fixed_read_cases(sf_actual)
    for i in range(n_read):
        k = fixed[i] if i < len(fixed) else gen_read_case(r, i, sf_actual)
        obs = run_read_case(np, util, config, k)
        rcases.append((k, obs))
        ctx.count("read:" + k["kind"] + ":" + k["access"])
        ctx.count("read:outcome:" + (obs[0] if obs[0] != "err" else "Err " + obs[1]))
        if k["dtype"]:
            ctx.count("read:with_dtype")
        if k["key"] is not None:
            ctx.count("read:with_key")
        cobj = dict(fn="read_signal", kind=k["kind"], access=k["access"], name=os.path.basename(k["name"]), force_as=k["force_as"],
                    dtype=k["dtype"], key=k["key"], sf=k["sf"], content=k["content"], observed=obs[:2] if obs[0] == "err" else obs)
        ctx.case(cobj, nontrivial=obs[0] == "ok" or obs[1] in ("EIO", "EValue", "EKey", "EType"))
    ctx.log("read_signal: %d cases observed" % len(rcases))
    # ---- correspondence 3: wds_read_signal on intact containers / mismatched keys / random bytes
    n_wds = ctx.scale(600, 4000)
    wcases = []
    for i in range(n_wds):
        u = r.random()
        if u < 0.75:
            kind = r.choice(["wav", "npy", "pt", "npz", "h5", "sph", "snd"])
            c = gen_content(r, kind, None)
            while kind == "snd" and c["fmt"] == "wav":
                c = gen_content(r, kind, None)  # a .wav key goes to the wave reader
            data = container_bytes(np, c)
            right = WDS_KEY.get(kind) or "." + c["fmt"]
            key = r.choice([right, right, right, "utt%d" % i + right, right[1:], ".json", "ark:a" + right, "x" + right + "|", right.upper()])
            if kind == "snd" and r.random() < 0.1:
                key = c["fmt"]
        else:
            c = dict(kind="bad")
            data = bytes(r.randrange(256) for _ in range(r.choice([0, 1, 7, 40, 200])))
            key = r.choice([".wav", ".npy", ".pt", ".npz", ".hdf5", ".sph", ".flac", ".aiff", ".ogg", ".json", "", "npy"])
        sfv = sf_actual if r.random() < 0.85 else r.choice([[], ["flac"], ["ogg", "wav"]])
        old = config.SOUNDFILE_SUPPORTED_FILE_TYPES
        config.SOUNDFILE_SUPPORTED_FILE_TYPES = set(sfv)
        try:
            res = wds_call(util, key, data)
        finally:
            config.SOUNDFILE_SUPPORTED_FILE_TYPES = old
        if res[0] == "raised":
            obs = ("raised", res[1])
        elif res[1] is None:
            obs = ("none",)
        else:
            obs = observe_array(np, res[1])
        wcases.append((sfv, key, c, obs, data))
        ctx.count("wds:" + c["kind"] + ":" + obs[0])
        ctx.case(dict(fn="wds_read_signal", key=key, sf=sfv, content=c, observed=obs), nontrivial=True)
    ctx.cov["rule"] = (
        "cases = (a) names fed to _infer_force_as_from_rfilename under several SOUNDFILE_SUPPORTED_FILE_TYPES sets, "
        "(b) (container content written by its own writer, path|file object|BytesIO, force_as, dtype, key, type set) fed to "
        "read_signal, (c) (key, bytes) fed to wds_read_signal; each compared inside Coq with the model's answer; "
        "distinct = distinct JSON of the case; non-trivial = every inference/wds case, and read cases that return an "
        "array or raise one of the exception classes the model predicts exactly (IOError/ValueError/KeyError/TypeError)"
    )

    ctx.log("wds_read_signal: %d cases observed" % len(wcases))
    # evidence samples: two of each kind rather than the first six names
    ctx.cov["samples"] = (
        [dict(fn="infer", sf=a, name=b, observed=c) for a, b, c in icases[2:4]]
        + [dict(fn="read_signal", kind=k["kind"], access=k["access"], name=os.path.basename(k["name"]), force_as=k["force_as"],
                dtype=k["dtype"], key=k["key"], content=k["content"], observed=o[:2]) for k, o in rcases[:2]]
        + [dict(fn="wds_read_signal", key=key, sf=sfv, content=c, observed=o) for sfv, key, c, o, _ in wcases[:2]]
    )
    # things observed that the model cannot even express are failures of the tie
    mism = []
    for k, obs in rcases:
        if obs[0] == "notarray":
            mism.append(("read_signal returned %s" % obs[1], k))
    for sfv, key, c, obs, data in wcases:
        if obs[0] == "raised":
            ctx.fail("wds_read_signal raised %s for key %r" % (obs[1], key), dict(check="wds_never_raises", key=key, sf=sfv, data_hex=data[:600].hex(), data_len=len(data), content=c), kind="impl")
    if model_ok:
        files = []
        shard = 400
        idx = []
        for s in range(0, len(icases), shard):
            body = "Definition cases : list (list str * str * res str) := [\n" + ";\n".join(
                "([%s], %s, %s)" % ("; ".join(cstr(x) for x in sfv), cstr(nm), "Ok " + cstr(o[1]) if o[0] == "ok" else "Err " + o[1])
                for sfv, nm, o in icases[s:s + shard]) + "].\nEval vm_compute in (mismatches_from 0 infer_case_ok cases).\n"
            files.append(("p%d_infer_%d" % (os.getpid(), s // shard), body))
            idx.append(("infer", s))
        shard_r = 250
        rc_ok = [(k, o) for k, o in rcases if o[0] in ("ok", "err")]
        for s in range(0, len(rc_ok), shard_r):
            body = "Definition cases : list rcase := [\n" + ";\n".join(coq_read_case(k, o) for k, o in rc_ok[s:s + shard_r]) + \
                "].\nEval vm_compute in (mismatches_from 0 case_ok cases).\n"
            files.append(("p%d_read_%d" % (os.getpid(), s // shard_r), body))
            idx.append(("read", s))
        wc_ok = [w for w in wcases if w[3][0] in ("none", "ok")]
        for s in range(0, len(wc_ok), shard_r):
            body = "Definition cases : list (list str * str * content * option arr) := [\n" + ";\n".join(
                "([%s], %s, %s, %s)" % ("; ".join(cstr(x) for x in sfv), cstr(key), ccontent(c), "None" if o[0] == "none" else "Some " + carr(o[1]))
                for sfv, key, c, o, _ in wc_ok[s:s + shard_r]) + "].\nEval vm_compute in (mismatches_from 0 wds_case_ok cases).\n"
            files.append(("p%d_wds_%d" % (os.getpid(), s // shard_r), body))
            idx.append(("wds", s))
        for w in wcases:
            if w[3][0] == "notarray":
                mism.append(("wds_read_signal returned %s" % w[3][1], dict(key=w[1], content=w[2], sf=w[0])))
        res = C.coq_eval_many(ctx, files, REQ)
        for fn in os.listdir(os.path.join(C.BUILD, PID)):
            if fn.startswith("p%d_" % os.getpid()) or fn.startswith(".p%d_" % os.getpid()):
                try:
                    os.remove(os.path.join(C.BUILD, PID, fn))
                except OSError:
                    pass
        for (name, _), (ans, log), (what, base) in zip(files, res, idx):
            if ans is None or len(ans) != 1:
                ctx.fail("case file %s does not evaluate" % name, dict(correspondence=name, log_tail=(log or "")[-1200:]), kind="tie", no_input=True)
                continue
            bad_idx = C.parse_coq(ans[0])
            src = {"infer": icases, "read": rc_ok, "wds": wc_ok}[what]
            size = shard if what == "infer" else shard_r
            ctx.cov["traces_validated_against_impl"] += min(size, len(src) - base) - len(bad_idx)
            for j in bad_idx[:5]:
                item = src[base + j]
                if what == "infer":
                    mism.append(("_infer_force_as_from_rfilename(%r) with type set %r gave %r; the model disagrees" % (item[1], item[0], item[2]),
                                 dict(function="_infer_force_as_from_rfilename", name=item[1], soundfile_types=item[0], observed=item[2])))
                elif what == "read":
                    k, o = item
                    mism.append(("read_signal on %s content via %s (force_as=%r, dtype=%r, key=%r) gave %r; the model disagrees" % (
                        k["kind"], k["access"], k["force_as"], k["dtype"], k["key"], o if o[0] == "err" else (o[1]["dt"], o[1]["shape"])),
                        dict(function="read_signal", case={kk: vv for kk, vv in k.items()}, observed=o)))
                else:
                    mism.append(("wds_read_signal(%r, <%s>) gave %r; the model disagrees" % (item[1], item[2]["kind"], item[3][0]),
                                 dict(function="wds_read_signal", key=item[1], soundfile_types=item[0], content=item[2], observed=item[3])))
    for what, detail in mism[:10]:
        ctx.fail(what, dict(correspondence="model evaluated by vm_compute vs implementation", input=detail), kind="correspondence")

    ctx.log("model evaluated on all cases: %d agree, %d disagree" % (ctx.cov["traces_validated_against_impl"], len(mism)))
    # ---- search on the implementation itself
    bad = search(ctx, np, util, config, sf_actual, icases)
    for name, detail in bad[:10]:
        ctx.fail("property violated on the implementation (%s): %r" % (name, detail), dict(check=name, input=detail), kind="impl")
    if pr is not None and not pr["ok"] and not bad and not mism:
        ctx.log("search found no failing input on the implementation")
    shutil.rmtree(FILES, ignore_errors=True)
    ctx.assumptions += [
        "third-party codecs are oracles: the model sees a file as its decoded content; their round trips are differential evidence",
        "array elements are integer-coded (floats carry small integers) so that casts are exact; out-of-range float->int casts are not generated",
        "names are ASCII in the Coq-compared cases (\\w is a parameter of the theorems, instantiated with [A-Za-z0-9_] for evaluation)",
        "scipy is %s in this environment; the model covers the wave-module branch of the wav reader" % ("PRESENT" if have_scipy else "absent"),
        "a force_as that contradicts the content is only generated for readers certain to reject it (hdf5, sph, pt)",
    ]
    return C.finish(ctx, "proof")


# --------------------------------------------------------------------------
# ./check C11 --replay replay/C11-<seed>.json


def replay(ctx, rp):
    """Re-run the recorded case on the implementation (and, where the case is a
    correspondence case, on the model).  Exit status 1 if it still fails."""
    C.ensure_impl_path()
    import importlib
    import json

    import numpy as np

    util = importlib.import_module("pydrobert.speech.util")
    config = importlib.import_module("pydrobert.speech.config")
    os.makedirs(FILES, exist_ok=True)
    f = rp.get("failure", {})
    info = f.get("replay", {})
    inp = info.get("input", info)
    print("recorded:", f.get("what", "")[:400])
    regenerate(ctx)

    def model_says(body):
        ans, log = C.coq_eval(ctx, "replay_case", body, REQ)
        if ans is None:
            print("model evaluation failed:\n" + (log or "")[-800:])
            return None
        return ans[0]

    fn = inp.get("function")
    if fn == "_infer_force_as_from_rfilename" or info.get("check") == "infer":
        name, sfv = inp["name"], inp["soundfile_types"]
        obs = observe_infer(util, config, sfv, name)
        doc = ref_infer(name, sfv)
        m = model_says("Eval vm_compute in (infer ascii_word [%s] %s).\n" % ("; ".join(cstr(x) for x in sfv), cstr(name)))
        print("implementation:", obs, " documented rules:", doc, " model:", m)
        return 0 if tuple(obs) == doc else 1
    if fn == "read_signal":
        k = inp["case"]
        obs = run_read_case(np, util, config, k)
        print("implementation:", obs if obs[0] != "ok" else (obs[1]["dt"], obs[1]["shape"], obs[1]["data"][:20]))
        if obs[0] in ("ok", "err"):
            m = model_says("Eval vm_compute in (let k := %s in (case_ok k, run_case k)).\n" % coq_read_case(k, obs))
            print("model (agrees, answer):", (m or "")[:600])
            return 0 if m and m.lstrip("( ").startswith("true") else 1
        return 1
    if fn == "wds_read_signal":
        c = inp["content"]
        data = container_bytes(np, c) if c.get("kind") != "bad" else b""
        old = config.SOUNDFILE_SUPPORTED_FILE_TYPES
        config.SOUNDFILE_SUPPORTED_FILE_TYPES = set(inp["soundfile_types"])
        try:
            res = wds_call(util, inp["key"], data)
        finally:
            config.SOUNDFILE_SUPPORTED_FILE_TYPES = old
        print("implementation:", res[0], None if res[1] is None else getattr(res[1], "shape", res[1]))
        return 1 if res[0] == "raised" else 0
    if info.get("check") in ("wds_raises", "wds_never_raises") and "data_hex" in inp:
        data = bytes.fromhex(inp["data_hex"])
        if inp.get("data_len", len(data)) != len(data):
            print("note: only the first %d of %d bytes were recorded" % (len(data), inp["data_len"]))
        res = wds_call(util, inp["key"], data)
        print("implementation:", res[0], res[1] if res[0] == "raised" else type(res[1]).__name__)
        return 1 if res[0] == "raised" else 0
    print(json.dumps(rp, indent=1)[:4000])
    print("(no automatic replay for this kind of failure: re-run ./check C11 with VERIF_SEED=%s)" % rp.get("seed"))
    return 0
