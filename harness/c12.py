"""C12 - uncompressed NIST SPHERE audio decodes exactly.

Proof: coq/C12 (model of read_header / copy_samples / sphere_read_signal, the
G.711 tables against the ITU-T bit formulas, the read loop for every way the
data can be split into reads).
Tie: (1) translator gen/sphere.py regenerates coq/gen/Sphere.v (tables,
constants, key dispatch, header guards, in_type chain) from _sphere.py and the
theorems are re-checked against it; (2) correspondence: files are built from
segment descriptions on both sides (literal bytes, runs, a 16-bit xorshift
stream), decoded by read_signal(..., force_as="sph") and by the model inside Coq
(vm_compute); Coq compares digests (warning, dtype, shape, length, two weighted
sums, and all values for small results) and prints the disagreeing indices.
Search: a direct statement of the property on the implementation (numpy-built
files with known samples; an independent G.711 expander).
"""

import io
import os
import sys
import warnings

from . import common as C

sys.path.insert(0, os.path.join(C.ROOT, "gen"))

PID = "C12"
FULL = 600  # results with at most this many cells are compared value by value inside Coq

# ----------------------------------------------------------------------------
# byte material shared with coq/C12/Harness.v


def _xs_next(x):
    a = (x ^ (x << 7)) & 0xFFFF
    b = a ^ (a >> 9)
    return (b ^ (b << 8)) & 0xFFFF


_CYCLE = None


def xs_bytes(n, seed):
    """lcg_bytes n seed of Harness.v (16-bit xorshift 7,9,8; byte = low 8 bits)."""
    global _CYCLE
    if _CYCLE is None:
        states, pos, x = [], {}, 1
        for i in range(65535):
            x = _xs_next(x)
            pos[x] = i
            states.append(x & 255)
        assert len(pos) == 65535
        _CYCLE = (bytes(states), pos, _xs_next)
    cyc, pos, _ = _CYCLE
    assert 0 < seed < 65536
    start = pos[_xs_next(seed)]
    out = bytearray()
    while len(out) < n:
        take = min(n - len(out), 65535 - start)
        out += cyc[start:start + take]
        start = (start + take) % 65535
    return bytes(out)


def seg_bytes(seg):
    k = seg[0]
    if k == "Lit":
        return bytes(seg[1])
    if k == "Rep":
        return bytes([seg[1]]) * seg[2]
    if k == "Lcg":
        return xs_bytes(seg[1], seg[2])
    raise ValueError(k)


def file_of(segs):
    return b"".join(seg_bytes(s) for s in segs)


def seg_coq(seg):
    k = seg[0]
    if k == "Lit":
        return "Lit %s" % C.zlist(list(seg[1]))
    if k == "Rep":
        return "Rep %d %d" % (seg[1], seg[2])
    return "Lcg %d %d" % (seg[1], seg[2])


DTYPES = {
    None: None,
    "int16": ("KInt", 2),
    "uint8": ("KUint", 1),
    "int8": ("KInt", 1),
    "uint16": ("KUint", 2),
    "int32": ("KInt", 4),
    "int64": ("KInt", 8),
    "float32": ("KFloat", 4),
    "float64": ("KFloat", 8),
}
KIND_CODE = {"i": 0, "u": 1, "f": 2}


def dtype_coq(name):
    d = DTYPES[name]
    return "None" if d is None else "(Some {| dk := %s; dsize := %d |})" % d


# ----------------------------------------------------------------------------
# headers

MAND = ["channel_count", "sample_count", "sample_rate", "sample_n_bytes", "sample_byte_format", "sample_coding"]


def std_fields(coding, nbytes, order, chans, count, rate=16000):
    f = []
    if chans is not None:
        f.append(("channel_count", "-i", str(chans)))
    if count is not None:
        f.append(("sample_count", "-i", str(count)))
    if rate is not None:
        f.append(("sample_rate", "-i", str(rate)))
    if nbytes is not None:
        f.append(("sample_n_bytes", "-i", str(nbytes)))
    if order is not None:
        f.append(("sample_byte_format", "-s%d" % len(order), order))
    if coding is not None:
        f.append(("sample_coding", "-s%d" % len(coding), coding))
    return f


def header_segs(fields, hdrsize=1024, size_line=None, sep=" ", pad=32, magic=b"NIST_1A", end=b"end_head", declared=None):
    """Header text as segments; ``fields`` are (key, fmt, value) or raw bytes lines."""
    declared = hdrsize if declared is None else declared
    txt = magic + b"\n" + (size_line if size_line is not None else b"%7d" % declared) + b"\n"
    for f in fields:
        if isinstance(f, bytes):
            txt += f + b"\n"
        else:
            txt += sep.join(f).encode("latin-1") + b"\n"
    if end is not None:
        txt += end + b"\n"
    if len(txt) > hdrsize:
        hdrsize = (len(txt) + 1023) // 1024 * 1024
    segs = [("Lit", txt)]
    if hdrsize > len(txt):
        segs.append(("Rep", pad, hdrsize - len(txt)))
    return segs


# ----------------------------------------------------------------------------
# implementation driver


class _ShortenCalled(Exception):
    pass


class SchedStream(io.RawIOBase):
    """A stream whose k-th read of the data section returns at most sizes[k] bytes."""

    def __init__(self, data, hdr_reads, sizes):
        self.b, self.p, self.k, self.hdr_reads, self.sizes = data, 0, 0, hdr_reads, list(sizes)

    def readable(self):
        return True

    def read(self, n=-1):
        if n is None or n < 0:
            n = len(self.b) - self.p
        if self.hdr_reads > 0:
            self.hdr_reads -= 1
        else:
            if self.k < len(self.sizes):
                n = min(n, self.sizes[self.k])
            self.k += 1
        r = self.b[self.p:self.p + n]
        self.p += len(r)
        return r


ERR_CODE = {"IOError": 0, "ValueError": 1, "TypeError": 2, "IndexError": 3}


def weighted(vals):
    h1 = h2 = 0
    for i, v in enumerate(vals):
        h1 += v * (i + 1)
        h2 += v * (i * i + 7)
    return [h1, h2]


def run_impl(mods, data, dtype, sizes=None):
    """Observable behaviour of read_signal(..., force_as='sph') as a digest (see Harness.v)."""
    np, util, sph = mods
    stream = io.BytesIO(data) if not sizes else SchedStream(data, 2, sizes)
    saved = sph.copy_shortened_samples

    def trap(*a, **k):
        raise _ShortenCalled()

    sph.copy_shortened_samples = trap
    try:
        with warnings.catch_warnings(record=True) as w:
            warnings.simplefilter("always")
            try:
                r = util.read_signal(stream, dtype=None if dtype is None else getattr(np, dtype), force_as="sph")
            except _ShortenCalled:
                return [1], None
            except Exception as e:  # noqa: BLE001 - the exception type is the observation
                name = "IOError" if isinstance(e, IOError) else type(e).__name__
                return [2, ERR_CODE.get(name, 99)], None
    finally:
        sph.copy_shortened_samples = saved
    warned = 1 if any("samples read" in str(x.message) for x in w) else 0
    if len(w) != warned:
        return [98, len(w)], r
    if not isinstance(r, np.ndarray) or r.dtype.kind not in KIND_CODE:
        return [97], r
    flat = r.reshape(-1)
    if r.dtype.kind == "f":
        if not np.all(np.isfinite(flat)) or not np.all(flat == np.round(flat)):
            return [96], r
    vals = [int(v) for v in flat.tolist()]
    d = [0, warned, 16 * KIND_CODE[r.dtype.kind] + r.dtype.itemsize, r.ndim] + [int(s) for s in r.shape] + [len(vals)] + weighted(vals)
    if len(vals) <= FULL:
        d += vals
    return d, r


# ----------------------------------------------------------------------------
# case generation

CODINGS = [
    # (sample_coding, sample_n_bytes, sample_byte_format)
    ("pcm", 2, "01"),
    ("pcm", 2, "10"),
    ("ulaw", 1, "1"),
    ("alaw", 1, "1"),
    ("ulaw", 1, None),
    ("alaw", 1, None),
    ("pcm", 1, "1"),
    ("pcm", 4, "10"),
    ("pcm", 4, "01"),
    ("pcm", 4, "0123"),
]
MAIN_CODINGS = CODINGS[:4]
EXTRA_FIELDS = [
    ("database_id", "-s5", "TIMIT"),
    ("sample_max", "-i", "32767"),
    ("sample_min", "-i", "-32768"),
    ("speaking_mode", "-s11", "read speech"),
    ("utterance_id", "-s8", "abc_1234"),
    ("sample_sig_bits", "-i", "16"),
    ("recording_date", "-s11", "29-Sep-2026"),
    ("sample_checksum", "-i", "12345"),
    ("conversation_id", "-s4", "4325"),
    ("microphone", "-s2", "na"),
]


def pick_dtype(r, coding, nbytes):
    u = r.random()
    if u < 0.45:
        return None
    if coding in ("ulaw", "alaw"):
        return r.choice(["int16", "uint8", "int8", "int32", "float32", "float64", "int64", "uint16"])
    if nbytes == 4:
        return r.choice(["int32", "int64", "float64", "int16", "uint8"])
    return r.choice(["int16", "int32", "float32", "float64", "uint8", "int8", "uint16", "int64"])


def data_len_variant(r, full_bytes, frame):
    """Length of the data section relative to what the header promises."""
    u = r.random()
    if u < 0.5:
        return full_bytes, "exact"
    if u < 0.65:
        return full_bytes + r.choice([1, frame - 1 if frame > 1 else 1, frame, 3 * frame + 1, 100]), "excess"
    cut = r.choice([1, max(1, frame - 1), frame, frame + 1, 2 * frame, r.randint(1, max(1, full_bytes))])
    return max(0, full_bytes - cut), "truncated"


def small_wellformed(ctx, r):
    coding, nbytes, order = r.choice(CODINGS)
    chans = r.choice([1, 1, 2, 2, 3, 4, 5, 6, 7, 8])
    count = r.randint(1, 12)
    frame = chans * nbytes
    dlen, kind = data_len_variant(r, count * frame, frame)
    fields = std_fields(coding, nbytes, order, chans, count, r.choice([8000, 16000, 44100]))
    style = r.random()
    if style < 0.6:
        r.shuffle(fields)
        for _ in range(r.randint(0, 4)):
            fields.insert(r.randint(0, len(fields)), r.choice(EXTRA_FIELDS))
    if r.random() < 0.15:
        # a long header: so many descriptive fields that the field text itself runs past the first 1024-byte block
        # (mandatory fields, end_head, or a line straddling byte 1024 lie in the second or a later block)
        for k in range(r.choice([25, 40, 60, 120])):
            fields.insert(r.randint(0, len(fields)), ("note_%d" % k, "-s%d" % 20, "x" * 20))
        ctx.count("wellformed:field-text-beyond-1024")
    if style < 0.15:  # a duplicated key: the last occurrence wins
        k = r.randrange(len(fields))
        if fields[k][0] in ("channel_count", "sample_count"):
            fields.insert(0, (fields[k][0], "-i", str(r.randint(1, 9))))
    sep = r.choice([" ", " ", " ", "  ", "\t", " \t "])
    hdrsize = r.choice([1024, 1024, 2048, 1536, 1025, 3072])
    size_line = r.choice([None, None, None, b"%d" % hdrsize, b"%d   " % hdrsize, b"\t%d" % hdrsize, b"+%d" % hdrsize, b"%08d" % hdrsize])
    segs = header_segs(fields, hdrsize, size_line=size_line, sep=sep, pad=r.choice([32, 32, 0, 10]))
    if dlen:
        if r.random() < 0.5:
            segs.append(("Lit", bytes(r.randrange(256) for _ in range(dlen))))
        else:
            segs.append(("Lcg", dlen, r.randint(1, 65535)))
    return dict(kind="small-" + kind, coding=coding, nbytes=nbytes, order=order, chans=chans, count=count, segs=segs,
                dtype=pick_dtype(r, coding, nbytes), sizes=[])


def malformed(ctx, r):
    """Enumerated malformed / unusual header classes (most must raise IOError)."""
    coding, nbytes, order = r.choice(MAIN_CODINGS)
    chans, count = r.randint(1, 4), r.randint(1, 6)
    f = std_fields(coding, nbytes, order, chans, count)
    data = ("Lit", bytes(r.randrange(256) for _ in range(chans * count * nbytes)))
    cls = r.choice([
        "short-file", "bad-magic", "no-newline", "size-not-int", "size-small", "size-negative", "no-end-head",
        "missing-field", "zero-field", "pcm-no-order", "no-coding", "unknown-coding", "bad-nbytes", "no-nbytes",
        "one-token-line", "int-not-int", "non-ascii", "negative-count", "shorten-declared-plain",
        "shorten-declared-magic", "magic-collision", "empty-data", "size-underscore", "blank-line", "end-head-spaces",
        "declared-larger-than-file", "string-for-int", "int-for-coding",
    ])
    kw = {}
    dt = r.choice([None, None, "int16", "uint8", "int32"])
    segs = None
    if cls == "short-file":
        segs = header_segs(f)
        n = r.choice([0, 1, 7, 8, 100, 1000, 1023])
        segs = [("Lit", file_of(segs)[:n])]
        data = None
    elif cls == "bad-magic":
        kw["magic"] = r.choice([b"NIST_1B", b"nist_1a", b"NIST-1A", b"RIFF\0\0\0", b"\0NIST_1", b" NIST_1", b"NIST_1\n"])
    elif cls == "no-newline":
        segs, data = [("Lit", b"NIST_1A"), ("Rep", r.choice([32, 0, 65]), r.choice([1017, 1100, 2000]))], None
    elif cls == "size-not-int":
        kw["size_line"] = r.choice([b"   abc", b"", b"   ", b"10 24", b"1024.0", b"0x400", b"1024\0", b"--1024", b"1024L", b"1_", b"_1024", b"1__024", b"\xff1024"])
    elif cls == "size-small":
        kw["size_line"] = r.choice([b"    512", b"      0", b"   1023", b"1", b"0001023"])
    elif cls == "size-negative":
        kw["size_line"] = r.choice([b"  -1024", b"-1", b"-0"])
    elif cls == "size-underscore":
        kw["size_line"] = r.choice([b"1_024", b"  1_0_2_4", b"+1_024  "])
    elif cls == "no-end-head":
        kw["end"] = r.choice([None, b"end_hea", b"end_head ", b" end_head", b"END_HEAD", b"end_head\r"])
        if r.random() < 0.4:  # a header filled to the last byte, so that no blank line follows
            txt = file_of(header_segs(f, end=None))
            txt = txt[:len(file_of([("Lit", txt)]).rstrip(b" "))]
            segs = [("Lit", txt + b"x" * (1024 - len(txt)))]
    elif cls == "missing-field":
        k = r.choice(["channel_count", "sample_count", "sample_rate"])
        f = [x for x in f if x[0] != k]
    elif cls == "zero-field":
        k = r.choice(["channel_count", "sample_count", "sample_rate", "sample_n_bytes"])
        f = [(x[0], x[1], "0") if x[0] == k else x for x in f]
    elif cls == "pcm-no-order":
        f = [x for x in std_fields("pcm", r.choice([2, 1, 4]), None, chans, count)]
    elif cls == "no-coding":
        nb = r.choice([1, 2, 4])
        f = std_fields(None, nb, r.choice([None, "01", "10", "1", "0123"]), chans, count)
    elif cls == "unknown-coding":
        v = r.choice(["mu-law", "PCM", "adpcm", "", "g711", "xpcm", "law ulaw"])
        f = [x for x in f if x[0] != "sample_coding"] + [("sample_coding", "-s%d" % len(v), v)]
        if r.random() < 0.5:
            f = [x for x in f if x[0] not in ("sample_byte_format", "sample_n_bytes")] + [("sample_n_bytes", "-i", "1")]
    elif cls == "bad-nbytes":
        f = [(x[0], x[1], r.choice(["3", "8", "5", "-2", "16"])) if x[0] == "sample_n_bytes" else x for x in f]
    elif cls == "no-nbytes":
        f = [x for x in f if x[0] != "sample_n_bytes"]
    elif cls == "one-token-line":
        f.insert(r.randint(0, len(f)), r.choice([b"lonely", b"", b"   ", b"\t"]))
    elif cls == "blank-line":
        f.insert(r.randint(0, len(f)), b"")
    elif cls == "int-not-int":
        k = r.randrange(4)
        f[k] = (f[k][0], "-i", r.choice(["abc", "1 2", "", "1.5", "0x10", "1e3", "--1", "1_"]))
    elif cls == "string-for-int":
        k = r.randrange(4)
        f[k] = (f[k][0], "-s2", f[k][2])
    elif cls == "int-for-coding":
        f = [x if x[0] != "sample_byte_format" else (x[0], "-i", "10") for x in f]
    elif cls == "non-ascii":
        f.insert(r.randint(0, len(f)), r.choice([b"speaker -s4 J\xc3\xb6rg", b"speaker -s2 \xff\xfe", b"note\xc2\xa0x -s1 y"]))
    elif cls == "negative-count":
        k = r.choice(["channel_count", "sample_count"])
        f = [(x[0], x[1], "-2") if x[0] == k else x for x in f]
    elif cls in ("shorten-declared-plain", "shorten-declared-magic"):
        v = r.choice(["pcm,embedded-shorten-v2.00", "ulaw,embedded-shorten-v2.00", "pcm,shorten", "alaw shorten x"])
        f = [x for x in f if x[0] != "sample_coding"] + [("sample_coding", "-s%d" % len(v), v)]
        if cls == "shorten-declared-magic":
            data = ("Lit", b"ajkg" + bytes(r.randrange(256) for _ in range(40)))
    elif cls == "magic-collision":  # uncompressed data that happens to start with the shorten magic
        n = max(chans * count * nbytes, 4)
        data = ("Lit", (b"ajkg" + bytes(r.randrange(256) for _ in range(n)))[:n])
    elif cls == "empty-data":
        data = None
    elif cls == "end-head-spaces":
        kw["end"] = b"end_head"
        kw["pad"] = r.choice([0, 10, 32, 255])
    elif cls == "declared-larger-than-file":
        kw["declared"] = r.choice([4096, 2048, 1030])
    if segs is None:
        segs = header_segs(f, r.choice([1024, 1024, 2048]), **kw)
    if data is not None:
        segs = segs + [data]
    return dict(kind="hdr-" + cls, segs=segs, dtype=dt, sizes=[])


def g711_cases():
    out = []
    for coding in ("ulaw", "alaw"):
        for order in ("1", None):
            for dt in (None, "int16", "int32", "float32", "float64", "uint8", "int8", "uint16", "int64"):
                for chans in (1, 2):
                    if (order is None or chans == 2) and dt not in (None, "uint8", "int32"):
                        continue
                    segs = header_segs(std_fields(coding, 1, order, chans, 256 // chans))
                    segs.append(("Lit", bytes(range(256))))
                    out.append(dict(kind="g711-all-codes", coding=coding, segs=segs, dtype=dt, sizes=[], chans=chans))
    return out


def boundary_counts(r, frame, buf=16384):
    """Sample counts around multiples of the read size."""
    k = r.choice([1, 1, 2, 2, 3])
    base = k * buf // frame
    return max(1, base + r.choice([-2, -1, 0, 0, 1, 1, 2, 3, frame, r.randint(-50, 50)]))


def large_case(ctx, r, chans=None, coding=None):
    coding, nbytes, order = coding or r.choice(MAIN_CODINGS + MAIN_CODINGS + CODINGS)
    if chans is None:
        chans = r.choice([1, 2, 3, 3, 4, 5, 5, 6, 6, 7, 7, 8, 9, 11, 12, 16])
    frame = chans * nbytes
    count = boundary_counts(r, frame)
    u = r.random()
    full = count * frame
    if u < 0.45:
        dlen, kind = full, "exact"
    elif u < 0.6:
        dlen, kind = full + r.choice([1, frame, 16384, 5 * frame + 3]), "excess"
    else:
        cut = r.choice([1, frame - 1 if frame > 1 else 1, frame, frame + 1, full % 16384 + 1, full % 16384 + frame, r.randint(1, full)])
        dlen, kind = max(0, full - cut), "truncated"
    hdrsize = r.choice([1024, 1024, 2048])
    segs = header_segs(std_fields(coding, nbytes, order, chans, count), hdrsize)
    if dlen:
        segs.append(("Lcg", dlen, r.randint(1, 65535)))
    return dict(kind="large-" + kind, coding=coding, nbytes=nbytes, order=order, chans=chans, count=count, dlen=dlen,
                hdrsize=hdrsize, segs=segs, dtype=pick_dtype(r, coding, nbytes), sizes=[])


def huge_frame_case(ctx, r):
    """A frame larger than the read size: several reads yield no complete frame."""
    nbytes, order = r.choice([(2, "01"), (2, "10"), (4, "10"), (1, "1")])
    coding = "pcm" if nbytes != 1 else r.choice(["ulaw", "alaw"])
    chans = r.choice([16384 // nbytes + 1, 9000, 20000 // nbytes, 40000 // nbytes])
    count = r.choice([1, 2, 3])
    frame = chans * nbytes
    dlen = count * frame - r.choice([0, 0, 1, frame // 2, frame])
    segs = header_segs(std_fields(coding, nbytes, order, chans, count), 1024)
    if dlen > 0:
        segs.append(("Lcg", dlen, r.randint(1, 65535)))
    return dict(kind="huge-frame", coding=coding, nbytes=nbytes, order=order, chans=chans, count=count, dlen=dlen, segs=segs,
                dtype=None, sizes=[])


def sched_case(ctx, r):
    """A stream that returns short reads (pipe / socket)."""
    coding, nbytes, order = r.choice(MAIN_CODINGS + CODINGS)
    chans = r.choice([1, 2, 3, 5, 6, 7])
    frame = chans * nbytes
    count = r.randint(1, 400)
    dlen, kind = data_len_variant(r, count * frame, frame)
    segs = header_segs(std_fields(coding, nbytes, order, chans, count), r.choice([1024, 2048]))
    if dlen:
        segs.append(("Lcg", dlen, r.randint(1, 65535)))
    style = r.random()
    if style < 0.3:
        sizes = [r.randint(1, 3 * frame) for _ in range(r.randint(1, 60))]
    elif style < 0.6:
        sizes = [r.choice([1, frame - 1 if frame > 1 else 1, frame, frame + 1, 2 * frame + 1, 4, 16384]) for _ in range(r.randint(1, 200))]
    else:
        sizes = [r.randint(1, 500) for _ in range(r.randint(1, 30))]
    return dict(kind="sched-" + kind, coding=coding, nbytes=nbytes, order=order, chans=chans, count=count, dlen=dlen, segs=segs,
                dtype=pick_dtype(r, coding, nbytes), sizes=sizes)


def gen_cases(ctx):
    r = ctx.rng
    cases = list(g711_cases())
    # the reproduced defects, kept as regressions (DESIGN.md 1.3 D10 and the two found while building this check)
    for chans in (3, 5, 6, 7):
        for coding in MAIN_CODINGS[:2]:
            c = large_case(ctx, r, chans=chans, coding=coding)
            cases.append(c)
    c = dict(kind="hdr-magic-collision", segs=header_segs(std_fields("pcm", 2, "01", 1, 6)) + [("Lit", b"ajkg" + bytes([1, 0, 2, 0, 3, 0, 4, 0]))], dtype=None, sizes=[])
    cases.append(c)
    cases.append(dict(kind="hdr-size-not-int", segs=[("Lit", b"NIST_1A\n   abc\n"), ("Rep", 32, 1100)], dtype=None, sizes=[]))
    cases.append(dict(kind="hdr-no-newline", segs=[("Lit", b"NIST_1A"), ("Rep", 32, 1100)], dtype=None, sizes=[]))
    cases.append(dict(kind="small-truncated", segs=header_segs(std_fields("pcm", 2, "01", 1, 9000)) + [("Lcg", 16385, 77)], dtype=None, sizes=[]))
    for _ in range(ctx.scale(260, 4000)):
        cases.append(small_wellformed(ctx, r))
    for _ in range(ctx.scale(240, 3000)):
        cases.append(malformed(ctx, r))
    for _ in range(ctx.scale(70, 1200)):
        cases.append(large_case(ctx, r))
    for _ in range(ctx.scale(6, 60)):
        cases.append(huge_frame_case(ctx, r))
    for _ in range(ctx.scale(90, 1500)):
        cases.append(sched_case(ctx, r))
    return cases


def case_weight(c):
    n = sum(len(s[1]) if s[0] == "Lit" else s[2] if s[0] == "Rep" else s[1] for s in c["segs"])
    return 1 + n // 400


def case_coq(c, expected):
    return "(%s, %s, %s, %s)" % (
        "[" + "; ".join(seg_coq(s) for s in c["segs"]) + "]",
        dtype_coq(c["dtype"]),
        C.zlist(c["sizes"]),
        C.zlist(expected),
    )


def describe(c, extra=None):
    """JSON-able replay description of a case."""
    d = {k: v for k, v in c.items() if k not in ("segs",)}
    d["segments"] = [
        [s[0], s[1].hex() if s[0] == "Lit" else s[1], None if s[0] == "Lit" else s[2]] for s in c["segs"]
    ]
    if extra:
        d.update(extra)
    return d


# ----------------------------------------------------------------------------
# direct statement of the property on the implementation (search oracle)


def ulaw_ref(c):
    """ITU-T G.711 mu-law expansion (14-bit magnitude (2m+33)*2^e-33, times 4)."""
    u = 255 - c
    mag = 4 * ((2 * (u % 16) + 33) * 2 ** ((u // 16) % 8) - 33)
    return mag if u < 128 else -mag


def alaw_ref(c):
    a = c ^ 0x55
    m, e = a % 16, (a // 16) % 8
    mag = 8 * (2 * m + 1 if e == 0 else (2 * m + 33) * 2 ** (e - 1))
    return -mag if a < 128 else mag


def oracle_one(ctx, mods, r, force=None):
    """Build a file with known samples, decode it, compare.  Returns None or a failure description."""
    np, util, sph = mods
    p = dict(force or {})
    coding, nbytes, order = p.get("coding3") or r.choice(MAIN_CODINGS + MAIN_CODINGS + CODINGS)
    chans = p.get("chans") or r.choice([1, 2, 3, 4, 5, 6, 7, 8, 9, 12, 16, 31])
    frame = chans * nbytes
    count = p.get("count") or (boundary_counts(r, frame) if r.random() < 0.7 else r.randint(1, 3000))
    hdrsize = p.get("hdrsize") or r.choice([1024, 2048, 4096, 1024 * r.randint(1, 8)])
    seed = p.get("seed", r.randrange(2 ** 31))
    mode = p.get("mode") or r.choice(["exact", "exact", "excess", "truncated", "truncated"])
    dtype = p["dtype"] if "dtype" in p else pick_dtype(r, coding, nbytes)
    g = np.random.RandomState(seed)
    if nbytes == 1:
        stored = g.randint(0, 256, size=(count, chans)).astype(np.uint8)
        for i, v in enumerate(p.get("first", [])[:stored.size]):
            stored.flat[i] = v
        raw = stored.tobytes()
        if coding == "pcm":
            values = stored.astype(np.int64)
        else:
            ref = np.array([(ulaw_ref if coding == "ulaw" else alaw_ref)(c) for c in range(256)], dtype=np.int64)
            values = ref[stored]
    else:
        lo, hi = (-2 ** 15, 2 ** 15) if nbytes == 2 else (-2 ** 31, 2 ** 31)
        stored = g.randint(lo, hi, size=(count, chans), dtype=np.int64)
        # extremes at the ends and around the read boundary
        stored.flat[0], stored.flat[-1] = lo, hi - 1
        for i, v in enumerate(p.get("first", [])[:stored.size]):
            stored.flat[i] = v
        raw = stored.astype((">" if order == "10" else "<") + "i%d" % nbytes).tobytes()
        values = stored
    cut = p.get("cut")
    if mode == "truncated":
        if cut is None:
            cut = r.choice([1, max(1, frame - 1), frame, frame + 1, 3 * frame, r.randint(1, len(raw))])
        raw = raw[:max(0, len(raw) - cut)]
    elif mode == "excess":
        raw = raw + bytes(r.randrange(256) for _ in range(r.choice([1, frame, 2 * frame + 1, 100])))
    present = min(count, len(raw) // frame)
    data = file_of(header_segs(std_fields(coding, nbytes, order, chans, count), hdrsize)) + raw
    desc = dict(coding=coding, sample_n_bytes=nbytes, sample_byte_format=order, channels=chans, sample_count=count,
                header_size=hdrsize, data_bytes=len(raw), mode=mode, cut=cut, dtype=dtype, numpy_seed=seed,
                first_samples=p.get("first", []),
                how="stored = RandomState(seed).randint(...,(count,chans)); see harness/c12.py oracle_one")
    ctx.count("oracle:" + coding + str(nbytes) + ":" + mode)
    ctx.count("oracle:chans=%d" % chans if chans <= 8 else "oracle:chans>8")
    with warnings.catch_warnings(record=True) as w:
        warnings.simplefilter("always")
        try:
            got = util.read_signal(io.BytesIO(data), dtype=None if dtype is None else getattr(np, dtype), force_as="sph")
        except Exception as e:  # noqa: BLE001
            return dict(desc, problem="raised %s: %s" % (type(e).__name__, str(e)[:100]))
    warned = any("samples read" in str(x.message) for x in w)
    if warned != (present < count):
        return dict(desc, problem="warning issued=%s but %d of %d samples present" % (warned, present, count))
    shape = (present,) if chans == 1 else (present, chans)
    if tuple(got.shape) != shape:
        return dict(desc, problem="shape %s, expected %s" % (tuple(got.shape), shape))
    # expected values: expansion unless a 1-byte dtype is requested (raw codes); then the requested dtype's cast
    if coding in ("ulaw", "alaw") and dtype in ("uint8", "int8"):
        exp = stored.astype(np.int64)
    else:
        exp = values
    exp = exp[:present].reshape(shape)
    want_dtype = np.dtype(dtype) if dtype is not None else np.dtype(
        np.int16 if coding in ("ulaw", "alaw") else {1: np.uint8, 2: np.int16, 4: np.int32}[nbytes])
    if got.dtype != want_dtype:
        return dict(desc, problem="dtype %s, expected %s" % (got.dtype, want_dtype))
    with np.errstate(all="ignore"):
        exp_cast = exp.astype(want_dtype)
    if want_dtype.kind == "f" and nbytes == 4:
        ok = np.allclose(got, exp_cast, rtol=1e-6)
    else:
        ok = np.array_equal(got, exp_cast)
    if not ok:
        bad = np.argwhere(np.asarray(got != exp_cast))
        first = tuple(int(x) for x in bad[0]) if len(bad) else None
        return dict(desc, problem="decoded samples differ from the stored ones", first_difference_at=first,
                    number_of_differences=int(len(bad)),
                    got=None if first is None else float(got[first]), expected=None if first is None else float(exp_cast[first]))
    return None


def oracle_headers(ctx, mods, r):
    """The last clause: no NIST_1A header of at least 1024 bytes -> IOError."""
    np, util, sph = mods
    good = file_of(header_segs(std_fields("pcm", 2, "01", 1, 4))) + bytes(8)
    bads = {
        "empty": b"",
        "short-1023": good[:1023],
        "short-7": good[:7],
        "wrong-magic": b"NIST_1B" + good[7:],
        "riff": b"RIFF" + good[4:],
        "size-512": good.replace(b"   1024\n", b"    512\n"),
        "size-0": good.replace(b"   1024\n", b"      0\n"),
        "size-not-int": good.replace(b"   1024\n", b"    abc\n"),
        "no-newline": b"NIST_1A" + b" " * 1100,
        "random-bytes": bytes(r.randrange(256) for _ in range(3000)),
        "magic-then-random": b"NIST_1A\n" + bytes(r.randrange(256) for _ in range(3000)),
        "no-end-head": good.replace(b"end_head", b"        "),
        # magic and size line in order, then bytes that are not text at all (sample data / fill where the fields should be)
        "size-then-high-bytes": b"NIST_1A\n   1024\n" + bytes(0x80 + (k * 7) % 0x80 for k in range(2000)),
        "size-then-0xff-fill": b"NIST_1A\n   1024\n" + b"\xff" * 2000,
        "fields-then-binary": b"NIST_1A\n   1024\nchannel_count -i 1\nsample_count -i 4\n" + bytes(r.randrange(128, 256) for _ in range(2000)),
        "binary-line-then-fields": good.replace(b"channel_count -i 1\n", b"\xfe\xff\x80\x81 -i 1\nchannel_count -i 1\n"),
    }
    fails = []
    for name, b in bads.items():
        ctx.count("oracle:bad-header")
        try:
            util.read_signal(io.BytesIO(b), force_as="sph")
            fails.append(dict(header_class=name, file_hex=b[:64].hex(), file_len=len(b), problem="no exception"))
        except IOError:
            pass
        except Exception as e:  # noqa: BLE001
            fails.append(dict(header_class=name, file_hex=b[:64].hex(), file_len=len(b),
                              problem="raised %s instead of IOError" % type(e).__name__))
    # a well-formed file read by name (suffix dispatch is C11's; here only that a path works like a stream)
    d = os.path.join(C.BUILD, PID)
    os.makedirs(d, exist_ok=True)
    path = os.path.join(d, "oracle_path.sph")
    with open(path, "wb") as fo:
        fo.write(good)
    try:
        a = util.read_signal(path, force_as="sph")
        if a.shape != (4,) or a.dtype != np.int16 or a.tolist() != [0, 0, 0, 0]:
            fails.append(dict(header_class="path", problem="file path read differs: %r" % (a,)))
    except Exception as e:  # noqa: BLE001
        fails.append(dict(header_class="path", problem="raised %s" % type(e).__name__))
    # ... and open binary streams of other kinds: an anonymous temporary file and a descriptor-backed file object have an
    # integer `name`, a pipe-like reader none at all
    import tempfile

    class Bare(io.RawIOBase):  # readable, no name, no seek
        def __init__(self, b):
            self._b, self._p = b, 0

        def readable(self):
            return True

        def readinto(self, buf):
            n = min(len(buf), len(self._b) - self._p)
            buf[:n] = self._b[self._p:self._p + n]
            self._p += n
            return n

    for label, payload, want in (("well-formed", good, [0, 0, 0, 0]), ("no NIST_1A header", b"RIFF" + bytes(2000), None)):
        for kind in ("tempfile.TemporaryFile", "os.fdopen", "io.BufferedReader without a name"):
            tf = tempfile.TemporaryFile()
            tf.write(payload)
            tf.seek(0)
            st = tf if kind == "tempfile.TemporaryFile" else os.fdopen(os.dup(tf.fileno()), "rb") if kind == "os.fdopen" else io.BufferedReader(Bare(payload))
            try:
                a = util.read_signal(st, force_as="sph")
                if want is None:
                    fails.append(dict(header_class="stream:" + kind, problem="%s: returned data instead of IOError" % label))
                elif a.dtype != np.int16 or a.tolist() != want:
                    fails.append(dict(header_class="stream:" + kind, problem="%s: read differs: %r" % (label, a)))
            except IOError:
                if want is not None:
                    fails.append(dict(header_class="stream:" + kind, problem="%s: raised IOError" % label))
            except Exception as e:  # noqa: BLE001
                fails.append(dict(header_class="stream:" + kind, stream_name=repr(getattr(st, "name", None)),
                                  problem="%s file from a %s stream: raised %s: %s" % (label, kind, type(e).__name__, str(e)[:100])))
            finally:
                if st is not tf:
                    st.close()
                tf.close()
    return fails


def oracle_tables(ctx, mods):
    """All 256 codes of each law, through the public reader, against the ITU-T formulas."""
    np, util, sph = mods
    fails = []
    for coding, ref in (("ulaw", ulaw_ref), ("alaw", alaw_ref)):
        data = file_of(header_segs(std_fields(coding, 1, "1", 1, 256))) + bytes(range(256))
        got = util.read_signal(io.BytesIO(data), force_as="sph")
        ctx.count("oracle:g711-codes", 256)
        for c in range(256):
            if int(got[c]) != ref(c):
                fails.append(dict(coding=coding, code=c, got=int(got[c]), expected=ref(c), problem="G.711 expansion differs"))
                break
        raw = util.read_signal(io.BytesIO(data), dtype=np.uint8, force_as="sph")
        if raw.dtype != np.uint8 or raw.tolist() != list(range(256)):
            fails.append(dict(coding=coding, problem="1-byte dtype does not return the raw codes"))
    return fails


def search(ctx, mods):
    r = ctx.rng
    fails = []
    fails += oracle_tables(ctx, mods)
    fails += oracle_headers(ctx, mods, r)
    # the historical witnesses first
    seeds = [
        dict(coding3=("pcm", 2, "01"), chans=3, count=2731, mode="exact", dtype=None),
        dict(coding3=("pcm", 2, "10"), chans=5, count=4000, mode="exact", dtype=None),
        dict(coding3=("pcm", 2, "01"), chans=6, count=3000, mode="exact", dtype=None),
        dict(coding3=("pcm", 2, "01"), chans=7, count=2400, mode="truncated", cut=5, dtype=None),
        dict(coding3=("pcm", 2, "01"), chans=1, count=9000, mode="truncated", cut=1615, dtype=None),
        dict(coding3=("ulaw", 1, "1"), chans=1, count=20000, mode="truncated", cut=3000, dtype=None),
        dict(coding3=("alaw", 1, "1"), chans=3, count=6000, mode="exact", dtype="uint8"),
        # data that happens to start with the shorten magic b"ajkg"
        dict(coding3=("pcm", 2, "01"), chans=1, count=6, mode="exact", dtype=None, first=[27233, 26475]),
        dict(coding3=("pcm", 2, "10"), chans=2, count=50, mode="exact", dtype=None, first=[24938, 27495]),
        dict(coding3=("ulaw", 1, "1"), chans=1, count=40, mode="exact", dtype=None, first=[97, 106, 107, 103]),
        dict(coding3=("alaw", 1, None), chans=4, count=9, mode="truncated", cut=3, dtype="uint8", first=[97, 106, 107, 103]),
    ]
    for s in seeds:
        f = oracle_one(ctx, mods, r, s)
        if f:
            fails.append(f)
    n = ctx.scale(900, 20000)
    for _ in range(n):
        f = oracle_one(ctx, mods, r)
        if f:
            fails.append(f)
            if len(fails) > 12:
                break
    return fails


# ----------------------------------------------------------------------------


def regenerate(ctx):
    import sphere as gen_sphere
    from pyexpr import Unsupported

    try:
        gen_sphere.main(os.path.join(C.SRC, "_sphere.py"), os.path.join(C.COQ, "gen", "Sphere.v"))
        return True
    except (Unsupported, SyntaxError, OSError, AttributeError, IndexError, KeyError, ValueError, TypeError) as e:
        if not C.tie_fallback(ctx, "translator gen/sphere.py no longer recognises _sphere.py: %s: %s" % (type(e).__name__, e),
                 dict(correspondence="gen/sphere.py -> coq/gen/Sphere.v", error=str(e)), kind="tie", no_input=True):
            return False
        return True


def load_impl():
    C.ensure_impl_path()
    import importlib

    import numpy as np

    util = importlib.import_module("pydrobert.speech.util")
    sph = importlib.import_module("pydrobert.speech._sphere")
    return np, util, sph


REQ = (
    "From Coq Require Import ZArith List Bool.\n"
    "From Verif Require Import lib.C12_Py lib.C12_ZList gen.Sphere C12.Model C12.Harness.\n"
    "Import ListNotations.\nOpen Scope Z_scope.\n"
)


def correspondence(ctx, mods, cases):
    """Returns (mismatching cases with both digests, number compared, number unmodelled)."""
    expected = []
    for c in cases:
        data = file_of(c["segs"])
        d, _ = run_impl(mods, data, c["dtype"], c["sizes"])
        expected.append(d)
        ctx.count("corr:" + c["kind"])
        ctx.count("corr-impl:" + {0: "decoded" if len(d) > 1 and d[1] == 0 else "decoded+warning", 1: "shorten", 2: "error"}.get(d[0], "other"))
    # shards of bounded weight
    shards, cur, w = [], [], 0
    order = sorted(range(len(cases)), key=lambda i: -case_weight(cases[i]))
    # round-robin the heavy cases over shards so that the parallel files take similar time
    nshards = max(1, min(ctx.scale(12, 48), len(cases) // 20 + 1))
    buckets = [[] for _ in range(nshards)]
    loads = [0] * nshards
    for i in order:
        k = loads.index(min(loads))
        buckets[k].append(i)
        loads[k] += case_weight(cases[i])
    files = []
    for k, b in enumerate(buckets):
        if not b:
            continue
        body = "Definition cases : list case :=\n [ %s ].\n" % ";\n   ".join(case_coq(cases[i], expected[i]) for i in b)
        body += "Eval vm_compute in (compare_cases %d cases 0 [] []).\n" % FULL
        files.append(("cases_%d" % k, body, b))
    res = C.coq_eval_many(ctx, [(n, b) for n, b, _ in files], REQ, timeout=ctx.scale(600, 3000))
    bad, compared, unmodelled = [], 0, 0
    for (name, body, idx), (ans, log) in zip(files, res):
        if ans is None or len(ans) != 1:
            ctx.fail("correspondence file %s did not evaluate" % name, dict(correspondence=name, log_tail=(log or "")[-1500:]),
                     kind="tie", no_input=True)
            continue
        mism, unm = C.parse_coq(ans[0])
        compared += len(idx) - len(unm)
        unmodelled += len(unm)
        for j in unm:
            ctx.count("corr-unmodelled:" + cases[idx[j]]["kind"])
        for j in mism:
            bad.append((idx[j], cases[idx[j]], expected[idx[j]]))
    return bad, compared, unmodelled, expected


def model_digest(ctx, c):
    body = "Eval vm_compute in (run_case %d %s).\n" % (FULL, case_coq(c, []))
    ans, log = C.coq_eval(ctx, "one_case", body, REQ)
    return None if not ans else C.parse_coq(ans[0])


def run(ctx):
    mods = load_impl()
    ok_gen = regenerate(ctx)
    pr = C.proof_step(ctx) if ok_gen else None
    ctx.cov["trusted_base"].append("translator /verif/gen/sphere.py (Python ast -> literal tables, constants, key dispatch, header guards)")
    ctx.cov["rule"] = (
        "a case = (file bytes as segments, requested dtype, read schedule); the implementation's observable behaviour "
        "(exception type | shorten hand-off | warning, dtype, shape, values) is compared inside Coq with the model's; "
        "non-trivial = the file passes the header checks and reaches the sample loop (or is one of the enumerated "
        "malformed-header classes, counted once per class and distinct bytes); distinct = distinct case description"
    )
    cases = gen_cases(ctx)
    built = False
    if ok_gen:
        ok, out = C.coq_make(["C12/Harness.v"])
        if not ok:
            ctx.fail("model no longer compiles against the regenerated gen/Sphere.v", dict(correspondence="coq/C12/Harness.v", log_tail=out[-1500:]),
                     kind="tie", no_input=True)
        built = ok
    mism = []
    if built:
        mism, compared, unmodelled, expected = correspondence(ctx, mods, cases)
        ctx.cov["traces_validated_against_impl"] = compared
        ctx.log("correspondence: %d cases compared in Coq, %d outside the modelled grammar, %d mismatches" % (compared, unmodelled, len(mism)))
        for c, d in zip(cases, expected):
            ctx.case(describe(c), nontrivial=(d[0] in (0, 1)) or c["kind"].startswith("hdr-"))
        for i, c, d in mism[:8]:
            md = model_digest(ctx, c)
            ctx.fail(
                "implementation and model disagree on a %s file: implementation %s, model %s"
                % (c["kind"], short(d), short(md)),
                describe(c, dict(implementation_digest=d[:12], model_digest=None if md is None else md[:12],
                                 digest_layout="[0,warned,dtype_code,ndim,*shape,len,sum v*(i+1),sum v*(i*i+7),values..] | [1]=shorten | [2,err] (0 IOError,1 ValueError,2 TypeError,3 IndexError)")),
                kind="correspondence",
            )
    else:
        for c in cases:
            ctx.case(describe(c), nontrivial=False)
    bad = search(ctx, mods)
    for f in bad[:10]:
        ctx.fail("property violated on the implementation: %s" % f.get("problem"), dict(check="direct oracle", input=f), kind="impl")
    if pr is not None and not pr["ok"] and not bad and not mism:
        ctx.log("search found no failing input on the implementation")
    ctx.assumptions += [
        "file_.read(n) returns the next min(n, remaining) bytes (regular file / BytesIO); short-read streams are covered by the any-chunking theorem and the schedule cases",
        "float dtypes hold the decoded integers exactly (|v| < 2^24); 4-byte PCM into float32 is not modelled",
        "header grammar: ASCII field lines; int() as [+-]?digit(_?digit)* (at most 4300 digits); other header texts are reported Unmodelled and skipped",
        "np.frombuffer / fancy indexing / slice assignment semantics as modelled (decode_items, table_take, assign_slice)",
    ]
    return C.finish(ctx, "proof")


def short(d):
    if d is None:
        return "?"
    if d[0] == 0:
        return "decoded(warned=%d,dtype=%d,shape=%s,h=%s)" % (d[1], d[2], d[4:4 + d[3]], d[5 + d[3]:7 + d[3]])
    if d[0] == 1:
        return "shorten-decoder"
    if d[0] == 2:
        return {0: "IOError", 1: "ValueError", 2: "TypeError", 3: "IndexError"}.get(d[1], "other exception")
    return "digest%s" % d[:3]


def replay(ctx, rp):
    """Re-run a recorded case on the implementation (and the model when it is a correspondence case)."""
    mods = load_impl()
    f = rp.get("failure", {}).get("replay", {})
    if "segments" in f:
        segs = [("Lit", bytes.fromhex(a)) if k == "Lit" else (k, a, b) for k, a, b in f["segments"]]
        c = dict(kind=f.get("kind", "replay"), segs=segs, dtype=f.get("dtype"), sizes=f.get("sizes") or [])
        d, _ = run_impl(mods, file_of(segs), c["dtype"], c["sizes"])
        print("implementation:", short(d), d[:12])
        if regenerate(ctx) and C.coq_make(["C12/Harness.v"])[0]:
            md = model_digest(ctx, c)
            print("model         :", short(md), None if md is None else md[:12])
            return 0 if md == d else 1
        return 1
    if "input" in f:
        inp = f["input"]
        if "numpy_seed" in inp:
            force = dict(coding3=(inp["coding"], inp["sample_n_bytes"], inp["sample_byte_format"]), chans=inp["channels"],
                         count=inp["sample_count"], hdrsize=inp["header_size"], seed=inp["numpy_seed"], mode=inp["mode"],
                         cut=inp.get("cut"), dtype=inp.get("dtype"), first=inp.get("first_samples") or [])
            if inp["mode"] == "excess":
                print("note: the excess bytes are re-drawn; they do not influence the expected result")
            res = oracle_one(ctx, mods, ctx.rng, force)
            print("oracle:", res or "holds")
            return 1 if res else 0
    import json

    print(json.dumps(rp, indent=1)[:3000])
    return 0
