"""C13 - shorten-compressed SPHERE audio decodes losslessly.

Proof: coq/C13 (Model.v: bit-level decoder of copy_shortened_samples +
fix_bitshift + the output stage, and an independent encoder; theorems:
decode(encode(choices, samples)) = samples for every stream the encoder can
produce, IOError on every truncation, unknown command and bad version; the
word-level bit reader refines the bit-list reader).

Tie, re-checked on every run:
  * gen/shorten.py regenerates coq/gen/Shorten.v (constants, command sets,
    per-type initial means, ULAW_OUTWARD / ULAW2PCM) from _sphere.py and the
    theorems are re-checked against it;
  * correspondence A: the Coq ENCODER is the generator - random (parameters,
    script) are encoded inside Coq by vm_compute, the bytes are wrapped in a
    SPHERE header and decoded by the implementation, the result is compared
    with the samples;
  * correspondence B: streams written by an independent Python encoder (also
    exotic, truncated, corrupted, unknown commands, bad versions) are decoded by
    the Coq model and by the implementation and the outcomes compared
    (data / IOError / outside the modelled domain);
  * the sph2pipe reference vectors: implementation against the WAVs, model
    against the implementation.
Search: the property itself on the implementation (independent encoder ->
read_signal == samples; truncations and unknown commands -> IOError).
"""

import base64
import hashlib
import io
import os
import sys
import warnings
import zlib

from . import common as C

sys.path.insert(0, os.path.join(C.ROOT, "gen"))

PID = "C13"

# sph2pipe's ulaw_outward (13 x 256, uint8) and the G.711 expansion table (int16),
# pinned: the independent encoder must not take them from the code under test
_REFTAB = (
    "eNrFlolfjFscxs/MvO0rRdFQGApRkiQjxYQoW1nLHlkiS2Q5ZDlkiSyRJbJElogkZKSYECUUoQgNRdG+zjtz7nHnvUu593Mv"
    "Lf6E5/f9Puc8foDF5lAKikrKKqpq6hqaWtrNmuvotmipp9+qtQG3TVtDo3btO/A6djI26dylq2m37mbmPSx6Wvay6m3dx6Yv"
    "v59tfzv7AQMFDoMGD3EcOszJefiIkaNGu7iOGTtu/ISJbu6TJk+ZOm36DI+Zszxnz5k7z2v+Au+FixYv8Vm6zHf5ipWr4Oo1"
    "WCalJTXVVZUV5WWlJcVFhV+/FOR//pSX+/GDOOf9u7fZb15nZb56+SLj+bP0tKdPHqc+Skl++CDp/r27iaI7txPib8XdFN6I"
    "vX7tasyV6MtRly5GXjgfce7smdPhp06GnTh+7GjokcMhhw4e2B+8b2/Qnt27dgbu2B6wbeuWzf6bNqIN69etXbjYZ9nylXCN"
    "X1PfYdGSpb4rVq3GUkl1ZXlpcVPnltE1VRVlJUVTp3vMmj3XawHBQqgQKIRJo99i2oyZnnPmzfde4rsKSypLC7/kf8r9kPOu"
    "0TNLaWIaEY149rXgc95H8fu3I0e7jh0/0X0ywUPoEDiEDaMoY2iDX2OUy5hxE9wmTZnhOc/bF1cW5ufmZL/OfJnxLO1JIySW"
    "yCN/6xZRjBhGBCN+vcl69eJ5+tPHdgMEg4YMdRpOEBFCBBDhw6jKmFqnsPU+h/1Ah8GOw5xHuIxzm+LpjQtzszMz0lJTHibd"
    "S7yT0ECBK/9KnC+P/K1TRC9iF5GLuPUo+cH9u6Lb8T169urdp2+//naEEUFECP2uK2Pr34r7L+/Xj5/DwtLK2oZva+/g6Ozi"
    "5olzM9NSkhIT4oSx12Kio+obuLB24mx55Ax55tRHRC7iFlEr/tbNG9evXrl8yag9r5NJF9Pu5j0IJMKIIJILy/haq7z/4z3/"
    "z3u069DRuHPXbmYWVja2Ds5uODMlMS42Jiry/Lkz4SdPHPvJvLnfB077I3GSPDJpE3GLqEXMunTxQsTZ06fCjh/Vbq7bUr81"
    "ty3BRCgRSISR3FhG2Nr1/eH/7bt7NNNpodfKoI1hB+OuZla2zjglLibyXPiJ0MOHDgTv3bPrJ/Jm/lPgxD8Tx8ojkzIRtYhZ"
    "RCzi1ZGQg/v3Be3eyaYUlVXVNQklAokwIogYYxlha9e3vt89OQdHQUlFTUNLR8/A0NjMFsdFhoceCt4TuH3bFv+NG9bVdw7U"
    "fj6YMjFdImoRs4hYxKsdAVs3b0Lr17LYBA5hQ9AwpjKi1ultA88eP8BRUtPSMzTDkaHBgdv8NzTwDKrzijClYjpFFCOGEcGI"
    "X3I7GTnrdLWRp58fUNIyxKGB/o08Aeu8KEzBmH7VbmcTj18/oIUDm3gA13lffu369wO/ev+j9WgT2op2oN1oHzqIjqDj6BQ6"
    "iy6gKBSDYlEcSkB3UCK6h5LQQ5SCUtETlIaeoQz0EmWi1yibeke9p3IoMfWB+kjlUnnUJ+ozlU8VUF+or1QhVSQqEhSLigUl"
    "ohJBqahUUCYqE5SLygUVogpBpahSUBVWJa7iVXtUh1WLq3k1HjVhNeIansRDEiYRS3i0Bx1ER9PpdBmtK7WUukp9pEHSaGm6"
    "tEyqK7OUucp8ZAGyEFmETChLlmXJCmS0TB1zsSnmYyfsjr0wxJvxTrwfH8Wn8UV8Dcfj+/gxfoHf4jxchKswAHA1XAGXwkVw"
    "PpwDZ8JpcBKcAMfAUdAZOkIHaA9tIR/aQGtoBS2hBTSH3aEp7AJNYCfIg+2hEd2WbkNzaQO6Nd2K1qf16JZ0C1qX1qGb081o"
    "bVqLryXU5GsKNfgaQnW+ulCNryZU5asKVfgqQmW+slDJXYmrlKUYouiuyFXMUghRcFfgKmRRIZQ7xaWyOCEcL44Tx5Sjzilg"
    "J7Mj2AFsL7YT25Stzi5gJbMiWAEsH5YHy5UlYFmyeCxdFsUqA2KQDkQgGoSBIIDAcrAQzAZTwXgwEgwBdsAamAMTYAT0gTZQ"
    "BgD8Bgwsd2s="
)


def ref_tables():
    raw = zlib.decompress(base64.b64decode(_REFTAB))
    outward = [list(raw[256 * b:256 * (b + 1)]) for b in range(13)]
    import struct

    pcm = list(struct.unpack("<256h", raw[13 * 256:]))
    return outward, pcm


# --------------------------------------------------------------------------
# independent encoder (format as documented by shorten 2.x / sph2pipe)

FN_DIFF0, FN_DIFF1, FN_DIFF2, FN_DIFF3, FN_QUIT, FN_BLOCKSIZE, FN_BITSHIFT, FN_QLPC, FN_ZERO = range(9)
TYPE_AU1, TYPE_S8, TYPE_U8, TYPE_S16HL, TYPE_U16HL, TYPE_S16LH, TYPE_U16LH, TYPE_ULAW, TYPE_AU2 = range(9)


class BitWriter:
    def __init__(self):
        self.b = []

    def uvar(self, nbin, v):
        assert v >= 0 and nbin >= 0
        self.b += [0] * (v >> nbin) + [1]
        for k in range(nbin - 1, -1, -1):
            self.b.append((v >> k) & 1)

    def var(self, nbin, v):
        self.uvar(nbin + 1, 2 * v if v >= 0 else 2 * (-v - 1) + 1)

    def ulong(self, v, extra=0):
        nbit = v.bit_length() + extra
        self.uvar(2, nbit)
        self.uvar(nbit, v)

    def tobytes(self, pad=0, rng=None):
        n = (-len(self.b)) % 32
        tail = [rng.randint(0, 1) for _ in range(n)] if rng is not None else [pad] * n
        b = self.b + tail
        out = bytearray()
        for i in range(0, len(b), 8):
            x = 0
            for k in b[i:i + 8]:
                x = 2 * x + k
            out.append(x)
        return bytes(out)


def c99_div(a, b):
    q = abs(a) // b
    return q if a >= 0 else -q


def mean_init(ftype):
    return {TYPE_U8: 0x80, TYPE_U16HL: 0x8000, TYPE_U16LH: 0x8000}.get(ftype, 0)


class PyEncoder:
    """Encodes a script of ('bs', n) / ('shift', s) / ('blk', pred, resn, samples)
    items; pred is 'zero', 0..3 or a list of LPC coefficients.  History is the TRUE
    signal.  ``trusted`` turns False when the script leaves what a conforming
    encoder emits (then only model-vs-implementation agreement is checked)."""

    def __init__(self, version, ftype, nchan, bs0, maxnlpc, nmean, skip=(), extra=0, init_mean=None):
        self.version, self.ftype, self.nchan = version, ftype, nchan
        self.bs0, self.maxnlpc, self.nmean = bs0, maxnlpc, nmean
        self.w = BitWriter()
        self.extra = extra
        for v in (ftype, nchan, bs0, maxnlpc, nmean, len(skip)):
            self.w.ulong(v, extra)
        for x in skip:
            self.w.uvar(7, x)
        self.nwrap = max(3, maxnlpc)
        m = mean_init(ftype) if init_mean is None else init_mean
        self.hist = [[0] * self.nwrap for _ in range(max(nchan, 1))]  # most recent first
        self.off = [[m] * max(1, nmean) for _ in range(max(nchan, 1))]
        self.bs, self.shift, self.chan = bs0, 0, 0
        self.lpcqoffset = 32 if version > 1 else 0
        self.trusted = version in (1, 2) and nchan >= 1 and bs0 >= 1
        self.outward, _ = ref_tables()
        self.blocks = []  # (chan, samples)

    def range(self, *vals):
        """int32 arithmetic of the decoder would wrap: not a stream a conforming encoder writes"""
        for v in vals:
            if not -2147483648 <= v < 2147483648:
                self.trusted = False

    def unfix(self, s):
        f, b = self.ftype, self.shift
        if f == TYPE_AU1:
            return self.outward[b].index(s) - 128
        if f == TYPE_AU2:
            if s == 0x7F:
                return -1
            i = self.outward[b].index(s)
            return i - 128 if i >= 128 else i - 129
        assert (s >> b) << b == s
        return s >> b

    def item(self, it):
        w = self.w
        if it[0] == "bs":
            w.uvar(2, FN_BLOCKSIZE)
            w.ulong(it[1], self.extra)
            if it[1] > self.bs0 or it[1] < 1 or self.chan != 0:
                self.trusted = False
            self.bs = it[1]
            return
        if it[0] == "shift":
            w.uvar(2, FN_BITSHIFT)
            w.uvar(2, it[1])
            self.shift = it[1]
            return
        if it[0] == "raw":  # arbitrary command code
            w.uvar(2, it[1])
            self.trusted = False
            return
        _, pred, resn, samples = it
        assert len(samples) == self.bs
        vs = [self.unfix(s) for s in samples]
        chan, nmean, version, shift = self.chan, self.nmean, self.version, self.shift
        if nmean:
            sm = (0 if version < 2 else nmean // 2) + sum(self.off[chan][:nmean])
            co = c99_div(sm, nmean) if version < 2 else c99_div(sm, nmean) >> shift
        else:
            co = self.off[chan][0]
        h = self.hist[chan]
        if pred == "zero":
            assert not any(vs)
            w.uvar(2, FN_ZERO)
        elif isinstance(pred, int):
            w.uvar(2, pred)
            w.uvar(3, resn)
            buf = list(h)
            for v in vs:
                p = [co, buf[0], 2 * buf[0] - buf[1], 3 * (buf[0] - buf[1]) + buf[2]][pred]
                w.var(resn, v - p)
                self.range(v - p, v)
                buf.insert(0, v)
        else:
            qs = list(pred)
            w.uvar(2, FN_QLPC)
            w.uvar(3, resn)
            w.uvar(2, len(qs))
            for q in qs:
                w.var(5, q)
            if len(qs) > self.maxnlpc:
                self.trusted = False
            if self.bs < self.nwrap and qs and co:
                self.trusted = False  # the decoder leaves shifted samples in its history
            buf = [x - co for x in h]
            self.range(*qs)
            self.range(*buf[: len(qs)])
            for v in vs:
                sm = self.lpcqoffset + sum(q * (buf[j] if j < len(buf) else 0) for j, q in enumerate(qs))
                p = sm >> 5
                w.var(resn, (v - co) - p)
                self.range(sm, (v - co) - p, v - co, v)
                buf.insert(0, v - co)
        self.hist[chan] = (vs[::-1] + h)[: self.nwrap]
        if nmean > 0:
            sm = (0 if version < 2 else self.bs // 2) + sum(vs)
            m = c99_div(sm, self.bs)
            if version >= 2:
                m <<= shift
            self.range(m)
            self.off[chan] = self.off[chan][1:nmean] + [m]
        self.blocks.append((chan, list(samples), self.bs))
        self.chan = (chan + 1) % self.nchan

    def finish(self, quit=True, pad=0, rng=None):
        if quit:
            self.w.uvar(2, FN_QUIT)
        return bytes(b"ajkg") + bytes([self.version & 0xFF]) + self.w.tobytes(pad, rng)

    def expected(self):
        """data written by complete rounds, interleaved"""
        out, i, nchan = [], 0, self.nchan
        while i + nchan <= len(self.blocks):
            g = self.blocks[i:i + nchan]
            n = g[-1][2]
            for t in range(n):
                for (_, s, _) in g:
                    out.append(s[t] if t < len(s) else 0)
            i += nchan
        return out


def sphere_wrap(payload, nchan, nsamp, ftype, shortened=True):
    ulaw = ftype in (TYPE_AU1, TYPE_AU2)
    coding = ("ulaw" if ulaw else "pcm") + (",embedded-shorten-v2.00" if shortened else "")
    nbytes = 1 if ulaw else 2
    order = "1" if ulaw else ("10" if ftype in (TYPE_S16HL, TYPE_U16HL) else "01")
    h = (
        "NIST_1A\n   1024\nchannel_count -i %d\nsample_count -i %d\nsample_rate -i 8000\n"
        "sample_n_bytes -i %d\nsample_byte_format -s%d %s\nsample_coding -s%d %s\nend_head\n"
        % (max(nchan, 1), max(nsamp, 1), nbytes, len(order), order, len(coding), coding)
    ).encode()
    return h + b" " * (1024 - len(h)) + payload


DT = {"I16": ("DT_I16", "int16"), "I32": ("DT_I32", "int32"), "U8": ("DT_U8", "uint8"), "NONE": ("DT_I16", None)}


def cast_expected(vals, dtkey, ftype, pcm):
    """what numpy's assignment into the output array does to exact integers"""
    out = []
    for v in vals:
        if dtkey == "U8":
            w = v % 256
        elif dtkey in ("I16", "NONE"):
            w = (v + 32768) % 65536 - 32768
        else:
            w = v
        if dtkey != "U8" and ftype in (TYPE_AU1, TYPE_AU2):
            w = pcm[w]
        out.append(w)
    return out


class Hang(BaseException):
    """the implementation did not return (watchdog)"""


class Impl:
    limit = 20
    hangs = 0

    def __init__(self):
        C.ensure_impl_path()
        import importlib

        import numpy as np

        self.np = np
        self.util = importlib.import_module("pydrobert.speech.util")

    def guarded(self, fn):
        """run fn() under a watchdog -> ('ok', flat list) | ('ioerror', msg) | ('other', 'ExcName: msg')"""
        import signal

        np = self.np
        if self.hangs >= 5:
            return ("other", "Hang: not run, the implementation hung %d times before" % self.hangs)

        def on_alarm(signum, frame):
            raise Hang("no answer within %d s" % self.limit)

        old = signal.signal(signal.SIGALRM, on_alarm)
        signal.setitimer(signal.ITIMER_REAL, self.limit)
        try:
            with warnings.catch_warnings():
                warnings.simplefilter("ignore")
                with np.errstate(all="ignore"):
                    a = fn()
            return ("ok", [int(x) for x in np.asarray(a).reshape(-1).tolist()])
        except Hang as e:
            self.hangs += 1
            if self.hangs >= 3:
                self.limit = 2  # do not spend the whole run waiting
            return ("other", "Hang: %s" % e)
        except IOError as e:
            return ("ioerror", str(e)[:80])
        except Exception as e:  # noqa: BLE001 - the class is the observation
            return ("other", "%s: %s" % (type(e).__name__, str(e)[:80]))
        finally:
            signal.setitimer(signal.ITIMER_REAL, 0)
            signal.signal(signal.SIGALRM, old)

    def decode(self, payload, nchan, nsamp, ftype, dtkey):
        np = self.np
        dt = DT[dtkey][1]
        f = io.BytesIO(sphere_wrap(payload, nchan, nsamp, ftype))
        return self.guarded(lambda: self.util.read_signal(
            f, dtype=None if dt is None else np.dtype(dt), force_as="sph"))


# --------------------------------------------------------------------------
# generators


def gen_signal(r, n, amp, kind=None):
    """integer test signal of n samples, |x| <= amp"""
    import math

    kind = kind or r.choice(["walk", "sine", "noise", "const", "ramp", "spiky"])
    if amp <= 0:
        return [0] * n
    if kind == "walk":
        x, out = r.randint(-amp // 2, amp // 2), []
        step = max(1, amp // 16)
        for _ in range(n):
            x = max(-amp, min(amp, x + r.randint(-step, step)))
            out.append(x)
        return out
    if kind == "sine":
        w, ph = r.uniform(0.01, 1.5), r.uniform(0, 6.28)
        return [int(round(amp * math.sin(w * i + ph))) for i in range(n)]
    if kind == "noise":
        return [r.randint(-amp, amp) for _ in range(n)]
    if kind == "const":
        c = r.randint(-amp, amp)
        return [c] * n
    if kind == "ramp":
        a, s = r.randint(-amp, amp), r.randint(-3, 3)
        return [max(-amp, min(amp, a + s * i)) for i in range(n)]
    return [r.choice([0, 0, 0, amp, -amp, r.randint(-amp, amp)]) for _ in range(n)]


def gen_case(r, thorough=False, exotic=False):
    """-> dict(params, script, chans)   script items carry final sample values"""
    version = r.choice([1, 2, 2])
    u = r.random()
    if u < 0.55:
        ftype = r.choice([TYPE_S16HL, TYPE_S16LH])
    elif u < 0.8:
        ftype = r.choice([TYPE_AU1, TYPE_AU2])
    elif u < 0.9 or not exotic:
        ftype = TYPE_ULAW
    else:
        ftype = r.choice([TYPE_S8, TYPE_U8, TYPE_U16HL, TYPE_U16LH])
    au = ftype in (TYPE_AU1, TYPE_AU2)
    nchan = r.choice([1, 1, 2, 2, 3, 4] + ([5, 8] if thorough else []))
    bs0 = r.choice([1, 2, 3, 4, 5, 7, 8, 11, 16, 24, 32] + ([64, 256] if thorough else [48]))
    maxnlpc = r.choice([0, 0, 1, 2, 3, 4, 6, 8] + ([20, 32] if thorough else [12]))
    nmean = r.choice([0, 0, 1, 2, 3, 4, 4, 7])
    skip = [r.randint(0, 255) for _ in range(r.choice([0, 0, 0, 0, 1, 3]))]
    nwrap = max(3, maxnlpc)
    nround = r.randint(0, 8 if thorough else 5)
    amp = r.choice([0, 1, 5, 40, 300, 3000, 20000, 32767])
    wide = (not au) and r.random() < 0.1  # beyond 16 bits (visible with dtype int32, wraps with int16)
    if wide:
        amp = r.choice([40000, 1 << 20, (1 << 24) - 1])
    script, bs, shift = [], bs0, 0
    total = [[] for _ in range(nchan)]
    for g in range(nround):
        if r.random() < 0.3:
            shift = r.choice([0, 0, 1, 2, 3, 5, 8, 12]) if au else r.choice([0, 0, 1, 2, 3, 4, 7, 10])
            script.append(("shift", shift))
        if r.random() < 0.3 or (g == nround - 1 and r.random() < 0.7):
            bs = r.randint(1, bs0)
            script.append(("bs", bs))
        for c in range(nchan):
            if exotic and r.random() < 0.05:
                shift = r.choice([0, 1, 2, 6])
                script.append(("shift", shift))
            pk = r.choice(["d0", "d1", "d2", "d3", "q", "q", "zero"])
            if au:
                if pk == "zero":
                    s0 = ref_tables()[0][shift][128]
                    smp = [s0] * bs
                else:
                    lo = r.choice([0, 0, 100, 200])
                    smp = [r.randint(lo, 255) for _ in range(bs)] if r.random() < 0.5 else [
                        (lo + (i * r.choice([1, 1, 2])) ) % 256 for i in range(bs)]
                a_eff = 128
            else:
                a_eff = max(0, min(amp, (1 << (23 if wide else 15)) - 1) >> shift)
                smp = [0] * bs if pk == "zero" else [v << shift for v in gen_signal(r, bs, a_eff)]
            if pk == "zero":
                pred = "zero"
            elif pk == "q":
                if maxnlpc == 0 or (bs < nwrap and not exotic):
                    pred = r.randint(0, 3)
                else:
                    nl = r.randint(0, maxnlpc)
                    style = r.random()
                    if style < 0.4 and nl >= 2:
                        pred = [r.randint(40, 64), -r.randint(10, 32)] + [r.randint(-6, 6) for _ in range(nl - 2)]
                    elif style < 0.8:
                        pred = [r.randint(-40, 40) for _ in range(nl)]
                    else:
                        pred = [r.choice([-1, 1]) * r.choice([0, 31, 32, 33, 64, 100, 300]) for _ in range(nl)]
            else:
                pred = int(pk[1])
            base = max(0, a_eff.bit_length() - r.choice([0, 1, 2, 3, 5]))
            resn = max(0, min(20, base + r.choice([-1, 0, 0, 1, 2])))
            script.append(("blk", pred, resn, smp))
            total[c] += smp
    return dict(version=version, ftype=ftype, nchan=nchan, bs0=bs0, maxnlpc=maxnlpc, nmean=nmean,
                skip=skip, script=script, chans=total)


def gen_long_case(r):
    """a stream of 18-30 KiB: crosses the first 16 KiB read and several refills of word_get"""
    nchan = r.choice([1, 2])
    bs0 = r.choice([64, 100, 256])
    ftype = r.choice([TYPE_S16HL, TYPE_S16LH, TYPE_AU2])
    au = ftype == TYPE_AU2
    maxnlpc = r.choice([0, 2, 8])
    nround = (24000 if au else 11000) // (bs0 * nchan) + r.randint(0, 4)
    script, total = [], [[] for _ in range(nchan)]
    for g in range(nround):
        for c in range(nchan):
            if au:
                smp = [r.randint(0, 255) for _ in range(bs0)]
                resn = 6
            else:
                smp = gen_signal(r, bs0, 30000, "noise")
                resn = 14
            pred = r.choice([0, 1, 2, 3] + ([[r.randint(-20, 20) for _ in range(maxnlpc)]] if maxnlpc and bs0 >= maxnlpc else []))
            script.append(("blk", pred, resn + (2 if isinstance(pred, list) or pred in (2, 3) else 0), smp))
            total[c] += smp
    return dict(version=2, ftype=ftype, nchan=nchan, bs0=bs0, maxnlpc=maxnlpc, nmean=r.choice([0, 4]), skip=[],
                script=script, chans=total)


MAX_STREAM = 150000


def stream_size(c):
    """bytes the independent encoder needs for the case (the Coq encoder writes the same stream)"""
    try:
        enc = PyEncoder(c["version"], c["ftype"], c["nchan"], c["bs0"], c["maxnlpc"], c["nmean"], c["skip"])
        for it in c["script"]:
            enc.item(it)
            if len(enc.w.b) > 8 * MAX_STREAM:
                break
        return len(enc.w.b) // 8
    except (AssertionError, ValueError, IndexError):
        return 0


def coq_item(it):
    if it[0] == "bs":
        return "IBlockSize %d" % it[1]
    if it[0] == "shift":
        return "IBitShift %d" % it[1]
    _, pred, resn, smp = it
    if pred == "zero":
        p = "PZero"
    elif isinstance(pred, int):
        p = "(PDiff %d)" % pred
    else:
        p = "(PQlpc %s)" % C.zlist(list(pred))
    return "IBlock %s %d %s" % (p, resn, C.zlist(list(smp)))


def coq_params(c):
    return "(mkParams %d %d %d %d %d %d %s)" % (
        c["version"], c["ftype"], c["nchan"], c["bs0"], c["maxnlpc"], c["nmean"], C.zlist(list(c["skip"])))


def interleave(chans):
    if not chans or not chans[0]:
        return []
    return [ch[t] for t in range(len(chans[0])) for ch in chans]


REQ = ("From Coq Require Import ZArith List Bool.\nFrom Verif Require Import gen.Shorten C13.Model.\n"
       "Import ListNotations.\nOpen Scope Z_scope.\n")


def summarize(c):
    kinds = {}
    for it in c["script"]:
        k = it[0] if it[0] != "blk" else ("zero" if it[1] == "zero" else "diff%d" % it[1] if isinstance(it[1], int) else "qlpc%d" % len(it[1]))
        kinds[k] = kinds.get(k, 0) + 1
    return dict(version=c["version"], ftype=c["ftype"], nchan=c["nchan"], bs0=c["bs0"], maxnlpc=c["maxnlpc"],
                nmean=c["nmean"], nskip=len(c["skip"]), items=kinds, nsamp=len(c["chans"][0]) if c["chans"] else 0)


def count_case(ctx, c, prefix):
    ctx.count("%s:version=%d" % (prefix, c["version"]))
    ctx.count("%s:ftype=%d" % (prefix, c["ftype"]))
    ctx.count("%s:nchan=%d" % (prefix, c["nchan"]))
    ctx.count("%s:nmean=%d" % (prefix, c["nmean"]))
    for it in c["script"]:
        if it[0] == "blk":
            k = "zero" if it[1] == "zero" else "diff%d" % it[1] if isinstance(it[1], int) else "qlpc"
            ctx.count("%s:cmd=%s" % (prefix, k))
        else:
            ctx.count("%s:cmd=%s" % (prefix, it[0]))


# --------------------------------------------------------------------------
# correspondence A: Coq encoder -> implementation decoder


def corr_encoder(ctx, impl, n_cases):
    r = ctx.rng
    _, pcm = ref_tables()
    cases = []
    while len(cases) < n_cases:
        c = gen_case(r, ctx.thorough)
        if stream_size(c) > MAX_STREAM:  # long unary runs (small residual width, huge residuals)
            ctx.count("A:skipped-stream-over-%dkB" % (MAX_STREAM // 1000))
            continue
        c["dt"] = r.choice(["NONE", "NONE", "I16", "I32"] + (["U8"] if c["ftype"] in (TYPE_AU1, TYPE_AU2) else []))
        c["pad"] = r.choice([False, True])
        c["want"] = cast_expected(interleave(c["chans"]), c["dt"], c["ftype"], pcm)
        cases.append(c)
    shard = 60
    files = []
    for s in range(0, len(cases), shard):
        body = []
        for j, c in enumerate(cases[s:s + shard]):
            body.append("Definition p%d := %s.\nDefinition its%d : list item := [%s].\n" % (
                j, coq_params(c), j, "; ".join(coq_item(it) for it in c["script"])))
            body.append(
                "Eval vm_compute in (match shn_encode %s p%d its%d with Some b => "
                "(1, list_eqb (expected %s p%d its%d) %s, b) | None => (0, false, []) end).\n" % (
                    "true" if c["pad"] else "false", j, j, DT[c["dt"]][0], j, j, C.zlist(c["want"])))
        files.append(("encA_%d" % (s // shard), "".join(body)))
    res = C.coq_eval_many(ctx, files, REQ)
    bad = 0
    for (name, _), (ans, log), s in zip(files, res, range(0, len(cases), shard)):
        chunk = cases[s:s + shard]
        if ans is None or len(ans) != len(chunk):
            ctx.fail("Coq evaluation of the encoder cases failed (%s)" % name,
                     dict(correspondence="Coq encoder -> implementation", log_tail=(log or "")[-1500:]),
                     kind="correspondence", no_input=True)
            continue
        for c, a in zip(chunk, ans):
            v = C.parse_coq(a)
            okflag, exp_ok, bts = v
            count_case(ctx, c, "A")
            if not okflag:
                ctx.count("A:encoder-rejected")
                ctx.case(dict(kind="A", rejected=True, **summarize(c)), nontrivial=False)
                continue
            payload = bytes(bts)
            nsamp = len(c["chans"][0]) if c["chans"] else 0
            slack = r.choice([0, 0, 0, 5])
            got = impl.decode(payload, c["nchan"], nsamp + slack, c["ftype"], c["dt"])
            ctx.case(dict(kind="A", dt=c["dt"], bytes=len(payload), **summarize(c)), nontrivial=nsamp > 0)
            ctx.cov["traces_validated_against_impl"] += 1
            rep = dict(kind="A", dt=c["dt"], params=summarize(c), payload_hex=payload.hex(), nchan=c["nchan"],
                       nsamp=nsamp + slack, ftype=c["ftype"], expected=c["want"][:4000], got=got if got[0] != "ok" else ("ok", got[1][:4000]),
                       script=[list(it) if it[0] != "blk" else [it[0], it[1], it[2], it[3]] for it in c["script"]][:60])
            if not exp_ok:
                bad += 1
                if bad <= 5:
                    ctx.fail("Coq 'expected' differs from the plain interleaving of the channel signals", rep,
                             kind="correspondence")
            if got != ("ok", c["want"]):
                bad += 1
                if bad <= 5:
                    ctx.fail("implementation does not decode a stream written by the Coq encoder to its samples "
                             "(%s)" % (got[0] if got[0] != "ok" else "different data"), rep, kind="correspondence")
    return bad


# --------------------------------------------------------------------------
# correspondence B: model decoder vs implementation decoder on arbitrary streams


def header_ok_for_eval(payload, nchan_hdr=None):
    """pre-screen: skip streams whose header asks for absurd allocations, or (after a
    bit flip) a channel count other than the SPHERE header's: copy_samples then returns
    sample_count * channel_count items of which the decoder wrote only a part"""
    if len(payload) < 9 or payload[:4] != b"ajkg":
        return True
    bits = []
    for byte in payload[5:5 + 4 * ((len(payload) - 5) // 4)][:256]:
        bits += [(byte >> k) & 1 for k in range(7, -1, -1)]
    pos = [0]

    def uvar(nbin):
        z = 0
        while True:
            if pos[0] >= len(bits):
                raise EOFError
            b = bits[pos[0]]
            pos[0] += 1
            if b:
                break
            z += 1
        for _ in range(nbin):
            if pos[0] >= len(bits):
                raise EOFError
            z = 2 * z + bits[pos[0]]
            pos[0] += 1
        return z

    try:
        vals = []
        for _ in range(6):
            nb = uvar(2)
            if nb > 40:
                return False
            vals.append(uvar(nb))
    except EOFError:
        return True
    ftype, nchan, bs, maxnlpc, nmean, nskip = vals
    if nchan_hdr is not None and nchan != nchan_hdr:
        return False
    return nchan <= 64 and bs <= 5000 and maxnlpc <= 200 and nmean <= 200 and nskip <= 5000 and nchan * (bs + maxnlpc) <= 100000


def gen_stream(ctx, r):
    """-> (payload, meta) from the independent encoder, possibly exotic / damaged"""
    c = gen_case(r, ctx.thorough, exotic=True)
    extra = r.choice([0, 0, 0, 1, 3, 30])
    enc = PyEncoder(c["version"], c["ftype"], c["nchan"], c["bs0"], c["maxnlpc"], c["nmean"], c["skip"], extra)
    kind = r.choice(["valid", "valid", "valid", "trunc", "trunc", "flip", "unknown", "version", "noquit",
                     "grow", "midbs", "nlpc", "garbage", "short"])
    script = list(c["script"])
    if kind == "grow" and script:
        script.insert(r.randrange(len(script) + 1), ("bs", c["bs0"] + r.randint(1, 4)))
    try:
        for it in script:
            if it[0] == "blk" and len(it[3]) != enc.bs:
                # block sizes were planned for the unmodified script
                it = ("blk", it[1] if it[1] != "zero" else 0, it[2], (list(it[3]) + [0] * enc.bs)[: enc.bs]) \
                    if enc.ftype not in (TYPE_AU1, TYPE_AU2) else ("blk", it[1] if it[1] != "zero" else 1, it[2], (list(it[3]) + [255] * enc.bs)[: enc.bs])
                if it[1] != "zero" and enc.ftype not in (TYPE_AU1, TYPE_AU2):
                    it = ("blk", it[1], it[2], [(v >> enc.shift) << enc.shift for v in it[3]])
            if kind == "midbs" and it[0] == "blk" and enc.chan == 1 and r.random() < 0.5:
                enc.item(("bs", r.randint(1, c["bs0"])))
                it = ("blk", it[1] if it[1] != "zero" else 0, it[2], (list(it[3]) + [0] * enc.bs)[: enc.bs]) \
                    if enc.ftype not in (TYPE_AU1, TYPE_AU2) else ("blk", 1, it[2], (list(it[3]) + [255] * enc.bs)[: enc.bs])
                if enc.ftype not in (TYPE_AU1, TYPE_AU2):
                    it = ("blk", it[1], it[2], [(v >> enc.shift) << enc.shift for v in it[3]])
            if kind == "nlpc" and it[0] == "blk" and isinstance(it[1], list):
                it = ("blk", list(it[1]) + [r.randint(-9, 9) for _ in range(c["maxnlpc"] + 1 - len(it[1]))], it[2], it[3])
            enc.item(it)
    except (AssertionError, ValueError):
        enc.trusted = False
    trusted, expect_io = enc.trusted, False
    if kind == "unknown":
        enc.item(("raw", r.choice([9, 9, 10, 12, 17, 40, 200])))
        expect_io = trusted
    version_byte = None
    if kind == "noquit":
        payload = enc.finish(quit=False, pad=0)  # zeros never end the unary part: the reader runs off the end
        expect_io = trusted
    else:
        payload = enc.finish(quit=(kind != "unknown"), rng=r)
    expected = enc.expected()
    if kind == "trunc" and len(payload) > 5:
        # the QUIT command ends in the last word (at most 31 padding bits follow)
        cut = r.choice([4, 5, 6, 8, 9, r.randint(5, len(payload) - 1), r.randint(5, len(payload) - 1),
                        len(payload) - 1, len(payload) - 3, len(payload) - 4])
        cut = max(4, min(cut, len(payload) - 1))
        payload = payload[:cut]
        expect_io = trusted
    elif kind == "flip" and len(payload) > 5:
        b = bytearray(payload)
        for _ in range(r.choice([1, 1, 2, 5])):
            i = r.randrange(5, len(b))
            b[i] ^= 1 << r.randrange(8)
        payload = bytes(b)
        trusted = False
    elif kind == "version":
        version_byte = r.choice([0, 3, 4, 7, 127, 128, 255, 254])
        payload = payload[:4] + bytes([version_byte]) + payload[5:]
        expect_io = True
        trusted = False
    elif kind == "garbage":
        payload = payload[:5] + bytes(r.randrange(256) for _ in range(r.choice([0, 3, 4, 16, 64])))
        trusted = False
    elif kind == "short":
        payload = payload[: r.choice([4, 5, 6, 7, 8])]
        expect_io = True
        trusted = False
    meta = dict(kind=kind, case=c, trusted=trusted and kind in ("valid",), expect_io=expect_io, expected=expected,
                extra=extra)
    return payload, meta


def corr_decoder(ctx, impl, n_cases, extra_streams=()):
    r = ctx.rng
    _, pcm = ref_tables()
    todo = []
    for payload, meta in extra_streams:
        todo.append((payload, meta))
    while len(todo) < n_cases + len(extra_streams):
        payload, meta = gen_stream(ctx, r)
        if not header_ok_for_eval(payload, max(1, meta["case"]["nchan"])):
            ctx.count("B:skipped-huge-or-inconsistent-header")
            continue
        if len(payload) > MAX_STREAM:
            ctx.count("B:skipped-stream-over-%dkB" % (MAX_STREAM // 1000))
            continue
        todo.append((payload, meta))
    rows = []
    for payload, meta in todo:
        c = meta["case"]
        dtkey = meta.get("dt") or r.choice(["NONE", "I32", "I16"] + (["U8"] if c["ftype"] in (TYPE_AU1, TYPE_AU2) else []))
        nsamp = meta.get("nsamp")
        if nsamp is None:
            nsamp = (len(meta["expected"]) // max(1, c["nchan"])) + r.choice([0, 0, 7])
        got = impl.decode(payload, c["nchan"], nsamp + 8, c["ftype"], dtkey)
        rows.append((payload, meta, dtkey, nsamp + 8, got))
    # shards of at most 100 streams and about 600 kB (a reference vector gets a file of its own)
    files, chunks, cur, size = [], [], [], 0
    head = ("Definition agree (m : res (list Z)) (k : Z) (d : list Z) : Z :=\n"
            "  match m with\n  | Ok l => if (k =? 0) && list_eqb l d then 0 else 3\n"
            "  | Err EIO => if k =? 1 then 1 else 3\n  | Err EUnspec => 2\n  | Err EFuel => 4\n  end.\n")

    def flush():
        if cur:
            files.append(("decB_%d" % len(files), head + "".join(t for t, _ in cur)))
            chunks.append([r for _, r in cur])

    for row in rows:
        payload, meta, dtkey, nsamp, got = row
        k = {"ok": 0, "ioerror": 1, "other": 5}[got[0]]
        d = got[1] if got[0] == "ok" else []
        text = "Eval vm_compute in (agree (shn_decode %s %s) %d %s).\n" % (
            DT[dtkey][0], C.zlist(list(payload)), k, C.zlist(d))
        if cur and (len(cur) >= 100 or size + len(text) > 600000):
            flush()
            cur, size = [], 0
        cur.append((text, row))
        size += len(text)
    flush()
    res = C.coq_eval_many(ctx, files, REQ)
    bad = 0
    for (name, _), (ans, log), chunk in zip(files, res, chunks):
        if ans is None or len(ans) != len(chunk):
            ctx.fail("Coq evaluation of the decoder cases failed (%s)" % name,
                     dict(correspondence="model decoder vs implementation", log_tail=(log or "")[-1500:]),
                     kind="correspondence", no_input=True)
            continue
        for (payload, meta, dtkey, nsamp, got), a in zip(chunk, ans):
            code = int(a.strip())
            c = meta["case"]
            ctx.count("B:kind=" + meta["kind"])
            ctx.count("B:model=" + {0: "data", 1: "EIO", 2: "outside-domain", 3: "MISMATCH", 4: "EFuel"}[code]
                      + "/impl=" + got[0])
            nontrivial = code in (0, 1) and len(payload) > 9
            ctx.case(dict(kind="B", sub=meta["kind"], dt=dtkey, bytes=len(payload), sha=hashlib.sha1(payload).hexdigest()[:12],
                          outcome=code, **summarize(c)), nontrivial=nontrivial)
            if code in (0, 1):
                ctx.cov["traces_validated_against_impl"] += 1
            rep = dict(kind="B", sub=meta["kind"], dt=dtkey, payload_hex=payload.hex(), nchan=c["nchan"], nsamp=nsamp,
                       ftype=c["ftype"], impl=got if got[0] != "ok" else ("ok", got[1][:4000]), model_code=code,
                       params=summarize(c))
            if code in (3, 4):
                bad += 1
                if bad <= 5:
                    ctx.fail("model and implementation disagree on a %s stream (implementation: %s; model code %d)" % (
                        meta["kind"], got[0] if got[0] != "ok" else "data", code), rep, kind="correspondence")
            # the property itself, on the streams a conforming encoder emits
            if meta["trusted"] and meta["kind"] == "valid" and c["ftype"] in ORACLE_TYPES:
                want = cast_expected(meta["expected"], dtkey, c["ftype"], pcm)
                if got != ("ok", want):
                    bad += 1
                    rep2 = dict(rep, expected=want[:4000])
                    ctx.fail("valid stream of the independent encoder is not decoded to its samples", rep2, kind="impl")
            if meta["expect_io"] and got[0] != "ioerror":
                bad += 1
                ctx.fail("damaged stream (%s) did not raise IOError: %s" % (meta["kind"], got[0] if got[0] != "ok" else "returned data"),
                         rep, kind="impl", key=("C13-eof-after-magic" if len(payload) == 4 else None))
    return bad


ORACLE_TYPES = (TYPE_S16HL, TYPE_S16LH, TYPE_AU1, TYPE_AU2, TYPE_ULAW)


# --------------------------------------------------------------------------
# reference vectors


def ref_vectors():
    d = os.path.join(C.REPO, "tests", "audio")
    if not os.path.isdir(d):
        d = "/repo/tests/audio"
    out = []
    for name, nchan, ftype in (("123_1pcbe", 1, TYPE_S16HL), ("123_1pcle", 1, TYPE_S16LH), ("123_1ulaw", 1, TYPE_AU2),
                               ("123_2pcbe", 2, TYPE_S16HL), ("123_2pcle", 2, TYPE_S16LH), ("123_2ulaw", 2, TYPE_AU2)):
        sph, wav = os.path.join(d, name + "_shn.sph"), os.path.join(d, name + ".wav")
        if os.path.exists(sph) and os.path.exists(wav):
            out.append((name, nchan, ftype, sph, wav))
    return out


def read_wav(path):
    import wave

    import numpy as np

    with wave.open(path, "rb") as w:
        assert w.getsampwidth() == 2
        raw = w.readframes(w.getnframes())
    return [int(x) for x in np.frombuffer(raw, dtype="<i2").tolist()]


def check_vectors(ctx, impl):
    """implementation against the WAVs (the property's last clause)"""
    streams, vec_fails = [], []
    for name, nchan, ftype, sph, wav in ref_vectors():
        want = read_wav(wav)
        ctx.count("vectors:" + name)
        got = impl.guarded(lambda: impl.util.read_signal(open(sph, "rb"), force_as="sph"))
        ok = got == ("ok", want)
        what = "different samples" if got[0] == "ok" else "%s: %s" % (got[0], got[1])
        ctx.case(dict(kind="vector", name=name, samples=len(want)))
        if not ok:
            vec_fails.append(("reference vector %s does not decode to its WAV (%s)" % (name, what),
                              dict(kind="vector", file=sph, wav=wav, detail=what)))
        data = open(sph, "rb").read()
        hdrsize = int(data.split(b"\n")[1])
        streams.append((data[hdrsize:], dict(kind="refvec:" + name, case=dict(
            version=2, ftype=ftype, nchan=nchan, bs0=256, maxnlpc=0, nmean=4, skip=[], script=[], chans=[]),
            trusted=False, expect_io=False, expected=[], dt="NONE", nsamp=len(want) // nchan)))
    return streams, vec_fails


# --------------------------------------------------------------------------
# search: the property itself on the implementation


def search(ctx, impl, n_cases):
    r = ctx.rng
    _, pcm = ref_tables()
    bad = []
    n_long = ctx.scale(2, 12)
    for i in range(n_cases + n_long):
        if i < n_long:
            c = gen_long_case(r)  # longer than the 16 KiB first read and several 1 KiB refills
        else:
            c = gen_case(r, ctx.thorough)
        if c["ftype"] not in ORACLE_TYPES:
            continue
        enc = PyEncoder(c["version"], c["ftype"], c["nchan"], c["bs0"], c["maxnlpc"], c["nmean"], c["skip"],
                        r.choice([0, 0, 1, 5]))
        for it in c["script"]:
            enc.item(it)
        if not enc.trusted:
            continue
        dtkey = r.choice(["NONE", "I32"] + (["U8"] if c["ftype"] in (TYPE_AU1, TYPE_AU2) else []))
        open_bits = list(enc.w.b)
        if len(open_bits) > 8 * 4 * MAX_STREAM:
            ctx.count("S:skipped-stream-over-%dkB" % (4 * MAX_STREAM // 1000))
            continue
        payload = enc.finish(rng=r)
        want = cast_expected(interleave(c["chans"]), dtkey, c["ftype"], pcm)
        nsamp = len(c["chans"][0]) + r.choice([0, 0, 4])
        got = impl.decode(payload, c["nchan"], nsamp, c["ftype"], dtkey)
        count_case(ctx, c, "S")
        ctx.count("S:long-streams(>16KiB)" if len(payload) > 17500 else "S:short-streams")
        ctx.case(dict(kind="S", dt=dtkey, bytes=len(payload), sha=hashlib.sha1(payload).hexdigest()[:12], **summarize(c)),
                 nontrivial=bool(want))
        rep = dict(kind="S", dt=dtkey, params=summarize(c), payload_hex=payload.hex(), nchan=c["nchan"], nsamp=nsamp,
                   ftype=c["ftype"], expected=want[:4000])
        if got != ("ok", want):
            bad.append(("roundtrip", dict(rep, got=got if got[0] != "ok" else ("ok", got[1][:4000]))))
            continue
        # truncations: every cut that removes a bit of the stream must raise IOError
        cuts = set([4, 5, 8, 9, len(payload) - 1, len(payload) - 4] + [r.randint(4, len(payload) - 1) for _ in range(3)])
        if len(payload) > 16384:
            # cuts around the reader's own boundaries: the 16 KiB first read, and every later refill (1 KiB less the
            # carried bytes), leaving 0..4 bytes in the last refill
            marks = [16384] + list(range(17405, len(payload), 1024)) + list(range(16384 + 1024, len(payload), 1024))
            for m0 in r.sample(marks, min(len(marks), 4)):
                for j in (-1, 0, 1, 2, 3, 4):
                    cuts.add(m0 + j)
            ctx.count("S:refill-boundary-truncations")
        cuts = sorted(cuts)
        for cut in cuts:
            if 4 <= cut < len(payload):
                g2 = impl.decode(payload[:cut], c["nchan"], nsamp, c["ftype"], dtkey)
                ctx.count("S:truncations")
                if g2[0] != "ioerror":
                    bad.append(("early-eof", dict(rep, cut=cut, payload_hex=payload[:cut].hex(),
                                                  got=g2 if g2[0] != "ok" else ("ok", g2[1][:200]))))
        # unknown command after the open stream
        w2 = BitWriter()
        w2.b = list(open_bits)
        w2.uvar(2, r.choice([9, 10, 11, 15, 33, 255]))
        p2 = payload[:5] + w2.tobytes(rng=r)
        g3 = impl.decode(p2, c["nchan"], nsamp, c["ftype"], dtkey)
        ctx.count("S:unknown-commands")
        if g3[0] != "ioerror":
            bad.append(("unknown-command", dict(rep, payload_hex=p2.hex(), got=g3 if g3[0] != "ok" else ("ok", g3[1][:200]))))
        # unsupported version byte
        vb = r.choice([0, 3, 5, 127, 128, 200, 255])
        p3 = payload[:4] + bytes([vb]) + payload[5:]
        g4 = impl.decode(p3, c["nchan"], nsamp, c["ftype"], dtkey)
        ctx.count("S:bad-versions")
        if g4[0] != "ioerror":
            bad.append(("bad-version", dict(rep, payload_hex=p3.hex(), version_byte=vb, got=g4 if g4[0] != "ok" else ("ok", g4[1][:200]))))
    return bad


def regenerate(ctx):
    import shorten as gen_shorten
    from pyexpr import Unsupported

    try:
        gen_shorten.main(os.path.join(C.SRC, "_sphere.py"), os.path.join(C.COQ, "gen", "Shorten.v"))
        return True
    except (Unsupported, SyntaxError, OSError, ValueError) as e:
        if not C.tie_fallback(ctx, "translator gen/shorten.py no longer recognises _sphere.py: %s" % e,
                 dict(correspondence="gen/shorten.py -> coq/gen/Shorten.v", error=str(e)), kind="tie", no_input=True):
            return False
        return True


def run(ctx):
    impl = Impl()
    ok_gen = regenerate(ctx)
    pr = C.proof_step(ctx) if ok_gen else None
    ctx.cov["trusted_base"].append("translator /verif/gen/shorten.py (Python ast -> Z constants, sets, tables)")
    ctx.cov["trusted_base"].append("harness/c13.py: independent Python encoder, SPHERE header writer, exception -> class map")
    model_ok = False
    if ok_gen:
        model_ok, out = C.coq_make(["gen/Shorten.v", "C13/Model.v"])
        if not model_ok:
            ctx.fail("the model no longer compiles against the regenerated constants",
                     dict(correspondence="coq/C13/Model.v over coq/gen/Shorten.v", log_tail=out[-1500:]), kind="tie", no_input=True)
    # the pinned reference tables against the source's
    out_ref, pcm_ref = ref_tables()
    try:
        sph = __import__("importlib").import_module("pydrobert.speech._sphere")
        if sph.ULAW_OUTWARD.tolist() != out_ref or [int(x) for x in sph.ULAW2PCM.tolist()] != pcm_ref:
            ctx.fail("ULAW_OUTWARD / ULAW2PCM differ from the sph2pipe reference tables",
                     dict(correspondence="pinned reference tables vs _sphere.py"), kind="tie", no_input=True)
    except Exception as e:  # noqa: BLE001
        ctx.fail("cannot import the implementation: %s" % e, dict(error=str(e)), kind="tie", no_input=True)
    streams, vec_fails = check_vectors(ctx, impl)
    nbad = len(vec_fails)
    if model_ok:
        nbad += corr_encoder(ctx, impl, ctx.scale(240, 3000))
        nvec = len(streams) if ctx.thorough else 2
        pick = [s for s in streams if s[1]["kind"] in ("refvec:123_1pcbe", "refvec:123_1ulaw")] if not ctx.thorough else streams
        nbad += corr_decoder(ctx, impl, ctx.scale(500, 8000), pick[:nvec])
    bad = search(ctx, impl, ctx.scale(400, 12000))
    for name, rep in bad[:10]:
        ctx.fail("property violated on the implementation (%s)" % name, rep, kind="impl")
    for what, rep in vec_fails:  # small generated streams make better replays: the vectors come last
        ctx.fail(what, rep, kind="impl")
    if ((pr is not None and not pr["ok"]) or not ok_gen) and not bad and not nbad:
        ctx.log("search found no failing input on the implementation")
    ctx.cov["rule"] = (
        "A: stream encoded inside Coq from random (version, type, channels, block size, LPC order, mean length, "
        "script of DIFF0-3/QLPC/ZERO/BLOCKSIZE/BITSHIFT items, residual widths, padding) and decoded by the implementation; "
        "B: stream of the independent Python encoder (valid, exotic, truncated, bit-flipped, unknown command, bad version, "
        "no QUIT, oversized block, over-long LPC) decoded by model and implementation, non-trivial when the model gives "
        "data or IOError (not 'outside the modelled domain') on more than a header; S: valid streams, their truncations, "
        "unknown commands and bad versions on the implementation alone; distinct = distinct (parameters, script summary, "
        "stream hash)"
    )
    ctx.assumptions += [
        "file_.read(n) returns n bytes unless the file ends (the word-level refill of word_get is covered by streams "
        "longer than 16 KiB: the reference vectors)",
        "NumPy int32 wrap-around / OverflowError is not modelled: the model answers 'outside the modelled domain' there",
        "the SPHERE header parser is C12's; headers here are well-formed and declare embedded-shorten",
    ]
    return C.finish(ctx, "proof")


def replay(ctx, rp):
    """re-run a recorded case on the implementation (and print the model's answer)"""
    impl = Impl()
    f = rp.get("failure", {}).get("replay", {})
    if "payload_hex" not in f:
        import json

        print(json.dumps(rp, indent=1)[:4000])
        return 0
    payload = bytes.fromhex(f["payload_hex"])
    got = impl.decode(payload, f.get("nchan", 1), f.get("nsamp", 1), f.get("ftype", TYPE_S16LH), f.get("dt", "NONE"))
    print("implementation:", got[0], (got[1][:40] if got[0] == "ok" else got[1]))
    if "expected" in f:
        print("expected      :", f["expected"][:40])
    ans, log = C.coq_eval(ctx, "replay", "Eval vm_compute in (shn_decode %s %s).\n" % (
        DT[f.get("dt", "NONE")][0], C.zlist(list(payload))), REQ)
    print("model         :", (ans[0][:400] if ans else log[-400:]))
    bad = ("expected" in f and got != ("ok", f["expected"])) or (f.get("kind") != "S" and False)
    return 1 if bad else 0
