"""C14 - PyTorch modules compute what their NumPy counterparts compute.

Proof: coq/C14/Props.v (torch framing = compute_full's frames for every signal
length; the shared segment walk; energy identities over R; pre-emphasis identity).
Tie: (i) the frames pytorch_stft_frame_computer feeds to its FFT (captured by wrapping
torch.fft.rfft, index-coded signal) against torch_frames in Coq; (ii) one-hot walk
probes of the torch port against Stft/Walk.v.  Search: module vs NumPy counterpart on
the C02 configuration grid (float32 / float64, lengths from 0), wrappers, TorchScript
vs eager, dither reproducibility and moments.
"""

import numpy as np

from . import common as C
from . import stft
from . import c02


def capture_torch_frames(cfg, N):
    import torch
    from pydrobert.speech import torch as pst

    Lv, Sv, cen, kal = cfg
    rec = []
    orig = torch.fft.rfft

    def wrapped(inp, *a, **k):
        rec.append(inp.detach().clone())
        return orig(inp, *a, **k)

    torch.fft.rfft = wrapped
    try:
        sig = torch.arange(N, dtype=torch.float64)
        filt = [torch.ones(1, dtype=torch.complex128)]
        out = pst.pytorch_stft_frame_computer(sig, filt, [0], Lv, Sv, centered=cen, window=None, dft_size=Lv, use_log=False,
                                              use_power=False, include_energy=False, kaldi_shift=kal, is_real=False)
    finally:
        torch.fft.rfft = orig
    if not rec:
        return [], tuple(out.shape)
    fr = rec[0].numpy()
    return [[int(round(float(v))) for v in row] for row in fr], tuple(out.shape)


LAYOUTS = ["contiguous", "contiguous", "every second sample of a longer tensor", "one channel of an interleaved stereo tensor",
           "slice at an offset of a longer tensor"]


def laid_out(torch, x, layout):
    """A tensor holding x's values in the given memory layout; (tensor, backing array, pristine copy of the backing array)."""
    n = len(x)
    if layout == "every second sample of a longer tensor":
        back = np.zeros(2 * n + 1, dtype=x.dtype) + x.dtype.type(7)
        back[1 : 2 * n : 2] = x
        t = torch.from_numpy(back)[1 : 2 * n : 2]
    elif layout == "one channel of an interleaved stereo tensor":
        back = np.full((n, 2), 7, dtype=x.dtype)
        back[:, 1] = x
        t = torch.from_numpy(back)[:, 1]
    elif layout == "slice at an offset of a longer tensor":
        back = np.full(n + 11, 7, dtype=x.dtype)
        back[5 : 5 + n] = x
        t = torch.from_numpy(back)[5 : 5 + n]
    else:
        back = x.copy()
        t = torch.from_numpy(back)
    assert t.shape == (n,)
    return t, back, back.copy()


def numeric(ctx):
    import torch
    from pydrobert.speech import compute, config, filters, post, pre
    from pydrobert.speech import torch as pst

    rng = ctx.rng
    nprng = np.random.RandomState(ctx.seed + 9)
    bad = []
    mk = [
        ("gabor", lambda r: filters.GaborFilterBank("mel", num_filts=5, sampling_rate=r, low_hz=rng.choice([0.0, 20.0]))),
        ("gammatone", lambda r: filters.ComplexGammatoneFilterBank("mel", num_filts=5, sampling_rate=r)),
        ("tri", lambda r: filters.TriangularOverlappingFilterBank("mel", num_filts=6, sampling_rate=r)),
        ("fbank", lambda r: filters.Fbank(num_filts=6, sampling_rate=r)),
        ("fbank_analytic", lambda r: filters.Fbank(num_filts=6, sampling_rate=r, analytic=True)),
    ]
    for rep in range(ctx.scale(60, 500)):
        name, ctor = rng.choice(mk)
        rate = rng.choice([8000, 16000])
        bank = ctor(rate)
        kw = dict(frame_length_ms=rng.choice([2.5, 3.1, 5.0, 6.3, 8.0, 25.0, 25.0625]), frame_shift_ms=rng.choice([1.0, 2.5, 10.0, 10.0625]),
                  frame_style=rng.choice(["causal", "centered"]), kaldi_shift=rng.random() < 0.5, include_energy=rng.random() < 0.5,
                  pad_to_nearest_power_of_two=rng.random() < 0.5, use_log=rng.random() < 0.5, use_power=rng.random() < 0.5)
        try:
            c = compute.STFTFrameComputer(bank, **kw)
        except ValueError:
            continue
        Lv, Sv = c.frame_length, c.frame_shift
        wide = Sv > Lv  # frame_shift > frame_length: compute_full still works unless the kaldi left pad is negative
        if Sv <= 0 or (wide and kw["kaldi_shift"] and kw["frame_style"] == "centered"):
            continue
        ctx.count("shift:" + (">L" if wide else "<=L"))
        try:
            m = pst.PyTorchSTFTFrameComputer.from_stft_frame_computer(c)
        except ValueError:
            continue  # a filter without bins: not constructible
        ms = torch.jit.script(m) if rng.random() < 0.3 else None
        for N in [0, Lv // 2, Lv // 2 + 1, Lv - 1, Lv, Lv + 1, rng.randint(0, 3 * Lv + 5)] + ([(Sv + 1) // 2 - 1, (Sv + 1) // 2, Sv + Lv] if wide else []):
            for dt, tol in ((np.float64, 2e-5), (np.float32, 2e-3)):  # module buffers (window, filters) are float32
                # loud, quiet (mean square below LOG_FLOOR_VALUE) and silent signals: both sides of the log floor
                level = rng.choice(["loud", "loud", "quiet", "silence", "loud-then-quiet"])
                x = nprng.randn(N) * {"loud": 1.0, "quiet": 1e-3, "silence": 0.0, "loud-then-quiet": 1e-2}[level]
                if level == "loud-then-quiet":
                    x[: (2 * N) // 3] *= 1e6  # 16-bit-scale lead, quiet tail: the tail's energy is still that of its own samples
                x = x.astype(dt)
                ref = c.compute_full(x)
                desc = dict(bank=name, rate=rate, L=Lv, S=Sv, D=c._dft_size, N=N, level=level, dtype=str(np.dtype(dt)), **{k: str(v) for k, v in kw.items()})
                ctx.count("level:" + level)
                ctx.case(desc, nontrivial=ref.shape[0] > 0)
                ctx.count("module:" + name)
                ctx.count("len:" + ("<L/2+1" if N < Lv // 2 + 1 else "<L" if N < Lv else ">=L"))
                # the signal may be any 1-D tensor: a view into a longer or multi-channel recording holds the same samples
                layout = rng.choice(LAYOUTS)
                desc["layout"] = layout
                ctx.count("layout:" + layout)
                try:
                    tin, xin, xin0 = laid_out(torch, x, layout)
                    got = m(tin).detach().numpy()
                except Exception as e:  # noqa
                    bad.append(dict(desc, what="exception %s: %s" % (type(e).__name__, str(e)[:200])))
                    continue
                if not np.array_equal(xin, xin0):
                    bad.append(dict(desc, what="the module modified the signal tensor it was given"))
                    continue
                if got.shape != ref.shape:
                    bad.append(dict(desc, what="shape", torch=list(got.shape), numpy=list(ref.shape)))
                    continue
                if got.size:
                    if kw["use_log"]:
                        err = float(np.max(np.abs(got - ref)))
                    else:
                        err = float(np.max(np.abs(got - ref) / (np.abs(ref) + 1e-12)))
                    if not err <= tol:
                        bad.append(dict(desc, what="value", err=err, tol=tol))
                if ms is not None:
                    g2 = ms(laid_out(torch, x, layout)[0]).detach().numpy()
                    if g2.shape != got.shape or (got.size and not np.allclose(g2, got, rtol=1e-6, atol=1e-8)):
                        bad.append(dict(desc, what="TorchScript differs from eager"))
    # pre-emphasis, wrappers, SI wrapper
    for rep in range(ctx.scale(20, 150)):
        coeff = rng.choice([0.97, 0.5, 0.0, -0.3])
        N = rng.choice([0, 1, 2, 17, 400])
        x = nprng.randn(N)
        a = pre.Preemphasize(coeff).apply(x)
        layout = rng.choice(LAYOUTS)
        b = pst.PyTorchPreemphasize.from_preemphasize(pre.Preemphasize(coeff))(laid_out(torch, x, layout)[0]).numpy()
        ctx.count("preemph")
        if a.shape != b.shape or not np.allclose(a, b, rtol=1e-12, atol=1e-12):
            bad.append(dict(what="PyTorchPreemphasize differs", coeff=coeff, N=N, layout=layout))
        feats = nprng.randn(rng.randint(3, 12), 6)
        glob = post.Standardize()
        glob.accumulate(nprng.randn(20, 6) * 3.0 + 1.5)
        for pp in (post.Deltas(2), post.Stack(2), post.Standardize(), glob):
            for fdt in (np.float64, np.float32):
                w = pst.PyTorchPostProcessorWrapper.from_postprocessor(pp)
                pristine = feats.astype(fdt)
                ra = pp.apply(pristine.copy())
                # the tensor handed to the module shares memory with `given`: the module must leave it alone,
                # and a second call (and the NumPy object evaluated afterwards) must give the same answer
                # (every other case hands over a transposed view: the same matrix in column-major memory)
                transposed = rng.random() < 0.5
                given = np.ascontiguousarray(pristine.T) if transposed else pristine.copy()
                t = torch.from_numpy(given).T if transposed else torch.from_numpy(given)
                given = given.T if transposed else given
                rb = w(t).numpy()
                rb2 = w(t).numpy()
                ra2 = pp.apply(given.copy())
                ctx.count("postwrap")
                pname = type(pp).__name__ + (" (global statistics)" if pp is glob else "")
                if ra.shape != rb.shape or not np.allclose(ra, rb, rtol=1e-5, atol=1e-6):
                    bad.append(dict(what="PyTorchPostProcessorWrapper differs", post=pname, dtype=str(np.dtype(fdt)), transposed_view=transposed))
                elif not np.array_equal(given, pristine):
                    bad.append(dict(what="PyTorchPostProcessorWrapper modifies the tensor it is given", post=pname, dtype=str(np.dtype(fdt)),
                                    input=pristine.tolist(), input_after_call=given.tolist()))
                elif rb2.shape != rb.shape or not np.allclose(rb2, rb, rtol=1e-6, atol=1e-7) or not np.allclose(ra2, ra, rtol=1e-6, atol=1e-7):
                    bad.append(dict(what="PyTorchPostProcessorWrapper: a second call on the same tensor gives another result", post=pname,
                                    dtype=str(np.dtype(fdt))))
    for rep in range(ctx.scale(6, 30)):
        bank = filters.GaborFilterBank("mel", num_filts=4, sampling_rate=8000)
        si = compute.SIFrameComputer(bank, frame_shift_ms=rng.choice([2.5, 5.0]), include_energy=rng.random() < 0.5)
        w = pst.PyTorchSIFrameComputer.from_si_frame_computer(si)
        for dt in (np.float64, np.float32):
            x = (nprng.randn(rng.choice([0, 10, 300, 1000])) * rng.choice([1.0, 100.0]) + rng.choice([0.0, 0.0, 1e4])).astype(dt)
            ra = si.compute_full(x)
            layout = rng.choice(LAYOUTS)
            rb = w(laid_out(torch, x, layout)[0]).numpy()
            ctx.count("siwrap")
            # the wrapper hands the signal to the NumPy computer: in the signal's own precision the two agree to the last
            # few bits (a detour through a narrower type would show as ~1e-7 on float64 input)
            tol = 1e-12 if dt == np.float64 else 1e-6
            if ra.shape != rb.shape or rb.dtype != ra.dtype or not np.allclose(ra, rb, rtol=tol, atol=tol):
                bad.append(dict(what="PyTorchSIFrameComputer differs from SIFrameComputer.compute_full", N=len(x), dtype=str(np.dtype(dt)), layout=layout,
                                max_abs_diff=(float(np.max(np.abs(ra - rb))) if ra.shape == rb.shape and ra.size else None),
                                result_dtype=str(rb.dtype), expected_dtype=str(ra.dtype)))
    # pre-emphasis module in every compiled form, on a signal whose dtype differs from the one it was traced with:
    # the result keeps the SIGNAL's dtype and equals Preemphasize.apply in that precision
    for coeff in (0.97, 0.5):
        pe = pre.Preemphasize(coeff)
        forms = [("eager", pst.PyTorchPreemphasize.from_preemphasize(pe)),
                 ("scripted", torch.jit.script(pst.PyTorchPreemphasize.from_preemphasize(pe)))]
        for exdt in (torch.float32, torch.float64):
            try:
                forms.append(("traced with a %s example" % str(exdt).replace("torch.", ""),
                              torch.jit.trace(pst.PyTorchPreemphasize.from_preemphasize(pe), torch.zeros(5, dtype=exdt))))
            except Exception:  # noqa: BLE001 - tracing not supported: nothing to compare
                pass
        for dt in (np.float64, np.float32):
            x = (nprng.randn(50) * 100.0).astype(dt)
            ref = pe.apply(x)
            for form, mod in forms:
                got = mod(torch.from_numpy(x.copy())).detach().numpy()
                ctx.count("preemph-forms")
                tol = 1e-12 if dt == np.float64 else 1e-5
                if got.dtype != ref.dtype or got.shape != ref.shape or not np.allclose(got, ref, rtol=tol, atol=tol * 100):
                    bad.append(dict(what="PyTorchPreemphasize (%s) differs from Preemphasize.apply on a %s signal" % (form, np.dtype(dt).name),
                                    coeff=coeff, result_dtype=str(got.dtype), expected_dtype=str(ref.dtype),
                                    max_abs_diff=(float(np.max(np.abs(got.astype(np.float64) - ref))) if got.shape == ref.shape else None)))
    # dither: reproducible under manual_seed, zero mean, requested std
    # in every module state a front end is used in: fresh (training mode), after .eval(), as a child of a
    # container put in evaluation mode, back in training mode, TorchScript-compiled (both modes)
    def states(mk, scriptable=True):
        yield "fresh", mk()
        m = mk()
        m.eval()
        yield "eval", m
        seq = torch.nn.Sequential(mk())
        seq.eval()
        yield "child of eval() container", seq
        m = mk()
        m.eval()
        m.train()
        yield "eval().train()", m
        if not scriptable:
            return
        yield "scripted", torch.jit.script(mk())
        m = torch.jit.script(mk())
        m.eval()
        yield "scripted eval", m

    for coeff in (1.0, 0.25, 3.0):
        for state, d in states(lambda: pst.PyTorchDither(coeff)):
            x = torch.zeros(200000, dtype=torch.float64)
            torch.manual_seed(1234)
            a = d(x)
            torch.manual_seed(1234)
            b = d(x)
            ctx.count("dither:" + state)
            ctx.case(dict(kind="dither", coeff=coeff, module_state=state), nontrivial=True)
            if not torch.equal(a, b):
                bad.append(dict(what="PyTorchDither not reproducible under torch.manual_seed", coeff=coeff, module_state=state))
            if abs(float(a.mean())) > 0.02 * coeff or abs(float(a.std()) - coeff) > 0.02 * coeff:
                bad.append(dict(what="PyTorchDither does not add zero-mean noise of the requested standard deviation",
                                coeff=coeff, module_state=state, mean=float(a.mean()), std=float(a.std())))
            torch.manual_seed(77)
            c2 = d(x)
            if torch.equal(a, c2):
                bad.append(dict(what="PyTorchDither ignores torch.manual_seed (same noise under another seed)", coeff=coeff, module_state=state))
    # the deterministic modules must not depend on the module state either
    x = torch.from_numpy(nprng.randn(300))
    feats = torch.from_numpy(nprng.randn(9, 6))
    bank = filters.Fbank(num_filts=6, sampling_rate=8000)
    cst = compute.STFTFrameComputer(bank, frame_length_ms=10.0, frame_shift_ms=5.0, include_energy=True)
    makers = [
        ("PyTorchPreemphasize", lambda: pst.PyTorchPreemphasize.from_preemphasize(pre.Preemphasize(0.97)), x, pre.Preemphasize(0.97).apply(x.numpy())),
        ("PyTorchPostProcessorWrapper(Deltas)", lambda: pst.PyTorchPostProcessorWrapper.from_postprocessor(post.Deltas(2)), feats, post.Deltas(2).apply(feats.numpy())),
        ("PyTorchSTFTFrameComputer", lambda: pst.PyTorchSTFTFrameComputer.from_stft_frame_computer(cst), x, cst.compute_full(x.numpy())),
    ]
    for nm, mkm, inp, ref in makers:
        for state, m in states(mkm, scriptable=not nm.startswith("PyTorchPostProcessorWrapper")):  # that one wraps a numpy object
            try:
                got = m(inp).detach().numpy()
            except Exception as e:  # noqa
                bad.append(dict(what="%s raises %s in module state %s" % (nm, type(e).__name__, state)))
                continue
            ctx.count("state:" + state)
            if got.shape != ref.shape or not np.allclose(got, ref, rtol=2e-4, atol=2e-5):
                bad.append(dict(what="%s differs from its NumPy counterpart in module state '%s'" % (nm, state)))
    return bad


def run(ctx):
    C.ensure_impl_path()
    stft.regenerate(ctx)
    stft.regenerate_scalar(ctx)
    pr = C.proof_step(ctx)
    rng = ctx.rng
    # (i) framing of the torch port, captured at the FFT input
    tcases = []
    for it in range(ctx.scale(600, 4800)):
        if it % 6 == 5:
            # frame_shift > frame_length (causal / plain centered): lengths around the point where the
            # frame count (N + S//2)//S rounds to zero although N >= L//2+1
            Lw = rng.randint(1, 12)
            Sw = rng.randint(Lw + 1, 3 * Lw + 3)
            cfg = (Lw, Sw, rng.random() < 0.5, False)
            N = rng.choice(stft.interesting_lengths(cfg) + [(Sw + 1) // 2 - 1, (Sw + 1) // 2, Lw // 2 + 1, Sw + Lw, rng.randint(0, 4 * Sw)])
            ctx.count("tframes:shift>L")
        else:
            cfg = stft.rand_cfg(rng, maxL=24)
            N = rng.choice(stft.interesting_lengths(cfg) + [rng.randint(0, 5 * cfg[0])] * 3)
        try:
            frames, shape = capture_torch_frames(cfg, N)
        except Exception as e:  # noqa
            ctx.fail("pytorch_stft_frame_computer raised %s" % type(e).__name__,
                     dict(L=cfg[0], S=cfg[1], centered=cfg[2], kaldi_shift=cfg[3], N=N, error=str(e)[:300]), kind="impl")
            continue
        Lv, Sv = cfg[0], cfg[1]
        exp_n = 0 if N < Lv // 2 + 1 else (N + Sv // 2) // Sv
        ctx.case(dict(kind="torch_frames", L=Lv, S=Sv, centered=cfg[2], kaldi_shift=cfg[3], N=N, frames=len(frames)), nontrivial=exp_n > 0)
        ctx.count("tframes:%s" % ("<L/2+1" if N < Lv // 2 + 1 else "<L" if N < Lv else ">=L"))
        # the property on the implementation: same frames as the numpy computer
        outs, _, _ = stft.run_history(cfg, [("full", list(range(N)))])
        if frames != outs[0] or shape[0] != exp_n:
            ctx.fail("torch port frames the signal differently from compute_full",
                     dict(L=Lv, S=Sv, centered=cfg[2], kaldi_shift=cfg[3], N=N, torch_frames=frames[:5], numpy_frames=outs[0][:5], out_shape=shape), kind="impl")
        tcases.append((cfg, N, frames))
    ok, out = C.coq_make(["Stft/Exec.v"])
    if not ok:
        ctx.fail("model coq/Stft no longer compiles", dict(correspondence="coq/Stft/Exec.v", log_tail=out[-1500:]), kind="tie", no_input=True)
    else:
        files, shard = [], 200
        for i in range(0, len(tcases), shard):
            body = "Definition cases : list torch_case := [\n%s\n].\nEval vm_compute in (torch_bad 0 cases).\n" % ";\n".join(
                "(mkcfg %d %d %s %s, %d, %s)" % (cf[0], cf[1], "true" if cf[2] else "false", "true" if cf[3] else "false", n, C.zlist(fr))
                for (cf, n, fr) in tcases[i:i + shard])
            files.append(("tfr_%d" % (i // shard), body))
        res = C.coq_eval_many(ctx, files, stft.REQ)
        tb = []
        for n, (ans, log) in enumerate(res):
            if ans is None or len(ans) != 1:
                ctx.fail("torch framing model evaluation failed", dict(correspondence=files[n][0], log_tail=(log or "")[-1200:]), kind="tie", no_input=True)
                break
            tb += [n * shard + int(j) for j in C.parse_coq(ans[0])]
        else:
            ctx.cov["traces_validated_against_impl"] += len(tcases)
        if tb:
            k = tb[0]
            ctx.fail("torch framing model and implementation disagree on %d signals" % len(tb),
                     dict(correspondence="coq/Stft/Torch.v torch_frames vs pytorch_stft_frame_computer", cfg=tcases[k][0], N=tcases[k][1],
                          implementation_frames=tcases[k][2][:6]), kind="correspondence", no_input=not any(f["kind"] == "impl" for f in ctx.failures))
    # (ii) walk probes of the torch port
    wc = []
    for D in range(1, ctx.scale(13, 30)):
        for start in range(D):
            for ln in sorted(set([1, D // 2 + 1, D, rng.randint(1, D + 1)])):
                obs = c02.probe_torch(D, start, ln)
                ctx.count("twalk")
                exph = [b if b <= D // 2 else D - b for b in [((start + j) % D) for j in range(ln)]]
                ctx.case(dict(kind="torch_walk", D=D, start=start, len=ln), nontrivial=start + ln > D // 2 + 1)
                if obs != exph:
                    ctx.fail("torch port: filter tap meets the wrong DFT bin", dict(dft_size=D, start_bin=start, trunc_len=ln, met=obs, expected=exph), kind="impl")
                if obs is not None:
                    wc.append((D, start, ln, obs))
    files = [("twalk", "Definition cases : list walk_case := [\n%s\n].\nEval vm_compute in (walk_bad 0 cases).\n" % ";\n".join(
        "(%d, %d, %d, %s)" % (d, s, l, C.zlist(o)) for (d, s, l, o) in wc))]
    res = C.coq_eval_many(ctx, files, stft.REQ)
    if res[0][0] is None:
        ctx.fail("walk model evaluation failed", dict(correspondence="twalk", log_tail=(res[0][1] or "")[-1200:]), kind="tie", no_input=True)
    else:
        wb = C.parse_coq(res[0][0][0])
        if wb:
            ctx.fail("walk model and torch port disagree on %d probes" % len(wb), dict(correspondence="coq/Stft/Walk.v vs torch walk", case=wc[wb[0]]),
                     kind="correspondence", no_input=not any(f["kind"] == "impl" for f in ctx.failures))
        else:
            ctx.cov["traces_validated_against_impl"] += len(wc)
    # (iii) numeric module-level comparison
    for b in numeric(ctx)[:6]:
        ctx.fail("PyTorch module differs from its NumPy counterpart: %s" % b.get("what"), b, kind="impl")
    ctx.cov["rule"] = (
        "torch framing: random (L,S,style) x lengths biased to {0, L/2, L/2+1, L-1, L, ..}, frames captured at torch.fft.rfft and compared "
        "with torch_frames in Coq and with the numpy computer's frames; torch walk probes (all D<=12/29, all starts); module vs compute_full on "
        "5 bank kinds x rates x lengths x shifts x styles x flags x float32/64 x 7 lengths (tolerances 2e-5 / 2e-3: the module keeps window and filters in float32), TorchScript vs eager, "
        "pre-emphasis, post-processor and SI wrappers, dither reproducibility and moments."
    )
    ctx.cov["trusted_base"] += [
        "coq/Stft/Torch.v is a hand-written transcription of the padding/framing of pytorch_stft_frame_computer, tied by exact frame capture",
        "RNG distribution (PyTorchDither) and TorchScript == eager are run-time facts: differential only",
        "float32/complex64 round-off: tolerance 2e-3 relative (2e-5 for float64 input: the module stores window and filters in float32)",
    ]
    ctx.assumptions += ["0 < frame_shift; frame_shift > frame_length only without kaldi_shift (np.pad rejects the negative left pad)"]
    return C.finish(ctx, "proof")
