"""C15 - Deltas and Stack produce the documented layout and values.

Proof: coq/C15 (model of post.py:441-563; theorems in Props.v).
Tie: (1) gen/post_c15.py re-translates the integer expressions of Deltas/Stack
(filter offsets, crop bounds, padding widths, frame counts, guards) into
coq/gen/PostC15.v and Props.v re-proves that the model uses the same ones;
(2) correspondence: the model is evaluated inside Coq (vm_compute) on generated
integer tensors and compared exactly with what the implementation returns
(values, shape, dtype, exception kind).
Search: a direct executable statement of the property on the implementation
(index-formula oracle, 2-D path vs N-D path of Stack, input not modified, no
aliasing of the result with the input unless in_place).
"""

import os
import sys

from . import common as C

sys.path.insert(0, os.path.join(C.ROOT, "gen"))

PID = "C15"
REQ = (
    "From Coq Require Import ZArith List Bool.\n"
    "From Verif Require Import C15.Model C15.Exec.\n"
    "Import ListNotations.\nOpen Scope Z_scope.\n"
)

DT_FLOAT = ["float64", "float32", "float16"]
DT_INT = ["int64", "int32", "int16", "int8"]
DT_COQ = dict(float64="F64", float32="F32", float16="F16", int64="I64", int32="I32", int16="I16", int8="I8")
PAD_MODES = ["edge", "constant", "reflect", "symmetric", "wrap"]


def pad_coq(mode, cval=0):
    if mode == "constant":
        return "(Constant %s)" % C.zlist(int(cval))
    return dict(edge="Edge", reflect="Reflect", symmetric="Symmetric", wrap="Wrap")[mode]


def delta_den(W):
    return sum(j * j for j in range(-W, W + 1))


# --------------------------------------------------------------------------
# case generation


def gen_shape(r, nd, lo=0, hi=5):
    shape = []
    for _ in range(nd):
        u = r.random()
        shape.append(0 if (u < 0.06 and lo == 0) else 1 if u < 0.2 else r.randint(max(lo, 2), hi))
    return shape


def prod(xs):
    p = 1
    for x in xs:
        p *= x
    return p


def gen_deltas_case(ctx, small=False):
    r = ctx.rng
    nd = r.choice([1, 2, 2, 3, 3, 4] if not small else [1, 2, 3])
    shape = gen_shape(r, nd, hi=4 if nd >= 3 else 6)
    while prod(shape) > 150:
        shape[r.randrange(nd)] = 1
    u = r.random()
    axis = r.randrange(-nd, nd) if u < 0.9 else r.choice([nd, nd + 1, -nd - 1, 2 * nd, -2 * nd - 1])
    concat = r.random() < 0.55
    lim = nd if concat else nd + 1
    u = r.random()
    target = r.randrange(-lim, lim) if u < 0.93 else r.choice([lim, -lim - 1, lim + 2])
    D = r.choice([0, 1, 1, 2, 2, 3])
    W = r.choice([1, 2, 2, 3]) if D < 3 else r.choice([1, 2])
    mode = r.choice(PAD_MODES)
    cval = r.randint(-3, 3) if (mode == "constant" and r.random() < 0.5) else 0
    u = r.random()
    dt = "float64" if u < 0.45 else r.choice(DT_FLOAT[1:]) if u < 0.65 else r.choice(DT_INT)
    amp = 40 if dt not in ("int8", "float16") else 6
    u = r.random()
    n = prod(shape)
    if u < 0.08:
        data = [r.randint(-amp, amp)] * n  # constant signal
    elif u < 0.16 and dt not in ("int8", "float16"):
        a, b = r.randint(-5, 5), r.randint(-3, 3)
        data = [a + b * k for k in range(n)]  # ramp in storage order
    else:
        data = [r.randint(-amp, amp) for _ in range(n)]
    if dt in DT_INT and r.random() < 0.5:
        # make exact results integers now and then (truncation edge)
        q = delta_den(W)
        data = [q * (v % 3 - 1) for v in data] if dt != "int8" or q <= 10 else data
    return dict(kind="deltas", shape=shape, data=data, dtype=dt, axis=axis, target_axis=target,
                concatenate=concat, num_deltas=D, context_window=W, pad_mode=mode, cval=cval,
                in_place=r.random() < 0.3)


def gen_stack_case(ctx, small=False):
    r = ctx.rng
    nd = r.choice([2, 2, 2, 3, 3, 4, 1] if not small else [2, 2, 3])
    shape = gen_shape(r, nd, hi=4 if nd >= 3 else 9)
    while prod(shape) > 200:
        shape[r.randrange(nd)] = 1
    u = r.random()
    axis = r.randrange(-nd, nd) if u < 0.9 else r.choice([nd, nd + 1, -nd - 1, 2 * nd + 1])
    u = r.random()
    if u < 0.85 and nd >= 2:
        ax = axis % nd
        ta = r.choice([a for a in range(nd) if a != ax])
        time_axis = ta if r.random() < 0.6 else ta - nd
        if r.random() < 0.08:
            time_axis += nd * r.choice([1, -2])
    else:
        time_axis = r.randrange(-nd - 1, nd + 1)
    nv = r.choice([1, 2, 2, 3, 3, 4, 5, 7])
    mode = None if r.random() < 0.4 else r.choice(PAD_MODES)
    cval = r.randint(-3, 3) if (mode == "constant" and r.random() < 0.5) else 0
    dt = r.choice(["float64", "float32", "int64", "int32", "int16", "int8", "float16"])
    n = prod(shape)
    data = [r.randint(-60, 60) for _ in range(n)]
    return dict(kind="stack", shape=shape, data=data, dtype=dt, axis=axis, time_axis=time_axis,
                num_vectors=nv, pad_mode=mode, cval=cval, in_place=r.random() < 0.4)


def boundary_cases():
    """Hand-picked boundary cases, run first."""
    out = []
    for mode in PAD_MODES:
        # signal shorter than the padding: multiple reflections / wraps
        out.append(dict(kind="deltas", shape=[2], data=[3, -5], dtype="float64", axis=0, target_axis=0,
                        concatenate=True, num_deltas=2, context_window=3, pad_mode=mode, cval=0, in_place=False))
        out.append(dict(kind="deltas", shape=[1, 3], data=[7, 1, -2], dtype="float64", axis=0, target_axis=-1,
                        concatenate=False, num_deltas=2, context_window=2, pad_mode=mode, cval=2, in_place=False))
        # empty filtered axis (error unless constant / no lane), empty other axis
        out.append(dict(kind="deltas", shape=[0, 3], data=[], dtype="float64", axis=0, target_axis=1,
                        concatenate=True, num_deltas=1, context_window=2, pad_mode=mode, cval=0, in_place=False))
        out.append(dict(kind="deltas", shape=[0, 3], data=[], dtype="float32", axis=1, target_axis=0,
                        concatenate=False, num_deltas=2, context_window=1, pad_mode=mode, cval=0, in_place=False))
        out.append(dict(kind="deltas", shape=[0, 0], data=[], dtype="int32", axis=1, target_axis=0,
                        concatenate=True, num_deltas=1, context_window=1, pad_mode=mode, cval=0, in_place=False))
        # Stack: fewer frames than num_vectors, padding longer than the signal
        out.append(dict(kind="stack", shape=[2, 3], data=[1, 2, 3, 4, 5, 6], dtype="int64", axis=-1, time_axis=0,
                        num_vectors=5, pad_mode=mode, cval=1, in_place=False))
        out.append(dict(kind="stack", shape=[3, 1, 2], data=[1, 2, 3, 4, 5, 6], dtype="float64", axis=0, time_axis=2,
                        num_vectors=7, pad_mode=mode, cval=0, in_place=False))
        out.append(dict(kind="stack", shape=[0, 3], data=[], dtype="float64", axis=1, time_axis=0,
                        num_vectors=2, pad_mode=mode, cval=0, in_place=False))
    for nv in (1, 2, 3, 4):
        out.append(dict(kind="stack", shape=[3, 2], data=[1, 2, 3, 4, 5, 6], dtype="float64", axis=1, time_axis=0,
                        num_vectors=nv, pad_mode=None, cval=0, in_place=False))
        out.append(dict(kind="stack", shape=[2, 3], data=[1, 2, 3, 4, 5, 6], dtype="float64", axis=0, time_axis=1,
                        num_vectors=nv, pad_mode=None, cval=0, in_place=True))
        out.append(dict(kind="stack", shape=[3, 2, 1], data=[1, 2, 3, 4, 5, 6], dtype="int16", axis=1, time_axis=0,
                        num_vectors=nv, pad_mode=None, cval=0, in_place=False))
    out.append(dict(kind="stack", shape=[3], data=[1, 2, 3], dtype="float64", axis=0, time_axis=0,
                    num_vectors=2, pad_mode=None, cval=0, in_place=False))
    out.append(dict(kind="stack", shape=[3, 2], data=[1, 2, 3, 4, 5, 6], dtype="float64", axis=1, time_axis=-1,
                    num_vectors=2, pad_mode=None, cval=0, in_place=False))
    out.append(dict(kind="deltas", shape=[4, 2], data=[1, 2, 3, 4, 5, 6, 7, 8], dtype="float64", axis=0, target_axis=2,
                    concatenate=True, num_deltas=1, context_window=2, pad_mode="edge", cval=0, in_place=False))
    out.append(dict(kind="deltas", shape=[4, 2], data=[1, 2, 3, 4, 5, 6, 7, 8], dtype="float64", axis=0, target_axis=-4,
                    concatenate=False, num_deltas=1, context_window=2, pad_mode="edge", cval=0, in_place=False))
    return out


# --------------------------------------------------------------------------
# running the implementation


def np_array(np, case):
    return np.array(case["data"], dtype=np.dtype(case["dtype"])).reshape(case["shape"])


def make_obj(post, case):
    kw = {}
    if case["pad_mode"] == "constant" and case["cval"] != 0:
        kw["constant_values"] = case["cval"]
    if case["kind"] == "deltas":
        return post.Deltas(case["num_deltas"], target_axis=case["target_axis"], concatenate=case["concatenate"],
                           context_window=case["context_window"], pad_mode=case["pad_mode"], **kw)
    return post.Stack(case["num_vectors"], time_axis=case["time_axis"], pad_mode=case["pad_mode"], **kw)


def err_kind(np, e):
    axis_error = getattr(np, "exceptions", np).AxisError
    if isinstance(e, axis_error):
        return "EAxis"
    if isinstance(e, ZeroDivisionError):
        return "EZeroDiv"
    if isinstance(e, RuntimeError):
        return "ERuntime"
    if isinstance(e, ValueError):
        return "EValue"
    return "other:" + type(e).__name__


def run_impl(np, post, case):
    """-> dict(ok=True, dtype, shape, values(list of float/int), unchanged, aliased) | dict(ok=False, err)"""
    x = np_array(np, case)
    keep = x.copy()
    try:
        obj = make_obj(post, case)
        out = obj.apply(x, axis=case["axis"], in_place=case["in_place"])
    except Exception as e:  # noqa: BLE001 - the kind of exception is the observation
        return dict(ok=False, err=err_kind(np, e), unchanged=bool(np.array_equal(x, keep)))
    return dict(
        ok=True,
        dtype=str(out.dtype),
        shape=[int(s) for s in out.shape],
        values=out.reshape(-1).tolist() if out.size else [],
        unchanged=bool(np.array_equal(x, keep)) and x.shape == keep.shape,
        aliased=bool(np.shares_memory(out, x)),
    )


def scaled_observation(case, res):
    """Turn the implementation's values into the integers the Coq comparison
    expects.  Returns (L, tol, ints) or a string describing why the observed
    values cannot be the model's (non-integral after scaling)."""
    if case["kind"] == "stack":
        vals = res["values"]
        ints = [int(round(v)) for v in vals]
        if any(abs(v - i) > 1e-6 for v, i in zip(vals, ints)):
            return "stacked values are not the input integers"
        return 1, 0, ints
    L = delta_den(case["context_window"]) ** case["num_deltas"]
    vals = res["values"]
    dt = res["dtype"]
    if dt in DT_INT:
        return L, 0, [int(v) * L for v in vals]
    mx = max([abs(v) for v in vals] + [1.0])
    if dt == "float64":
        ints = [int(round(v * L)) for v in vals]
        if any(abs(v * L - i) > 1e-6 * max(1.0, abs(v)) for v, i in zip(vals, ints)):
            return "float64 values times %d are not integers" % L
        return L, 0, ints
    eps = 2.0 ** -22 if dt == "float32" else 2.0 ** -9
    tol = int(L * mx * eps) + 1
    return L, tol, [int(round(v * L)) for v in vals]


def coq_case(case, res):
    """One record of coq/C15/Exec.v, or (None, why)."""
    dt = DT_COQ[case["dtype"]]
    if res["ok"]:
        if res["dtype"] not in DT_COQ:
            return None, "result dtype %s" % res["dtype"]
        so = scaled_observation(case, res)
        if isinstance(so, str):
            return None, so
        L, tol, ints = so
        obs = "(OOk %s %s %s)" % (DT_COQ[res["dtype"]], C.zlist(res["shape"]), C.zlist(ints))
    else:
        if res["err"].startswith("other:"):
            return None, "unexpected exception %s" % res["err"]
        L, tol = 1, 0
        obs = "(OErr %s)" % res["err"]
    if case["kind"] == "deltas":
        cfg = "(mkDeltas %d %s %s %s %s)" % (
            case["num_deltas"], C.zlist(case["target_axis"]), "true" if case["concatenate"] else "false",
            C.zlist(case["context_window"]), pad_coq(case["pad_mode"], case["cval"]))
        return "(mkD %s %s %s %s %s %d %d %s)" % (
            cfg, dt, C.zlist(case["shape"]), C.zlist(case["data"]), C.zlist(case["axis"]), L, tol, obs), None
    pm = "None" if case["pad_mode"] is None else "(Some %s)" % pad_coq(case["pad_mode"], case["cval"])
    cfg = "(mkStack %s %s %s)" % (C.zlist(case["num_vectors"]), C.zlist(case["time_axis"]), pm)
    return "(mkS %s %s %s %s %s %s)" % (
        cfg, dt, C.zlist(case["shape"]), C.zlist(case["data"]), C.zlist(case["axis"]), obs), None


# --------------------------------------------------------------------------
# direct oracle on the implementation (index formulas written independently of
# the Coq model, in exact rational arithmetic)


def ext_index(mode, n, i):
    if 0 <= i < n:
        return i
    if mode == "edge":
        return min(max(i, 0), n - 1)
    if mode == "constant":
        return None
    if mode == "symmetric":
        r = i % (2 * n)
        return r if r < n else 2 * n - 1 - r
    if mode == "reflect":
        if n == 1:
            return 0
        p = 2 * (n - 1)
        r = i % p
        return r if r < n else p - r
    if mode == "wrap":
        return i % n
    raise ValueError(mode)


def int_filters(W, D):
    base = list(range(-W, W + 1))
    fs = [[1]]
    for _ in range(D):
        prev = fs[-1]
        cur = [0] * (len(prev) + 2 * W)
        for a, pa in enumerate(prev):
            for b, pb in enumerate(base):
                cur[a + b] += pa * pb
        fs.append(cur)
    return fs


def oracle_deltas(np, case, res):
    """Expected result from the documented meaning; returns None or a message."""
    from fractions import Fraction

    x = np_array(np, case)
    nd = x.ndim
    D, W, mode = case["num_deltas"], case["context_window"], case["pad_mode"]
    ax = case["axis"] % nd
    n = x.shape[ax]
    lanes_exist = x.size > 0 or (n == 0 and prod([s for k, s in enumerate(x.shape) if k != ax]) > 0)
    ta = case["target_axis"]
    lim = nd if case["concatenate"] else nd + 1
    want_err = None
    if D >= 1 and n == 0 and lanes_exist and mode != "constant":
        want_err = "EValue"
    elif not (-lim <= ta < lim):
        want_err = "EAxis"
    if want_err is not None:
        if res["ok"] or res["err"] != want_err:
            return "expected %s, got %r" % (want_err, res if not res["ok"] else "a result")
        return None
    if not res["ok"]:
        return "unexpected error %s" % res["err"]
    ta %= lim
    fs = int_filters(W, D)
    den = delta_den(W)
    xi = x.astype(object)
    blocks = [xi]
    is_int = case["dtype"] in DT_INT
    for d in range(1, D + 1):
        f, mo, dd = fs[d], d * W, den ** d
        blk = np.empty(x.shape, dtype=object)
        for idx in np.ndindex(*x.shape):
            num = 0
            for k, fk in enumerate(f):
                j = ext_index(mode, n, idx[ax] + k - mo)
                v = case["cval"] if j is None else int(xi[idx[:ax] + (j,) + idx[ax + 1:]])
                num += fk * v
            blk[idx] = Fraction(num, dd)
        blocks.append(blk)
    want = np.concatenate(blocks, ta) if case["concatenate"] else np.stack(blocks, ta)
    if list(want.shape) != res["shape"]:
        return "shape %r, documented %r" % (res["shape"], list(want.shape))
    if res["dtype"] != case["dtype"]:
        return "dtype %s for %s input" % (res["dtype"], case["dtype"])
    got = res["values"]
    tol = dict(float64=1e-9, float32=1e-5, float16=4e-3).get(case["dtype"], 0)
    for k, (w, g) in enumerate(zip(want.reshape(-1).tolist(), got)):
        w = Fraction(w)
        if is_int:
            t = int(w) if w >= 0 else -int(-w)
            okv = g == t or (w.denominator == 1 and abs(g - t) <= 1)
        else:
            okv = abs(float(w) - g) <= tol * max(1.0, abs(float(w)))
        if not okv:
            return "flat element %d is %r, documented %s" % (k, g, w)
    return None


def oracle_stack(np, case, res):
    x = np_array(np, case)
    nd = x.ndim
    nv, mode = case["num_vectors"], case["pad_mode"]
    if nd == 0:
        return None
    ax, ta = case["axis"] % nd, case["time_axis"] % nd
    if ax == ta:
        if res["ok"] or res["err"] != "ERuntime":
            return "expected RuntimeError for equal axes"
        return None
    if not res["ok"]:
        return "unexpected error %s" % res["err"]
    T, F = x.shape[ta], x.shape[ax]
    nT = (T + nv - 1) // nv if mode is not None else T // nv
    shape = list(x.shape)
    shape[ta], shape[ax] = nT, F * nv
    if shape != res["shape"]:
        return "shape %r, documented %r" % (res["shape"], shape)
    if res["dtype"] != case["dtype"]:
        return "dtype %s for %s input" % (res["dtype"], case["dtype"])
    got = np.array(res["values"], dtype=object).reshape(shape) if prod(shape) else None
    if got is None:
        return None
    for idx in np.ndindex(*shape):
        t, c = idx[ta], idx[ax]
        i, f = divmod(c, F)
        src = list(idx)
        src[ax] = f
        j = ext_index(mode, T, t * nv + i) if mode is not None else t * nv + i
        if j is None:
            w = case["cval"]
        else:
            src[ta] = j
            w = x[tuple(src)]
        if got[idx] != w:
            return "element %r is %r, documented x%r = %r" % (list(idx), got[idx], src, w)
    return None


def oracle_paths(np, post, case):
    """Stack: the 2-D fast path against the N-D path on the same data (a 2-D
    input seen as 3-D with a trailing singleton axis)."""
    x = np_array(np, case)
    if x.ndim != 2:
        return None
    try:
        a = make_obj(post, case).apply(x, axis=case["axis"], in_place=False)
    except Exception:  # noqa: BLE001
        return None
    c3 = dict(case)
    ax, ta = case["axis"] % 2, case["time_axis"] % 2
    c3["time_axis"] = ta
    try:
        b = make_obj(post, c3).apply(x[:, :, None], axis=ax, in_place=False)
    except Exception as e:  # noqa: BLE001
        return "2-D path returns a result, N-D path on the same data raises %s" % type(e).__name__
    if b.ndim != 3 or b.shape[2] != 1 or not np.array_equal(a, b[:, :, 0]):
        return "2-D path and N-D path differ"
    return None


def ctor_guard(post):
    """Stack's documented constructor contract: num_vectors must be positive."""
    bad = []
    for nv in (0, -1, -7):
        try:
            post.Stack(nv)
            bad.append(dict(kind="stack_ctor", num_vectors=nv, observed="accepted"))
        except ValueError:
            pass
        except Exception as e:  # noqa: BLE001
            bad.append(dict(kind="stack_ctor", num_vectors=nv, observed=type(e).__name__))
    for nv in (1, 2):
        try:
            post.Stack(nv)
        except Exception as e:  # noqa: BLE001
            bad.append(dict(kind="stack_ctor", num_vectors=nv, observed=type(e).__name__))
    return bad


def search_one(np, post, case, res):
    """All direct statements for one case; returns list of messages."""
    bad = []
    if not res.get("unchanged", True):
        bad.append("the input array was modified")
    if res["ok"] and res["aliased"] and not case["in_place"]:
        bad.append("the result shares memory with the input although in_place=False")
    m = (oracle_deltas if case["kind"] == "deltas" else oracle_stack)(np, case, res)
    if m:
        bad.append(m)
    if case["kind"] == "stack":
        m = oracle_paths(np, post, case)
        if m:
            bad.append(m)
    return bad


# --------------------------------------------------------------------------


def regenerate(ctx):
    try:
        import post_c15
        from pyexpr import Unsupported
    except ImportError:
        return True
    try:
        post_c15.main(os.path.join(C.SRC, "post.py"), os.path.join(C.COQ, "gen", "PostC15.v"))
        return True
    except Exception as e:  # noqa: BLE001 - fail closed on anything the translator trips over
        if not C.tie_fallback(ctx, "translator gen/post_c15.py no longer recognises Deltas/Stack in post.py: %s: %s" % (type(e).__name__, e),
                 dict(correspondence="gen/post_c15.py -> coq/gen/PostC15.v", error=str(e)), kind="tie", no_input=True):
            return False
        return True


def nontrivial(case, res):
    if not res["ok"]:
        return False
    if prod(res["shape"]) == 0:
        return False
    if case["kind"] == "deltas":
        return case["num_deltas"] >= 1
    return case["num_vectors"] >= 2


def run(ctx):
    C.ensure_impl_path()
    import importlib

    import numpy as np

    post = importlib.import_module("pydrobert.speech.post")
    ok_gen = regenerate(ctx)
    pr = C.proof_step(ctx) if ok_gen else None
    ctx.cov["trusted_base"].append(
        "NumPy primitives as modelled in coq/C15/Model.v (np.pad modes, convolve/correlate 'full', slicing, "
        "concatenate, stack, .T, reshape, ndindex); float rounding not modelled (integer-coded runs)")
    ctx.cov["trusted_base"].append("translator /verif/gen/post_c15.py (Python ast -> Z terms) and the comparison code of coq/C15/Exec.v")

    # ---- cases
    cases = boundary_cases()
    nrand = ctx.scale(1400, 24000)
    for k in range(nrand):
        cases.append(gen_deltas_case(ctx) if k % 2 == 0 else gen_stack_case(ctx))
    if ctx.thorough:
        cases += exhaustive_small()
    results = [run_impl(np, post, c) for c in cases]

    # ---- correspondence: model evaluated in Coq against the observed results
    recs, idxs, failed_early = [], [], []
    for i, (c, res) in enumerate(zip(cases, results)):
        rec, why = coq_case(c, res)
        ctx.count("%s:%s" % (c["kind"], "ok" if res["ok"] else res["err"]))
        ctx.count("%s:ndim=%d" % (c["kind"], len(c["shape"])))
        ctx.count("dtype:" + c["dtype"])
        ctx.count("pad:%s" % c["pad_mode"])
        if c["kind"] == "deltas":
            ctx.count("deltas:num_deltas=%d" % c["num_deltas"])
            ctx.count("deltas:%s" % ("concatenate" if c["concatenate"] else "stack"))
        if 0 in c["shape"]:
            ctx.count("%s:empty-axis" % c["kind"])
        ctx.case(dict(case=c), nontrivial=nontrivial(c, res))
        if rec is None:
            failed_early.append((i, why))
        else:
            recs.append(rec)
            idxs.append(i)
    ctx.cov["rule"] = (
        "generated integer tensors (1-4 dims incl. singleton/empty axes, all pad modes, float and integer dtypes, "
        "negative and out-of-range axes) run through Deltas.apply / Stack.apply; result (values exactly after "
        "integer scaling, shape, dtype, exception kind) compared inside Coq with the model of coq/C15/Model.v; "
        "non-trivial = non-empty result with num_deltas >= 1 (Deltas) or num_vectors >= 2 (Stack)")
    ok, out = C.coq_make(["C15/Exec.v"])
    mism = []
    if not ok:
        ctx.fail("model no longer compiles", dict(correspondence="coq/C15/Exec.v", log_tail=out[-1500:]), kind="tie", no_input=True)
    else:
        shard = 250
        files = []
        for s in range(0, len(recs), shard):
            d = [r for r, i in zip(recs[s:s + shard], idxs[s:s + shard]) if cases[i]["kind"] == "deltas"]
            t = [r for r, i in zip(recs[s:s + shard], idxs[s:s + shard]) if cases[i]["kind"] == "stack"]
            body = "Definition dcases : list dcase := [%s].\nDefinition scases : list scase := [%s].\n" % (
                ";\n".join(d), ";\n".join(t))
            body += "Eval vm_compute in (mismatches check_deltas dcases, mismatches check_stack scases).\n"
            files.append(("cases_%d" % (s // shard), body))
        outs = C.coq_eval_many(ctx, files, REQ)
        for fi, ((name, _), (ans, log)) in enumerate(zip(files, outs)):
            s = fi * shard
            sub = idxs[s:s + shard]
            di = [i for i in sub if cases[i]["kind"] == "deltas"]
            si = [i for i in sub if cases[i]["kind"] == "stack"]
            if ans is None:
                ctx.fail("correspondence file %s did not evaluate" % name, dict(correspondence=name, log_tail=log[-1500:]), kind="tie", no_input=True)
                continue
            bd, bs = C.parse_coq(ans[0])
            mism += [di[k] for k in bd] + [si[k] for k in bs]
            ctx.cov["traces_validated_against_impl"] += len(sub) - len(bd) - len(bs)
    for i, why in failed_early:
        mism.append(i)
    # ---- direct oracle on the implementation
    impl_bad = []
    for i, (c, res) in enumerate(zip(cases, results)):
        msgs = search_one(np, post, c, res)
        if msgs:
            impl_bad.append((i, msgs))
    def size_key(i):
        n = prod(cases[i]["shape"])
        return (n == 0, (n + 1) * len(cases[i]["shape"]))

    impl_bad.sort(key=lambda t: size_key(t[0]))
    for i, msgs in impl_bad[:8]:
        ctx.fail("property violated on the implementation: %s; input %r" % ("; ".join(msgs), brief(cases[i])),
                 dict(input=cases[i], observed=results[i], messages=msgs), kind="impl")
    for b in ctor_guard(post):
        ctx.fail("Stack(num_vectors=%d): %s (a ValueError is documented for num_vectors < 1 only)" % (b["num_vectors"], b["observed"]),
                 dict(input=b), kind="impl")
        impl_bad.append((-1, ["constructor guard"]))
    reported = {i for i, _ in impl_bad}
    mism = sorted(set(mism), key=size_key)
    for i in mism[:8]:
        if i in reported:
            continue
        ctx.fail("implementation and model disagree on %r" % brief(cases[i]),
                 dict(input=cases[i], observed=results[i], correspondence="coq/C15/Exec.v check_%s" % cases[i]["kind"]),
                 kind="correspondence")
    if pr is not None and not pr["ok"] and not impl_bad and not mism:
        ctx.log("search found no failing input on the implementation")
    ctx.log("cases %d, correspondence mismatches %d, oracle failures %d" % (len(cases), len(mism), len(impl_bad)))
    ctx.assumptions += [
        "float64/float32 rounding is not modelled: inputs are small integers, float64 results are exact multiples of 1/den^num_deltas up to 1e-6",
        "NumPy primitives behave as modelled (pad, correlate, convolve, slicing, concatenate, stack, reshape)",
        "non-mutation of the caller's array and absence of aliasing are run-time facts: differential part only",
    ]
    float_path_oracle(ctx)
    general_pad_oracle(ctx)
    reused_object_oracle(ctx)
    passthrough_oracle(ctx)
    return C.finish(ctx, "proof")


def float_path_oracle(ctx):
    """Outside the model's five pad modes: "intermediate values are calculated with 64-bit
    floats, then cast back to the input data type" - for integer input and ANY np.pad mode
    (also ones whose pad values are not integers) the result must equal the float64 run cast
    to the input dtype."""
    C.ensure_impl_path()
    import numpy as np
    from pydrobert.speech import post

    r = ctx.rng
    nprng = np.random.RandomState(ctx.seed + 31)
    modes = [("mean", {}), ("linear_ramp", {}), ("constant", {"constant_values": 0.5}), ("median", {}), ("maximum", {}),
             ("edge", {}), ("reflect", {}), ("symmetric", {})]
    for rep in range(ctx.scale(60, 600)):
        mode, kw = r.choice(modes)
        dt = r.choice([np.int16, np.int32, np.int64])
        T, F = r.randint(4, 9), r.randint(1, 3)
        x = nprng.randint(-50, 50, size=(T, F)).astype(dt)
        nd, cw = r.randint(1, 2), r.randint(1, 2)
        d = post.Deltas(nd, concatenate=r.random() < 0.5, context_window=cw, pad_mode=mode, **kw)
        try:
            got = d.apply(x, axis=0)
            ref = d.apply(x.astype(np.float64), axis=0).astype(dt)
        except ValueError:
            continue  # e.g. reflect on too short an axis
        ctx.count("floatpath:%s" % mode)
        ctx.case(dict(kind="float-path", mode=mode, dtype=str(np.dtype(dt)), shape=[T, F], num_deltas=nd, context_window=cw), nontrivial=True)
        if got.dtype != x.dtype or got.shape != ref.shape or not np.array_equal(got, ref):
            ctx.fail("Deltas.apply on integer features differs from the float64 computation cast back to the input dtype",
                     dict(pad_mode=mode, pad_kwargs=kw, dtype=str(np.dtype(dt)), x=x.tolist(), num_deltas=nd, context_window=cw,
                          got=got.tolist(), expected=ref.tolist()), kind="impl")
            break


def reused_object_oracle(ctx):
    """One post-processor object serves many calls (a pipeline applies it to every utterance): what it returns must not
    depend on what it was applied to before - in particular not on an earlier input of the same shape but another dtype,
    or of another shape - and its documented public attributes may be re-assigned between calls."""
    C.ensure_impl_path()
    import numpy as np
    from pydrobert.speech import post

    r = ctx.rng
    nprng = np.random.RandomState(ctx.seed + 123)
    dts = [np.float64, np.float32, np.float16, np.int16, np.int32, np.int64, np.uint8]

    def same(a, b):
        return a.dtype == b.dtype and a.shape == b.shape and np.array_equal(a, b, equal_nan=(a.dtype.kind == "f"))

    for rep in range(ctx.scale(60, 600)):
        kind = "deltas" if rep % 3 else "stack"
        nd = r.choice([1, 2, 2, 3]) if kind == "deltas" else r.choice([2, 2, 3])
        shape = [r.randint(2, 6) for _ in range(nd)]
        D, W = r.choice([1, 2, 3]), r.choice([1, 2])
        nv = r.choice([1, 2, 3])
        mode = r.choice(["edge", "constant", "reflect", "symmetric"])
        axis = r.randrange(nd)
        tax = r.choice([a for a in range(nd) if a != axis]) if nd > 1 else 0

        def make():
            if kind == "deltas":
                return post.Deltas(D, context_window=W, pad_mode=mode, concatenate=r_conc)
            return post.Stack(nv, time_axis=tax, pad_mode=r_pad)

        r_conc = r.random() < 0.5
        r_pad = r.choice([None, "edge", "constant"])
        # axes counted from the end (time_axis=-2, feature axis -1): the same object then serves tensors of different rank
        from_end = kind == "stack" and r.random() < 0.5
        if from_end:
            tax, axis = -2, -1
        obj = make()
        history = []
        for call in range(r.randint(2, 5)):
            dt = r.choice(dts)
            shp = list(shape) if r.random() < 0.75 else [r.randint(2, 6) for _ in range(nd)]
            if from_end:
                shp = [r.randint(2, 6) for _ in range(r.choice([2, 3, 4]))]
            x = (nprng.randn(*shp) * 20).astype(dt)
            try:
                got = obj.apply(x.copy(), axis=axis)
                want = make().apply(x.copy(), axis=axis)
            except (ValueError, RuntimeError):
                continue  # e.g. reflect on too short an axis: both or neither - checked by the main oracle
            ctx.count("reused:%s" % kind)
            ctx.case(dict(kind="reused-object", cls=kind, call=call, dtype=str(np.dtype(dt)), shape=shp), nontrivial=call > 0)
            if not same(got, want):
                ctx.fail("%s object applied before to %s gives, on a %s input of shape %r, a result that differs from a fresh object's (%s %r vs %s %r)"
                         % (type(obj).__name__, history[-3:], np.dtype(dt).name, shp, got.dtype, list(got.shape), want.dtype, list(want.shape)),
                         dict(cls=kind, num_deltas=D, context_window=W, num_vectors=nv, pad_mode=(mode if kind == "deltas" else r_pad), axis=axis,
                              time_axis=tax, history=history, x=x.tolist(), dtype=str(np.dtype(dt)), got=got.tolist(), fresh=want.tolist()), kind="impl")
                return
            history.append((str(np.dtype(dt)), shp))


def general_pad_oracle(ctx):
    """The documented meaning for EVERY np.pad mode (the model has five): block k is the k-fold composed
    regression filter applied to the signal whose edges are extended, by k * context_window frames, with
    the chosen mode - in particular modes whose pad values depend on the pad WIDTH (linear_ramp) or on
    statistics of the signal (mean, median, minimum, maximum)."""
    C.ensure_impl_path()
    import numpy as np
    from pydrobert.speech import post

    r = ctx.rng
    nprng = np.random.RandomState(ctx.seed + 77)
    modes = ["linear_ramp", "mean", "median", "minimum", "maximum", "edge", "reflect", "symmetric", "wrap", "constant"]
    for rep in range(ctx.scale(120, 1200)):
        mode = modes[rep % len(modes)]
        nd = r.choice([1, 2, 2, 3])
        shape = [r.randint(3, 7) for _ in range(nd)]
        ax = r.randrange(nd)
        shape[ax] = r.randint(4, 9)
        x = nprng.randn(*shape) * 5.0
        D, W = r.choice([1, 2, 2, 3]), r.choice([1, 2, 3])
        concat = r.random() < 0.5
        tgt = r.randrange(nd) if concat else r.randrange(nd + 1)
        d = post.Deltas(D, concatenate=concat, context_window=W, pad_mode=mode, target_axis=tgt)
        try:
            got = d.apply(x, axis=ax)
        except ValueError:
            continue
        fs = int_filters(W, D)
        den = float(delta_den(W))
        blocks = [x]
        ok_ref = True
        for k in range(1, D + 1):
            pw = [(0, 0)] * nd
            pw[ax] = (k * W, k * W)
            try:
                xp = np.pad(x, pw, mode)
            except ValueError:
                ok_ref = False
                break
            f = np.asarray(fs[k], dtype=np.float64) / den ** k
            blk = np.apply_along_axis(lambda v: np.correlate(v, f, "valid"), ax, xp)
            blocks.append(blk)
        if not ok_ref:
            continue
        want = np.concatenate(blocks, tgt) if concat else np.stack(blocks, tgt)
        ctx.count("generalpad:%s" % mode)
        ctx.case(dict(kind="general-pad", mode=mode, shape=shape, axis=ax, num_deltas=D, context_window=W, concatenate=concat,
                      target_axis=tgt), nontrivial=True)
        if got.shape != want.shape or got.dtype != x.dtype or not np.allclose(got, want, rtol=1e-9, atol=1e-9):
            err = float(np.max(np.abs(got - want))) if got.shape == want.shape else None
            ctx.fail("Deltas.apply differs from the documented regression filters with edges extended by np.pad mode '%s'" % mode,
                     dict(pad_mode=mode, x=x.tolist(), axis=ax, num_deltas=D, context_window=W, concatenate=concat, target_axis=tgt,
                          got_shape=list(got.shape), documented_shape=list(want.shape), max_abs_diff=err), kind="impl")
            break


PASS_DTYPES = ["int64", "uint64", "int64", "uint64", "int32", "uint32", "int16", "uint16", "int8", "uint8",
               "float64", "float32", "float16", "bool"]


def gen_passthrough_case(ctx):
    """Features of any dtype whose values use the dtype's whole range: 64-bit integers of magnitude above 2**53
    (odd ones, which float64 cannot hold), the dtype's extremes, mixed with ordinary magnitudes."""
    r = ctx.rng
    dt = r.choice(PASS_DTYPES)
    nd = r.choice([1, 2, 2, 3])
    shape = [r.randint(1, 4) for _ in range(nd)]
    axis = r.randrange(-nd, nd)
    shape[axis] = r.randint(2, 6)
    concat = r.random() < 0.5
    lim = nd if concat else nd + 1
    n = prod(shape)
    if dt == "bool":
        data = [r.random() < 0.5 for _ in range(n)]
    elif dt.startswith("float"):
        big = dict(float64=1.7e308, float32=3.4e38, float16=65504.0)[dt]
        data = [r.choice([big, -big, 1.0 / 3, -0.0, 1e-7, float(r.randint(-40, 40)), r.uniform(-1, 1) * big]) for _ in range(n)]
    else:
        bits = int(dt.lstrip("uint"))
        lo, hi = (0, 2 ** bits - 1) if dt.startswith("u") else (-2 ** (bits - 1), 2 ** (bits - 1) - 1)
        style = r.choice(["extremes", "above-2**53", "counter", "mixed"])
        data = []
        start = r.choice([2 ** 53 - 2, 2 ** 60 + 1, hi - n - 1]) if bits == 64 else hi - n - 1
        for k in range(n):
            u = r.random()
            if style == "counter":
                v = start + k  # e.g. a sample counter crossing 2**53
            elif style == "extremes" or (style == "mixed" and u < 0.3):
                v = r.choice([hi, lo, hi - 1, lo + 1, hi - r.randint(0, 1000), hi // 2 + 1])
            elif style == "above-2**53" or (style == "mixed" and u < 0.6):
                v = r.choice([1, -1]) * (r.randint(2 ** 53, 2 ** 63 - 1) | 1) if bits == 64 else r.randint(lo, hi)
            else:
                v = r.randint(-40, 40)
            data.append(min(max(v, lo), hi))
    return dict(kind="passthrough", shape=shape, data=data, dtype=dt, axis=axis, target_axis=r.randrange(-lim, lim),
                concatenate=concat, num_deltas=r.choice([1, 1, 2, 3]), context_window=r.choice([1, 2, 3]),
                pad_mode=r.choice(PAD_MODES), cval=0, in_place=r.random() < 0.3)


def passthrough_check(np, post, case):
    """"Returns the input followed by ...": the leading block of the result is the input, bit for bit, in every
    dtype.  -> None or a message."""
    import warnings

    x = np.array(case["data"], dtype=np.dtype(case["dtype"])).reshape(case["shape"])
    keep = x.copy()
    d = post.Deltas(case["num_deltas"], target_axis=case["target_axis"], concatenate=case["concatenate"],
                    context_window=case["context_window"], pad_mode=case["pad_mode"])
    with warnings.catch_warnings():
        warnings.simplefilter("ignore")  # the delta blocks of extreme values may overflow the dtype: not judged here
        try:
            out = d.apply(x, axis=case["axis"], in_place=case["in_place"])
        except Exception as e:  # noqa: BLE001
            return "raises %s: %s" % (type(e).__name__, e)
    nd = x.ndim
    if out.dtype != x.dtype:
        return "dtype %s for %s input" % (out.dtype, x.dtype)
    if keep.tobytes() != x.tobytes():
        return "the input array was modified"
    if case["concatenate"]:
        ta = case["target_axis"] % nd
        want_shape = list(x.shape)
        want_shape[ta] *= case["num_deltas"] + 1
        if list(out.shape) != want_shape:
            return "shape %r, documented %r" % (list(out.shape), want_shape)
        lead = np.take(out, range(x.shape[ta]), axis=ta)
    else:
        ta = case["target_axis"] % (nd + 1)
        want_shape = list(x.shape)
        want_shape.insert(ta, case["num_deltas"] + 1)
        if list(out.shape) != want_shape:
            return "shape %r, documented %r" % (list(out.shape), want_shape)
        lead = np.take(out, 0, axis=ta)
    lead = np.ascontiguousarray(lead)
    if lead.tobytes() != keep.tobytes():
        diff = [idx for idx in np.ndindex(*keep.shape) if lead[idx].tobytes() != keep[idx].tobytes()]
        i0 = diff[0]
        return "the leading block of the result is not the input: %d of %d entries differ, e.g. at %r input %r, result %r" % (
            len(diff), keep.size, list(i0), keep[i0].item(), lead[i0].item())
    return None


def passthrough_oracle(ctx):
    """Outside the model's integer-coded runs (small integers, exact in float64): features that use the whole range
    of their dtype.  Whatever the delta blocks become, the first block of the result is the input itself."""
    C.ensure_impl_path()
    import numpy as np
    from pydrobert.speech import post

    worst = None
    for rep in range(ctx.scale(400, 4000)):
        case = gen_passthrough_case(ctx)
        msg = passthrough_check(np, post, case)
        ctx.count("passthrough:%s" % case["dtype"])
        if case["dtype"] in ("int64", "uint64") and any(abs(v) > 2 ** 53 for v in case["data"]):
            ctx.count("passthrough:64-bit-above-2**53")
        ctx.case(dict(case=case), nontrivial=True)
        if msg and (worst is None or prod(case["shape"]) < prod(worst[0]["shape"])):
            worst = (case, msg)
    if worst:
        case, msg = worst
        ctx.fail("property violated on the implementation: %s; input %r" % (msg, brief(case)),
                 dict(input=case, messages=[msg]), kind="impl")


def replay(ctx, rp):
    """./check C15 --replay <file>: re-run the recorded input on the implementation
    (direct oracle) and on the model (inside Coq)."""
    C.ensure_impl_path()
    import importlib

    import numpy as np

    post = importlib.import_module("pydrobert.speech.post")
    regenerate(ctx)
    rep = rp.get("failure", {}).get("replay", {})
    case = rep.get("input")
    if isinstance(case, dict) and case.get("kind") == "passthrough":
        msg = passthrough_check(np, post, case)
        print("input:", case)
        print("oracle:", msg or "the leading block of the result is the input")
        return 1 if msg else 0
    if not isinstance(case, dict) or case.get("kind") not in ("deltas", "stack"):
        print(__import__("json").dumps(rp, indent=1))
        return 0
    res = run_impl(np, post, case)
    msgs = search_one(np, post, case, res)
    print("input:", case)
    print("implementation:", res)
    print("oracle:", msgs or "agrees with the documented result")
    rec, why = coq_case(case, res)
    if rec is None:
        print("model: not comparable (%s)" % why)
        return 1
    kind = "d" if case["kind"] == "deltas" else "s"
    body = "Eval vm_compute in (check_%s %s).\n" % ("deltas" if kind == "d" else "stack", rec)
    ok, out = C.coq_make(["C15/Exec.v"])
    ans, log = C.coq_eval(ctx, "replay", body, REQ) if ok else (None, out)
    print("model agrees with implementation:", ans[0] if ans else "could not evaluate\n" + log[-800:])
    return 1 if (msgs or not ans or ans[0].strip() != "true") else 0


def brief(case):
    c = dict(case)
    if len(c["data"]) > 12:
        c["data"] = c["data"][:12] + ["..."]
    return c


def exhaustive_small():
    """Thorough tier: every (shape, axis, time/target axis, num) combination in a small scope."""
    out = []
    shapes = [[a, b] for a in range(0, 4) for b in range(0, 4)] + [[a, b, c] for a in (1, 2, 3) for b in (1, 2) for c in (1, 3)]
    k = 0
    for shape in shapes:
        nd = len(shape)
        n = prod(shape)
        data = [((7 * j + 3) % 23) - 11 for j in range(n)]
        for axis in range(-nd, nd):
            for ta in range(-nd, nd):
                for nv in (1, 2, 3, 4):
                    for mode in (None, "edge", "reflect", "constant"):
                        k += 1
                        out.append(dict(kind="stack", shape=shape, data=data, dtype="float64", axis=axis, time_axis=ta,
                                        num_vectors=nv, pad_mode=mode, cval=0, in_place=False))
            for tgt in range(-nd - 1, nd + 1):
                for D in (1, 2):
                    for mode in PAD_MODES:
                        for concat in (True, False):
                            out.append(dict(kind="deltas", shape=shape, data=data, dtype="float64", axis=axis,
                                            target_axis=tgt, concatenate=concat, num_deltas=D, context_window=1 + (k % 2),
                                            pad_mode=mode, cval=0, in_place=False))
                            k += 1
    return out
