"""C16 - Standardize normalises with exactly the statistics it was given.

Steps (see coq/C16/NOTES.md):
 1. regenerate coq/gen/StandardizeK.v (scalar kernels of post.py) with gen/standardize.py
 2. proofs: coq/C16/Props.v (theorems about coq/C16/Model.v built on those kernels)
 3. correspondence: random *histories* (interleaved accumulate / apply / have_stats
    calls on one instance, vectors and tensors, any axis, many dtypes, exact dyadic
    data) are run on the implementation and on the model (instance QcNum, evaluated
    by vm_compute inside Coq); every observation is compared (exception kind,
    have_stats, dtype, aliasing / input untouched, values)
 4. direct search oracle: the property itself, stated in Python with exact
    rationals (two-pass mean / variance over the multiset of all accumulated feature
    vectors), plus metamorphic re-accumulation of the same vectors in other splits,
    orders, axes, dtypes and vector/tensor forms; histories over several instances
    whose statistics are LOADED from files (several instances from one file, files
    saved again under the same name, further accumulation on loaded instances).
"""

import math
import os
import sys
import warnings
from fractions import Fraction

from . import common as C

sys.path.insert(0, os.path.join(C.ROOT, "gen"))

PID = "C16"

# dtype name -> (kind, max |numerator| the generator may use, max denominator exponent)
DTYPES = {
    "float64": ("f", 2 ** 40, 30),
    "float32": ("f", 2 ** 23, 12),
    "float16": ("f", 2 ** 10, 3),
    "int8": ("i", None, 0),
    "int16": ("i", None, 0),
    "int32": ("i", None, 0),
    "int64": ("i", 2 ** 45, 0),
    "uint8": ("u", None, 0),
    "uint16": ("u", None, 0),
    "uint32": ("u", None, 0),
}


def np_():
    import numpy as np

    return np


def dtype_range(name):
    np = np_()
    kind, lim, _ = DTYPES[name]
    if kind == "f":
        return -lim, lim
    ii = np.iinfo(name)
    lo, hi = int(ii.min), int(ii.max)
    if lim is not None:
        lo, hi = max(lo, -lim), min(hi, lim)
    return lo, hi


# --------------------------------------------------------------------------
# case generation.  A tensor is dict(shape, k, nums, dtype): value = num / 2**k.


def prod(xs):
    p = 1
    for x in xs:
        p *= x
    return p


class Profile:
    """Per-coefficient offsets / spreads of one data set (one history)."""

    def __init__(self, r, F, dtype, kind=None):
        self.r = r
        self.F = F
        self.dtype = dtype
        lo, hi = dtype_range(dtype)
        self.lo, self.hi = lo, hi
        dk, _, kmax = DTYPES[dtype]
        kinds = ["small", "negmean", "wide", "extreme", "const"]
        if dk == "f":
            kinds += ["dyadic", "tiny"]
        self.kind = kind or r.choice(kinds)
        self.k = 0
        self.off, self.spread = [], []
        for f in range(F):
            if self.kind == "small":
                o, s = r.randint(-5, 5), r.randint(1, 9)
            elif self.kind == "negmean":
                o, s = -r.randint(50, 2000), r.randint(5, 60)
            elif self.kind == "wide":
                m = min(hi, 10 ** r.randint(2, 9))
                o, s = r.randint(-m // 4, m // 4), max(1, m // r.choice([2, 3, 8]))
            elif self.kind == "extreme":
                # values close to the ends of the dtype's range
                o, s = r.choice([hi, lo, hi - hi // 3, 0]), max(1, hi // r.choice([1, 2, 7]))
            elif self.kind == "const":
                o, s = r.randint(-20, 20), (0 if r.random() < 0.6 else r.randint(1, 5))
                if dk == "f" and kmax >= 30 and (f == 0 and r.random() < 0.5 or self.k):
                    # constant values with many significant bits (like a log-energy floor, log(1e-5)): their squares and
                    # sums of squares round, so sum^2 and count * sum-of-squares agree only up to round-off
                    self.k = 30
                    o = r.randint(-2 ** 34, 2 ** 34)
                    s = s * 2 ** 28
            elif self.kind == "dyadic":
                self.k = r.randint(1, min(kmax, 10))
                o, s = r.randint(-300, 300), r.randint(1, 400)
            else:  # tiny: spreads around the closeness threshold sqrt(1e-8) = 1e-4
                self.k = min(kmax, r.choice([12, 13, 14, 15, 16, 20]))
                o, s = r.randint(-3, 3) * r.choice([0, 1, 2 ** self.k]), r.randint(1, 6)
            if dk == "u":
                o = abs(o)
            self.off.append(o)
            self.spread.append(s)
        if self.kind == "const" and all(s == 0 for s in self.spread) and r.random() < 0.5:
            self.spread[r.randrange(F)] = 2

    def value(self, f):
        r = self.r
        s = self.spread[f]
        v = self.off[f] + (r.randint(-s, s) if s else 0)
        # reflect at the ends of the representable range (keeps the spread), then clamp
        if v > self.hi:
            v = 2 * self.hi - v
        if v < self.lo:
            v = 2 * self.lo - v
        return max(self.lo, min(self.hi, v))

    def vectors(self, n):
        return [[self.value(f) for f in range(self.F)] for _ in range(n)]


def rand_shape(r, F, nvec, ndim=None):
    """A shape with F on some axis and nvec = product of the other dims (nvec factorised)."""
    if ndim is None:
        ndim = r.choice([2, 2, 2, 3, 3, 4])
    dims = [1] * (ndim - 1)
    rest = nvec
    # distribute the prime factors of nvec over the other axes
    p = 2
    facs = []
    while rest > 1 and p * p <= rest:
        while rest % p == 0:
            facs.append(p)
            rest //= p
        p += 1
    if rest > 1:
        facs.append(rest)
    for q in facs:
        dims[r.randrange(len(dims))] *= q
    a = r.randrange(ndim)
    shape = dims[:a] + [F] + dims[a:]
    return shape, a


def pack(vectors, shape, a):
    """Lay the vectors out as a C-order tensor of ``shape`` whose axis a is the feature axis:
    fibre j (C-order over the other axes) is vectors[j]."""
    np = np_()
    F = shape[a]
    other = shape[:a] + shape[a + 1:]
    arr = np.array(vectors, dtype=object).reshape(other + [F]) if vectors else np.zeros(other + [F], dtype=object)
    arr = np.moveaxis(arr, -1, a)
    return [int(x) for x in arr.reshape(-1)]


def mk_tensor(vectors, shape, a, k, dtype):
    return dict(shape=list(shape), k=k, nums=pack(vectors, shape, a), dtype=dtype)


def axis_choice(r, a, ndim):
    return a if r.random() < 0.5 else a - ndim


def gen_history(ctx, r, size):
    """One case: norm_var and a list of ops on one Standardize instance."""
    F = r.choice([1, 2, 2, 3, 3, 4, 5])
    dtype = r.choice(list(DTYPES))
    prof = Profile(r, F, dtype)
    norm_var = r.random() < 0.7
    ops = []
    nops = r.randint(2, size)
    have_any = False
    for _ in range(nops):
        u = r.random()
        if u < 0.45:
            ops.append(gen_acc(ctx, r, prof))
        elif u < 0.85:
            ops.append(gen_app(ctx, r, prof))
        elif u < 0.93:
            ops.append(dict(op="have"))
        else:
            ops.append(gen_odd(ctx, r, prof))
    return dict(norm_var=norm_var, ops=ops, profile=prof.kind)


def gen_acc(ctx, r, prof, force_vec=None):
    as_vec = r.random() < 0.35 if force_vec is None else force_vec
    if as_vec:
        v = prof.vectors(1)
        t = dict(shape=[prof.F], k=prof.k, nums=v[0], dtype=prof.dtype)
        return dict(op="acc", t=t, axis=r.choice([-1, -1, 0, 3]))
    nvec = r.choice([1, 2, 3, 4, 5, 6, 8, 12])
    shape, a = rand_shape(r, prof.F, nvec)
    t = mk_tensor(prof.vectors(nvec), shape, a, prof.k, prof.dtype)
    return dict(op="acc", t=t, axis=axis_choice(r, a, len(shape)))


def gen_app(ctx, r, prof):
    ip = r.random() < 0.3
    if r.random() < 0.3:
        v = prof.vectors(1)
        t = dict(shape=[prof.F], k=prof.k, nums=v[0], dtype=prof.dtype)
        return dict(op="app", t=t, axis=r.choice([-1, 0, 2]), in_place=ip)
    nvec = r.choice([1, 1, 2, 3, 4, 6, 8])
    shape, a = rand_shape(r, prof.F, nvec)
    t = mk_tensor(prof.vectors(nvec), shape, a, prof.k, prof.dtype)
    return dict(op="app", t=t, axis=axis_choice(r, a, len(shape)), in_place=ip)


def gen_odd(ctx, r, prof):
    """Boundary / error inputs: wrong feature dimension, empty, 0-d, axis out of range."""
    kind = r.choice(["wrongF", "wrongF", "empty", "zerod", "badaxis", "wrongaxis"])
    which = r.choice(["acc", "app"])
    base = dict(op=which)
    if which == "app":
        base["in_place"] = r.random() < 0.3
    F = prof.F
    if kind == "wrongF":
        F2 = F + r.choice([1, 2, -1]) if F > 1 else F + r.choice([1, 2])
        p2 = Profile(r, F2, prof.dtype, kind="small")
        if r.random() < 0.5:
            t = dict(shape=[F2], k=0, nums=p2.vectors(1)[0], dtype=prof.dtype)
            return dict(base, t=t, axis=-1)
        shape, a = rand_shape(r, F2, r.choice([2, 3, 4]))
        return dict(base, t=mk_tensor(p2.vectors(prod(shape) // F2), shape, a, 0, prof.dtype), axis=axis_choice(r, a, len(shape)))
    if kind == "empty":
        shape = r.choice([[0], [0, F], [F, 0], [2, 0, F], [0, 0]])
        return dict(base, t=dict(shape=shape, k=0, nums=[], dtype=prof.dtype), axis=r.choice([-1, 0]))
    if kind == "zerod":
        return dict(base, t=dict(shape=[], k=0, nums=[prof.value(0)], dtype=prof.dtype), axis=-1)
    nvec = r.choice([2, 3, 4])
    shape, a = rand_shape(r, F, nvec)
    t = mk_tensor(prof.vectors(nvec), shape, a, prof.k, prof.dtype)
    if kind == "badaxis":
        return dict(base, t=t, axis=r.choice([len(shape), -len(shape) - 1, 7]))
    # a valid axis that is not the feature axis (its length may or may not equal F)
    return dict(base, t=t, axis=r.randrange(-len(shape), len(shape)))


# --------------------------------------------------------------------------
# running the implementation


def to_array(t):
    np = np_()
    vals = [n / float(2 ** t["k"]) for n in t["nums"]] if t["k"] else list(t["nums"])
    if not t["shape"]:
        return np.array(vals[0], dtype=t["dtype"])
    if t["k"] == 0 and DTYPES[t["dtype"]][0] != "f":
        arr = np.array(t["nums"], dtype=object).astype(t["dtype"]) if t["nums"] else np.zeros(0, dtype=t["dtype"])
    else:
        arr = np.array(vals, dtype=np.float64).astype(t["dtype"])
    arr = arr.reshape(t["shape"])
    # the generator only produces exactly representable values
    back = [Fraction(float(x)) for x in arr.astype(np.float64).reshape(-1)]
    want = [Fraction(n, 2 ** t["k"]) for n in t["nums"]]
    if back != want:
        raise AssertionError("generator produced a value not representable in %s" % t["dtype"])
    return arr


def exc_name(e):
    n = type(e).__name__
    return n if n in ("ValueError", "TypeError", "IndexError") else "Other:" + n


def impl_run(post, case):
    """Observations of the implementation on one history."""
    np = np_()
    obs = []
    with warnings.catch_warnings():
        warnings.simplefilter("ignore")
        s = post.Standardize(norm_var=case["norm_var"])
        for o in case["ops"]:
            if o["op"] == "have":
                obs.append(("have", bool(s.have_stats)))
                continue
            x = to_array(o["t"])
            keep = x.copy()
            if o["op"] == "acc":
                try:
                    s.accumulate(x, axis=o["axis"])
                    ob = ("acc", None)
                except Exception as e:  # noqa: BLE001
                    ob = ("acc", exc_name(e))
                if not (x.dtype == keep.dtype and np.array_equal(x, keep)):
                    ob = ob + ("input-modified",)
                obs.append(ob)
            else:
                try:
                    y = s.apply(x, axis=o["axis"], in_place=o["in_place"])
                except Exception as e:  # noqa: BLE001
                    ob = ("err", exc_name(e))
                    if not np.array_equal(x, keep):
                        ob = ob + ("input-modified",)
                    obs.append(ob)
                    continue
                aliases = y is x or bool(np.shares_memory(y, x))
                untouched = bool(x.dtype == keep.dtype and np.array_equal(x, keep, equal_nan=True))
                obs.append(("app", list(y.shape), [float(v) for v in np.asarray(y, dtype=np.float64).reshape(-1)],
                            str(y.dtype) == "float64", aliases, untouched))
    return obs


# --------------------------------------------------------------------------
# the model, evaluated inside Coq


def coq_tensor(t):
    return "(mk_tensor %s %d %s %s)" % (C.zlist(t["shape"]), 2 ** t["k"], C.zlist(t["nums"]), "true" if t["dtype"] == "float64" else "false")


def coq_case(case):
    ops = []
    for o in case["ops"]:
        if o["op"] == "have":
            ops.append("HaveQ")
        elif o["op"] == "acc":
            ops.append("AccQ %s %s" % (coq_tensor(o["t"]), C.zlist(o["axis"])))
        else:
            ops.append("AppQ %s %s %s" % (coq_tensor(o["t"]), C.zlist(o["axis"]), "true" if o["in_place"] else "false"))
    return "Eval vm_compute in (map show_obs (run_qc %s [%s])).\n" % ("true" if case["norm_var"] else "false", "; ".join(ops))


REQ = (
    "From Coq Require Import ZArith List Bool QArith Qcanon.\n"
    "From Verif Require Import C16.Model.\nImport ListNotations.\nOpen Scope Z_scope.\n"
)


def _name(x):
    if isinstance(x, tuple) and len(x) == 1 and isinstance(x[0], str):
        return x[0].lstrip("@")
    return x


def model_obs(ans):
    """Parse one printed ``list shown``."""
    out = []
    for it in C.parse_coq(ans):
        tag = it[0]
        if tag == "ShAcc":
            e = it[1]
            out.append(("acc", None if e is None else _name(e[1])))
        elif tag == "ShErr":
            out.append(("err", _name(it[1])))
        elif tag == "ShHave":
            out.append(("have", it[1]))
        elif tag == "ShApp":
            vals = []
            for p in it[2]:
                dn, dd, (vn, vd) = p
                vals.append((Fraction(dn, dd), Fraction(vn, vd)))
            out.append(("app", it[1], vals, it[3], it[4]))
        else:
            raise ValueError("cannot parse model observation %r" % (it,))
    return out


def model_run(ctx, cases, tag="corr"):
    """Evaluate the cases in Coq; returns a list (one per case) of observation lists or None."""
    shard = 250
    files = [("%s_%d" % (tag, i // shard), "".join(coq_case(c) for c in cases[i:i + shard])) for i in range(0, len(cases), shard)]
    res = C.coq_eval_many(ctx, files, REQ, pid=PID)
    out = []
    for (name, _), (ans, log), base in zip(files, res, range(0, len(cases), shard)):
        n = min(shard, len(cases) - base)
        if ans is None or len(ans) != n:
            ctx.log("model evaluation failed in %s: %s" % (name, (log or "")[-600:]))
            out += [None] * n
        else:
            out += [model_obs(a) for a in ans]
    return out


# --------------------------------------------------------------------------
# exact reference (the property stated directly) and tolerances

EPS = 2.0 ** -52
ATOL0 = Fraction(1, 10 ** 8)


def fibres_of(t, axis):
    """Feature vectors (lists of Fractions) of a tensor along axis, via numpy's own moveaxis."""
    np = np_()
    den = 2 ** t["k"]
    if len(t["shape"]) <= 1:
        return [[Fraction(n, den) for n in t["nums"]]]
    arr = np.array(t["nums"], dtype=object).reshape(t["shape"])
    arr = np.moveaxis(arr, axis, -1).reshape(-1, t["shape"][axis])
    return [[Fraction(int(n), den) for n in row] for row in arr]


class Ref:
    """All feature vectors accumulated so far; two-pass exact moments."""

    def __init__(self, norm_var):
        self.norm_var = norm_var
        self.vectors = []
        self.F = None

    def moments(self, vectors):
        n = len(vectors)
        F = len(vectors[0])
        mean = [sum(v[f] for v in vectors) / n for f in range(F)]
        var = [sum((v[f] - mean[f]) ** 2 for v in vectors) / n for f in range(F)]
        ms = [sum(v[f] ** 2 for v in vectors) / n for f in range(F)]
        return mean, var, ms

    def expected_apply(self, t, axis):
        """-> ('err', name) | ('vals', [(expected float, tolerance) | None ...]) | None (not specified)."""
        shape = t["shape"]
        if not shape:
            return None  # 0-d input: not part of the property
        if prod(shape) == 0:
            return ("err", "ValueError")
        nd = len(shape)
        if nd > 1 and not (-nd <= axis < nd):
            return None  # invalid axis: not part of the property
        a = (axis % nd) if nd > 1 else 0
        F = shape[a]
        if self.F is not None and F != self.F:
            return ("err", "ValueError")
        fib = fibres_of(t, a)
        if self.vectors:
            mean, var, ms = self.moments(self.vectors)
        elif len(fib) == 1:
            return ("err", "ValueError") if self.norm_var else ("vals", [(0.0, 0.0)] * F)
        else:
            mean, var, ms = self.moments(fib)
        n_used = len(self.vectors) if self.vectors else len(fib)
        per = []
        for f in range(F):
            if not self.norm_var:
                per.append((mean[f], None, 0.0))
            elif var[f] == 0:
                # exact zero variance: replaced by 1 - provided float64 also sees (nearly) 0,
                # i.e. the sums of squares are computed exactly
                per.append((mean[f], None, 0.0) if ms[f] * n_used < 2 ** 52 else None)
            elif var[f] <= ATOL0 * Fraction(1001, 1000):
                per.append(None)  # 0 < var <= 1e-8: "close to zero" by np.isclose; left to the model
            else:
                cond = float(ms[f] / var[f])
                # var computed as E[x^2] - mean^2 in float64 has relative error ~ eps * cond
                per.append((mean[f], var[f], cond) if 16 * EPS * cond < 1e-4 else None)
        # expected values in C order
        np = np_()
        idx = np.arange(prod(shape)).reshape(shape)
        fidx = np.broadcast_to(np.arange(F).reshape([F if i == a else 1 for i in range(nd)]), shape).reshape(-1) if nd > 1 else np.arange(F)
        den = 2 ** t["k"]
        out = []
        for i, n in enumerate(t["nums"]):
            p = per[int(fidx[i])]
            if p is None:
                out.append(None)
                continue
            x = Fraction(n, den)
            m, v, c = p
            if v is None:
                e = float(x - m)
                tol = 1e-9 * max(1.0, abs(e)) + 8 * EPS * float(abs(x) + abs(m))
            else:
                sd = math.sqrt(float(v))
                e = float(x - m) / sd
                tol = 1e-9 * max(1.0, abs(e)) + 16 * EPS * c * abs(e) + 16 * EPS * float(abs(x) + abs(m)) / sd
            out.append((e, tol))
        return ("vals", out)

    def accumulate(self, t, axis):
        """Mirror of a *successful or failing* accumulate; returns expected exception name or None,
        or 'unspecified'."""
        shape = t["shape"]
        if not shape:
            return "unspecified"
        if prod(shape) == 0:
            return "ValueError"
        nd = len(shape)
        if nd > 1 and not (-nd <= axis < nd):
            return "unspecified"
        a = (axis % nd) if nd > 1 else 0
        F = shape[a]
        if self.F is not None and F != self.F:
            return "ValueError"
        self.F = F
        self.vectors += fibres_of(t, a)
        return None


def close(a, e, tol):
    if tol == math.inf:
        return True  # ill-conditioned in float64 (see Ref.expected_apply): not compared
    if math.isnan(a) or math.isinf(a):
        return False
    return abs(a - e) <= tol


def oracle_check(post, case, impl=None):
    """The property, directly: returns list of (what, detail) problems."""
    bad = []
    impl = impl if impl is not None else impl_run(post, case)
    ref = Ref(case["norm_var"])
    for i, (o, ob) in enumerate(zip(case["ops"], impl)):
        if len(ob) > 2 and ob[-1] == "input-modified":
            bad.append(("input modified by a call that must not touch it", dict(op_index=i)))
        if o["op"] == "have":
            if ob[1] != bool(ref.vectors):
                bad.append(("have_stats", dict(op_index=i, got=ob[1], expected=bool(ref.vectors))))
        elif o["op"] == "acc":
            exp = ref.accumulate(o["t"], o["axis"])
            if exp != "unspecified" and ob[1] != exp:
                bad.append(("accumulate outcome", dict(op_index=i, got=ob[1], expected=exp)))
        else:
            exp = ref.expected_apply(o["t"], o["axis"])
            if exp is None:
                continue
            if exp[0] == "err":
                if ob[0] != "err" or ob[1] != exp[1]:
                    bad.append(("apply should raise " + exp[1], dict(op_index=i, got=ob[:2])))
                continue
            if ob[0] != "app":
                bad.append(("apply raised", dict(op_index=i, got=ob[:2])))
                continue
            _, shape, vals, f64, aliases, untouched = ob
            if not f64:
                bad.append(("result is not float64", dict(op_index=i)))
            if shape != o["t"]["shape"]:
                bad.append(("result shape", dict(op_index=i, got=shape)))
                continue
            if not o["in_place"] and not untouched:
                bad.append(("input modified although in_place is False", dict(op_index=i)))
            if not o["in_place"] and aliases:
                bad.append(("result aliases the input although in_place is False", dict(op_index=i)))
            for j, (a, et) in enumerate(zip(vals, exp[1])):
                if et is None:
                    continue
                e, tol = et
                if not close(a, e, tol):
                    bad.append(("apply value differs from (x - mean)/std of all accumulated vectors",
                                dict(op_index=i, element=j, got=a, expected=e, tol=tol, n_accumulated=len(ref.vectors))))
                    break
    return bad


def compare_model(case, impl, model):
    """Correspondence: implementation observations vs model observations."""
    bad = []
    if model is None:
        return [("model could not be evaluated", {})]
    if len(impl) != len(model):
        return [("number of observations", dict(impl=len(impl), model=len(model)))]
    for i, (o, a, m) in enumerate(zip(case["ops"], impl, model)):
        if a[0] != m[0] or (a[0] in ("acc", "err", "have") and a[1] != m[1]):
            bad.append(("outcome differs", dict(op_index=i, impl=a[:2], model=m[:2])))
            break  # later observations depend on the state
        if a[0] != "app":
            continue
        _, shape, vals, f64, aliases, untouched = a
        _, mshape, mvals, mf64, maliases = m
        if shape != mshape or len(vals) != len(mvals):
            bad.append(("shape differs", dict(op_index=i, impl=shape, model=mshape)))
            continue
        if f64 != mf64:
            bad.append(("result dtype float64? differs", dict(op_index=i, impl=f64, model=mf64)))
        if aliases != maliases:
            bad.append(("aliasing of the input differs", dict(op_index=i, impl=aliases, model=maliases)))
        if not maliases and not untouched:
            bad.append(("input modified where the model leaves it untouched", dict(op_index=i)))
        for j, (x, (d, v)) in enumerate(zip(vals, mvals)):
            if v <= 0:
                bad.append(("model variance not positive", dict(op_index=i, element=j, v=str(v))))
                break
            e = float(d) / math.sqrt(float(v)) if v != 1 else float(d)
            tol = 1e-9 * max(1.0, abs(e)) + o.get("_tol_extra", [0.0] * len(vals))[j]
            if not close(x, e, tol):
                bad.append(("value differs", dict(op_index=i, element=j, impl=x, model=e, tol=tol)))
                break
    return bad


def add_cond_tolerances(case):
    """Attach to every apply op the extra tolerance due to float64 cancellation in
    E[x^2] - mean^2 (computed exactly from the history, independent of both sides)."""
    ref = Ref(case["norm_var"])
    for o in case["ops"]:
        if o["op"] == "acc":
            ref.accumulate(o["t"], o["axis"])
        elif o["op"] == "app":
            exp = ref.expected_apply(o["t"], o["axis"])
            n = len(o["t"]["nums"])
            if exp is None or exp[0] != "vals":
                o["_tol_extra"] = [0.0] * n
            else:
                o["_tol_extra"] = [(math.inf if et is None else et[1]) for et in exp[1]]
    return case


def strip(case):
    c = dict(case)
    c["ops"] = [{k: v for k, v in o.items() if not k.startswith("_")} for o in case["ops"]]
    return c


def nontrivial(case):
    """A case is non-trivial when at least one apply happens after a successful accumulate
    (global statistics) or standardises a tensor locally."""
    seen_acc = False
    for o in case["ops"]:
        if o["op"] == "acc" and o["t"]["shape"] and prod(o["t"]["shape"]):
            seen_acc = True
        if o["op"] == "app" and (seen_acc or len(o["t"]["shape"]) > 1):
            return True
    return False


# --------------------------------------------------------------------------
# metamorphic search: same multiset of vectors, different histories


def metamorphic(ctx, post, r, rounds):
    np = np_()
    bad = []
    for _ in range(rounds):
        F = r.choice([1, 2, 3, 4, 6])
        dtype = r.choice(list(DTYPES))
        prof = Profile(r, F, dtype, kind=r.choice(["small", "negmean", "wide", "extreme", "dyadic" if DTYPES[dtype][0] == "f" else "wide"]))
        n = r.choice([2, 3, 6, 8, 12, 24])
        vecs = prof.vectors(n)
        norm_var = r.random() < 0.7
        probe_shape, pa = rand_shape(r, F, r.choice([1, 2, 4]))
        probe = mk_tensor(prof.vectors(prod(probe_shape) // F), probe_shape, pa, prof.k, dtype)
        outs = []
        hists = []
        for h in range(4):
            order = list(range(n))
            if h:
                r.shuffle(order)
            ops = []
            i = 0
            mode = ["vectors", "one", "split", "mixed"][h]
            while i < n:
                if mode == "vectors":
                    take, vec = 1, True
                elif mode == "one":
                    take, vec = n, False
                else:
                    take = r.randint(1, n - i)
                    vec = take == 1 and (mode == "mixed" and r.random() < 0.7)
                part = [vecs[j] for j in order[i:i + take]]
                i += take
                if vec:
                    ops.append(dict(op="acc", t=dict(shape=[F], k=prof.k, nums=part[0], dtype=dtype), axis=-1))
                else:
                    shape, a = rand_shape(r, F, take)
                    ops.append(dict(op="acc", t=mk_tensor(part, shape, a, prof.k, dtype), axis=axis_choice(r, a, len(shape))))
                if mode == "mixed" and r.random() < 0.5:
                    ops.append(dict(op="app", t=probe, axis=pa, in_place=False))
            ops.append(dict(op="app", t=probe, axis=pa - len(probe_shape) if r.random() < 0.5 else pa, in_place=False))
            case = dict(norm_var=norm_var, ops=ops, profile="metamorphic:" + prof.kind)
            ob = impl_run(post, case)
            hists.append(case)
            outs.append(ob[-1])
            ctx.case(strip(case), nontrivial=True)
            ctx.count("metamorphic:" + mode)
            for what, detail in oracle_check(post, case, ob)[:1]:
                bad.append((what, dict(detail, case=strip(case))))
        # pairwise: same transform
        ref = outs[0]
        tols = add_cond_tolerances(hists[0])["ops"][-1].get("_tol_extra")
        for h in range(1, 4):
            o = outs[h]
            if ref[0] != o[0]:
                bad.append(("histories of the same vectors give different outcomes", dict(a=strip(hists[0]), b=strip(hists[h]))))
                continue
            if ref[0] != "app":
                continue
            for j, (x, y) in enumerate(zip(ref[2], o[2])):
                tol = 2e-9 * max(1.0, abs(x)) + 2 * (tols[j] if tols else 0.0)
                if not close(y, x, tol):
                    bad.append(("histories of the same vectors give different transforms",
                                dict(element=j, a_value=x, b_value=y, tol=tol, a=strip(hists[0]), b=strip(hists[h]))))
                    break
        if len(bad) > 5:
            break
    return bad


def exhaustive_small(ctx, post):
    """Every order (24) and every split into consecutive accumulate calls (8) of one data set of
    four 2-coefficient vectors, chunks laid out alternately as (k, 2) along axis -1, (2, k) along
    axis 0 or single vectors: all 192 histories must give the transform of the two-pass reference."""
    import itertools

    bad = []
    vecs = [[3, -7], [-5, 2], [11, 2], [-1, -12]]
    probe = dict(shape=[2, 2], k=0, nums=[4, -3, 0, 9], dtype="int16")
    for norm_var in (True, False):
        for perm in itertools.permutations(range(4)):
            for cuts in range(8):
                sizes, cur = [], 1
                for b in range(3):
                    if cuts >> b & 1:
                        sizes.append(cur)
                        cur = 1
                    else:
                        cur += 1
                sizes.append(cur)
                ops, i = [], 0
                for j, k in enumerate(sizes):
                    part = [vecs[q] for q in perm[i:i + k]]
                    i += k
                    if k == 1 and j % 2 == 0:
                        ops.append(dict(op="acc", t=dict(shape=[2], k=0, nums=part[0], dtype="int16"), axis=-1))
                    elif j % 2 == 0:
                        ops.append(dict(op="acc", t=mk_tensor(part, [k, 2], 1, 0, "int16"), axis=-1))
                    else:
                        ops.append(dict(op="acc", t=mk_tensor(part, [2, k], 0, 0, "int16"), axis=0))
                ops.append(dict(op="app", t=probe, axis=1, in_place=False))
                case = dict(norm_var=norm_var, ops=ops, profile="exhaustive")
                ctx.case(strip(case), nontrivial=True)
                ctx.count("exhaustive-small")
                b_ = oracle_check(post, case)
                if b_:
                    bad.append((b_[0][0], dict(b_[0][1], case=strip(case))))
                    if len(bad) > 3:
                        return bad
    return bad


# --------------------------------------------------------------------------
# statistics LOADED from a file: several instances, files saved / re-saved / loaded again


# (extension, keyword arguments of the constructor, keyword arguments of save)
FILE_FORMS = [
    ("npy", {}, {}),
    ("npy", {}, {}),
    ("npz", {}, {}),
    ("npz", {"key": "stats"}, {"key": "stats"}),
    ("npz", {}, {"compress": True}),
    ("bin", {"force_as": "file"}, {}),
]
FILE_DIR = os.path.join(C.ROOT, "build", PID, "stats_files", "p%d" % os.getpid())  # (concurrent runs do not share files)


def file_path(case, f):
    return os.path.join(FILE_DIR, "%s_f%d.%s" % (case["tag"], f, FILE_FORMS[case["form"]][0]))


def write_stats(np, path, form, vectors):
    """The sufficient statistics of ``vectors`` (Fractions), written by NumPy itself in the layout
    Standardize.save documents; False when they are not exactly representable in float64."""
    F = len(vectors[0])
    m = [[sum(v[f] for v in vectors) for f in range(F)] + [Fraction(len(vectors))],
         [sum(v[f] ** 2 for v in vectors) for f in range(F)] + [Fraction(0)]]
    if any(Fraction(float(x)) != x for row in m for x in row):
        return False
    arr = np.array([[float(x) for x in row] for row in m], dtype=np.float64)
    ext, _, skw = FILE_FORMS[form]
    if ext == "npy":
        np.save(path, arr)
    elif ext == "npz":
        (np.savez_compressed if skw.get("compress") else np.savez)(path, **{skw.get("key", "arr_0"): arr})
    else:
        arr.tofile(path)
    return True


def gen_file_history(ctx, r, tag):
    """A history over SEVERAL Standardize instances and statistics files: instances accumulate, save
    to a file, other instances are constructed from that file (possibly several from one file, possibly
    after the file was saved again under the same name), accumulate further, and apply."""
    F = r.choice([1, 2, 3, 4])
    dtype = r.choice(["float64", "float64", "float32", "int16", "int32", "uint8"])
    prof = Profile(r, F, dtype, kind=r.choice(["small", "negmean", "wide", "const", "dyadic" if DTYPES[dtype][0] == "f" else "small"]))
    scen = r.choice(["shared-accumulate", "resave", "random"])
    case = dict(kind="loaded", tag=tag, norm_var=r.random() < 0.7, form=r.randrange(len(FILE_FORMS)), scenario=scen,
                profile="loaded:" + prof.kind)
    ops = []

    def acc(i):
        for _ in range(r.choice([1, 1, 2])):
            ops.append(dict(gen_acc(ctx, r, prof), inst=i))

    def app(i):
        o = gen_app(ctx, r, prof)
        ops.append(dict(o, inst=i, in_place=False))

    def put(i, f):
        """file f := the statistics of instance i, by its own save() or (same numbers) by NumPy."""
        ops.append(dict(op="save", inst=i, file=f, by=r.choice(["save", "save", "numpy"])))

    ops.append(dict(op="new", inst=0))
    acc(0)
    put(0, 0)
    if scen == "shared-accumulate":
        # two instances constructed from one file; one accumulates more: the other still has the file's statistics
        ops += [dict(op="load", inst=1, file=0), dict(op="load", inst=2, file=0)]
        if r.random() < 0.5:
            app(1)
        acc(r.choice([1, 2]))
        app(2)
        app(1)
        ops.append(dict(op="load", inst=3, file=0))
        app(3)
    elif scen == "resave":
        # the file is written again, with other statistics, under the same name, and loaded again
        ops.append(dict(op="load", inst=1, file=0))
        if r.random() < 0.7:
            app(1)
        if r.random() < 0.5:
            acc(0)
            put(0, 0)
        else:
            ops.append(dict(op="new", inst=3))
            acc(3)
            put(3, 0)
        ops.append(dict(op="load", inst=2, file=0))
        app(2)
        app(1)
    else:
        have, files, nxt = {0}, {0}, 1
        for _ in range(r.randint(4, 10)):
            u = r.random()
            if u < 0.3:
                ops.append(dict(op="load", inst=nxt, file=r.choice(sorted(files))))
                have.add(nxt)
                nxt += 1
            elif u < 0.5:
                acc(r.choice(sorted(have)))
            elif u < 0.65:
                f = r.choice([0, 1])
                put(r.choice(sorted(have)), f)
                files.add(f)
            else:
                app(r.choice(sorted(have)))
        app(r.choice(sorted(have)))
    if r.random() < 0.4:
        # statistics are computed once and the normalisation chosen later: the instance that writes the file and the
        # ones that read it need not have the same norm_var
        for o in ops:
            if o["op"] in ("new", "load"):
                o["norm_var"] = r.random() < 0.5
    case["ops"] = ops
    return case


def file_history_check(post, case):
    """Run a file history on the implementation, next to the exact reference (per instance: the
    multiset of feature vectors behind the file it was constructed from plus those it accumulated
    itself).  -> list of (what, detail)."""
    np = np_()
    os.makedirs(FILE_DIR, exist_ok=True)
    ext, lkw, skw = FILE_FORMS[case["form"]]
    insts, refs, files, bad, paths = {}, {}, {}, [], set()
    with warnings.catch_warnings():
        warnings.simplefilter("ignore")
        try:
            for i, o in enumerate(case["ops"]):
                k = o.get("inst")
                if o["op"] == "new":
                    nvk = o.get("norm_var", case["norm_var"])
                    insts[k], refs[k] = post.Standardize(norm_var=nvk), Ref(nvk)
                elif o["op"] == "acc":
                    insts[k].accumulate(to_array(o["t"]), axis=o["axis"])
                    refs[k].accumulate(o["t"], o["axis"])
                elif o["op"] == "save":
                    path = file_path(case, o["file"])
                    paths.add(path)
                    files[o["file"]] = (list(refs[k].vectors), refs[k].F)
                    if o["by"] != "numpy" or not write_stats(np, path, case["form"], refs[k].vectors):
                        insts[k].save(path, **skw)
                elif o["op"] == "load":
                    nvk = o.get("norm_var", case["norm_var"])
                    insts[k] = post.Standardize(file_path(case, o["file"]), norm_var=nvk, **lkw)
                    refs[k] = Ref(nvk)
                    refs[k].vectors, refs[k].F = list(files[o["file"]][0]), files[o["file"]][1]
                else:
                    x = to_array(o["t"])
                    y = insts[k].apply(x, axis=o["axis"])
                    exp = refs[k].expected_apply(o["t"], o["axis"])
                    if exp is None or exp[0] != "vals":
                        continue
                    vals = [float(v) for v in np.asarray(y, dtype=np.float64).reshape(-1)]
                    if list(y.shape) != o["t"]["shape"] or str(y.dtype) != "float64":
                        bad.append(("apply result shape / dtype", dict(op_index=i, shape=list(y.shape), dtype=str(y.dtype))))
                        continue
                    for j, (a, et) in enumerate(zip(vals, exp[1])):
                        if et is not None and not close(a, et[0], et[1]):
                            bad.append(("apply value differs from (x - mean)/std of the statistics this instance was given "
                                        "(those in the file when it was constructed plus its own accumulations)",
                                        dict(op_index=i, instance=k, element=j, got=a, expected=et[0], tol=et[1],
                                             n_vectors=len(refs[k].vectors))))
                            break
        except Exception as e:  # noqa: BLE001 - every call of these histories is valid
            bad.append(("a valid call raised %s: %s" % (type(e).__name__, e), dict(op_index=i, op=o["op"])))
        finally:
            for pth in paths:
                if os.path.exists(pth):
                    os.remove(pth)
            try:
                os.rmdir(FILE_DIR)
            except OSError:
                pass
    return bad


def loaded_search(ctx, post, r, rounds):
    bad = []
    for n in range(rounds):
        case = gen_file_history(ctx, r, "s%d_%d" % (ctx.seed, n))
        ctx.count("loaded:" + case["scenario"])
        ctx.count("loaded:form:%s%s" % (FILE_FORMS[case["form"]][0], "".join(":" + k for k in sorted(FILE_FORMS[case["form"]][2]))))
        ctx.count("loaded:loads", sum(1 for o in case["ops"] if o["op"] == "load"))
        ctx.case(strip(case), nontrivial=True)
        for what, detail in file_history_check(post, case)[:1]:
            bad.append((what, dict(detail, case=strip(case))))
        if len(bad) > 5:
            break
    return bad


def wrapped_untouched(ctx, post, r):
    """'the input is untouched unless in_place' when Standardize is reached through the package's own PyTorch wrapper (a
    CPU tensor shares its memory with the array the wrapper hands over): the caller's tensor is unchanged, a second call
    gives the same answer, and the answer is Standardize.apply of the same numbers.  -> list of (what, detail)."""
    np = np_()
    try:
        import torch
        from pydrobert.speech import torch as pst
    except Exception:  # noqa: BLE001 - no torch in this environment: nothing to check
        return []
    bad = []
    rs = np.random.RandomState(r.randrange(2 ** 31))
    with warnings.catch_warnings():
        warnings.simplefilter("ignore")
        for glob in (False, True):
            for dt in (torch.float64, torch.float32):
                for layout in ("whole", "slice"):
                    st = post.Standardize()
                    if glob:
                        st.accumulate(rs.randn(30, 5) * 2.0 + 4.0)
                    w = pst.PyTorchPostProcessorWrapper.from_postprocessor(st)
                    base = torch.from_numpy(rs.randn(12, 5) * 3.0 + 1.0).to(dt)
                    t = base if layout == "whole" else base[2:9]
                    before = base.clone()
                    want = st.apply(t.numpy().copy())
                    desc = dict(kind="standardize-through-torch-wrapper", statistics="accumulated" if glob else "per-utterance",
                                dtype=str(dt), tensor=layout)
                    ctx.count("wrapper:standardize")
                    ctx.case(desc, nontrivial=True)
                    a = w(t).numpy()
                    b = w(t).numpy()
                    if not torch.equal(base, before):
                        bad.append(("Standardize reached through PyTorchPostProcessorWrapper modified the caller's tensor (in_place was not asked for)", desc))
                    elif not np.allclose(a, want, rtol=1e-5, atol=1e-6) or not np.allclose(a, b, rtol=1e-6, atol=1e-7):
                        bad.append(("Standardize reached through PyTorchPostProcessorWrapper: result differs from apply / from a second call", desc))
    return bad


def raw_file_corners(ctx, post, r, rounds):
    """Statistics read from a plain binary file (the one kind of file whose layout and float width the loader has to
    work out for itself): (a) sound float64 statistics with a coefficient that never varied and has many significant
    bits (a log-energy floor) - sum^2 and count * sum-of-squares agree only up to round-off; (b) statistics stored as
    32-bit floats, the object then accumulates further: the transform is that of 'file + everything since', to float64
    precision.  -> list of (what, detail)."""
    np = np_()
    os.makedirs(FILE_DIR, exist_ok=True)
    bad = []
    consts = [math.log(1e-5), 0.1, 1.0 / 3.0, -math.pi, 17.3, -2.5e-3, math.log(1e-10), 1e-5 ** 0.5]
    with warnings.catch_warnings():
        warnings.simplefilter("ignore")
        for n in range(rounds):
            path = os.path.join(FILE_DIR, "raw_s%d_%d" % (ctx.seed, n))
            try:
                if n % 2 == 0:
                    F = r.choice([1, 2, 3, 5])
                    N = r.choice([10, 37, 50, 100, 333, r.randint(2, 500)])
                    cv = r.choice(consts)
                    ccol = r.randrange(F)
                    rs = np.random.RandomState(r.randrange(2 ** 31))
                    data = rs.randn(N, F) * 2.0 + 3.0
                    data[:, ccol] = cv
                    nv = r.random() < 0.7
                    acc = post.Standardize(norm_var=nv)
                    for part in np.array_split(data, r.randint(1, 4)):
                        if len(part):
                            acc.accumulate(part)
                    by = r.choice(["save", "numpy"])
                    if by == "save":
                        acc.save(path)
                    else:
                        st = np.zeros((2, F + 1))
                        st[0, :-1], st[0, -1], st[1, :-1] = data.sum(0), N, (data ** 2).sum(0)
                        st.tofile(path)
                    desc = dict(kind="raw-file-constant-coefficient", F=F, n_vectors=N, constant=cv, constant_column=ccol, norm_var=nv, written_by=by)
                    ctx.count("rawfile:constant-coefficient")
                    ctx.case(desc, nontrivial=True)
                    loaded = post.Standardize(path, norm_var=nv, force_as="file")
                    x = rs.randn(4, F) * 2.0 + 3.0
                    x[:, ccol] = cv
                    y = loaded.apply(x)
                    y0 = acc.apply(x)
                    mean, var = data.mean(0), data.var(0)
                    exp = (x - mean) / (np.sqrt(var) if nv else 1.0)
                    exp[:, ccol] = 0.0  # a zero variance is replaced with 1: x - mean
                    err = float(np.max(np.abs(y - exp) / np.maximum(1.0, np.abs(exp))))
                    if not err <= 1e-6:
                        bad.append(("statistics with a constant coefficient, read from a plain binary file: apply differs from (x - mean)/std",
                                    dict(desc, rel_err=err, x=x.tolist(), got=y.tolist(), expected=exp.tolist())))
                    elif not np.allclose(y, y0, rtol=1e-9, atol=1e-9):
                        bad.append(("apply of the object constructed from the file differs from apply of the object that wrote it", desc))
                else:
                    F = r.choice([2, 4, 6])  # 2(F+1) 32-bit values do not fill a whole number of float64 rows: recognisable
                    rs = np.random.RandomState(r.randrange(2 ** 31))
                    off = r.choice([0.0, 10.0, 100.0, -300.0])
                    N0 = r.choice([50, 1000, 2 ** 24])
                    base = rs.randn(50, F) + off
                    st = np.zeros((2, F + 1), dtype=np.float32)
                    st[0, :-1], st[0, -1], st[1, :-1] = base.sum(0) * (N0 / 50.0), N0, (base ** 2).sum(0) * (N0 / 50.0)
                    st.tofile(path)
                    S = st.astype(np.float64)  # what the file says, exactly
                    nv = r.random() < 0.7
                    desc = dict(kind="raw-file-float32-then-accumulate", F=F, count_in_file=N0, offset=off, norm_var=nv)
                    ctx.count("rawfile:float32")
                    ctx.case(desc, nontrivial=True)
                    loaded = post.Standardize(path, norm_var=nv, force_as="file")
                    steps = r.randint(0, 3)
                    for k in range(steps):
                        if r.random() < 0.5:
                            m = r.choice([1, 200, 3000])
                            for v in rs.randn(m, F) + off:
                                loaded.accumulate(v)
                                S[0, :-1] += v
                                S[1, :-1] += v * v
                                S[0, -1] += 1
                        else:
                            t = rs.randn(r.randint(1, 40), F) + off
                            loaded.accumulate(t)
                            S[0, :-1] += t.sum(0)
                            S[1, :-1] += (t * t).sum(0)
                            S[0, -1] += len(t)
                    desc["accumulate_rounds_after_loading"] = steps
                    x = rs.randn(5, F) + off
                    y = loaded.apply(x)
                    mean = S[0, :-1] / S[0, -1]
                    var = S[1, :-1] / S[0, -1] - mean ** 2
                    if np.any(var < 1e-3):
                        continue  # float32 statistics too coarse to define a variance: nothing to compare
                    exp = (x - mean) / (np.sqrt(var) if nv else 1.0)
                    # float64 cancellation allowance of E[x^2] - mean^2 (as in the main oracle)
                    tol = 1e-9 + 64 * 2.2e-16 * float(np.max((S[1, :-1] / S[0, -1]) / var))
                    err = float(np.max(np.abs(y - exp) / np.maximum(1.0, np.abs(exp))))
                    if str(y.dtype) != "float64" or not err <= tol:
                        bad.append(("statistics loaded from a 32-bit plain binary file (plus what was accumulated since): apply differs from "
                                    "(x - mean)/std of those statistics beyond float64 precision",
                                    dict(desc, rel_err=err, tol=tol, result_dtype=str(y.dtype))))
            except Exception as e:  # noqa: BLE001 - every call here is valid
                bad.append(("a valid call raised %s: %s" % (type(e).__name__, e), dict(desc)))
            finally:
                if os.path.exists(path):
                    os.remove(path)
            if len(bad) > 5:
                break
    # (c) per-speaker statistics in a Kaldi table, selected with key=<name>: each object has the statistics of ITS entry
    try:
        from pydrobert.kaldi.io import open as kaldi_open
    except ImportError:
        kaldi_open = None
    if kaldi_open is not None:
        os.makedirs(FILE_DIR, exist_ok=True)
        with warnings.catch_warnings():
            warnings.simplefilter("ignore")
            for n in range(max(3, rounds // 20)):
                path = os.path.join(FILE_DIR, "tab_s%d_%d.ark" % (ctx.seed, n))
                rs = np.random.RandomState(r.randrange(2 ** 31))
                F = r.choice([1, 3, 4])
                keys = ["spk%d" % k for k in range(r.randint(2, 5))]
                data = {}
                try:
                    with kaldi_open("ark:" + path, "dm", "w") as tab:
                        for k in keys:
                            x = rs.randn(r.randint(5, 40), F) * r.choice([0.5, 2.0]) + 10.0 * keys.index(k)
                            st = np.zeros((2, F + 1))
                            st[0, :-1], st[0, -1], st[1, :-1] = x.sum(0), len(x), (x ** 2).sum(0)
                            tab.write(k, st)
                            data[k] = x
                    order = list(keys)
                    r.shuffle(order)
                    for k in order:
                        nv = r.random() < 0.7
                        desc = dict(kind="kaldi-table-entry", F=F, entries=keys, key=k, norm_var=nv)
                        ctx.count("rawfile:kaldi-table-entry")
                        ctx.case(desc, nontrivial=True)
                        obj = post.Standardize("ark:" + path, norm_var=nv, key=k)
                        more = rs.randn(3, F) + 10.0 * keys.index(k) if r.random() < 0.5 else None
                        allx = data[k]
                        if more is not None:
                            obj.accumulate(more)
                            allx = np.concatenate([allx, more])
                        x = rs.randn(4, F) + 10.0 * keys.index(k)
                        y = obj.apply(x)
                        exp = (x - allx.mean(0)) / (allx.std(0) if nv else 1.0)
                        err = float(np.max(np.abs(y - exp) / np.maximum(1.0, np.abs(exp))))
                        if not err <= 1e-6:
                            bad.append(("statistics loaded from entry %r of a Kaldi table: apply is not (x - mean)/std of that entry's "
                                        "statistics (plus what was accumulated since)" % k, dict(desc, rel_err=err, accumulated_more=more is not None)))
                            break
                except Exception as e:  # noqa: BLE001
                    bad.append(("a valid call raised %s: %s" % (type(e).__name__, e), dict(kind="kaldi-table-entry", entries=keys)))
                finally:
                    if os.path.exists(path):
                        os.remove(path)
                if len(bad) > 5:
                    break
    try:
        os.rmdir(FILE_DIR)
    except OSError:
        pass
    return bad


# --------------------------------------------------------------------------


def regenerate(ctx):
    """-> 'ok' | 'fallback' (structure not recognised: reference kernels, correspondence only)
          | 'unsafe' (a formula the exact model cannot represent: tie broken)."""
    import standardize as gen_std
    from pyexpr import Unsupported

    out = os.path.join(C.COQ, "gen", "StandardizeK.v")
    try:
        gen_std.main(os.path.join(C.SRC, "post.py"), out)
        ctx.cov["translator"] = "ok: coq/gen/StandardizeK.v regenerated from post.py"
        return "ok"
    except gen_std.Unsafe as e:
        gen_std.main(None, out, fallback=True)
        ctx.cov["translator"] = "unsafe: %s" % e
        ctx.fail("translator gen/standardize.py: post.py computes a formula the exact model cannot stand for: %s" % e,
                 dict(correspondence="gen/standardize.py -> coq/gen/StandardizeK.v", error=str(e)), kind="tie", no_input=True)
        return "unsafe"
    except (Unsupported, SyntaxError, OSError, KeyError, IndexError, AttributeError) as e:
        gen_std.main(None, out, fallback=True)
        ctx.cov["translator"] = "fallback: structure of Standardize not recognised (%s); reference kernels used, tie by correspondence only" % e
        ctx.log("translator: structure of Standardize not recognised (%s); using the reference kernels, "
                "the tie rests on the correspondence check alone (cases x3)" % e)
        return "fallback"


def shrink(post, case, pred):
    """Greedy shrink of the op list while ``pred(case)`` still reports a problem."""
    ops = list(case["ops"])
    changed = True
    while changed and len(ops) > 1:
        changed = False
        for i in range(len(ops) - 1, -1, -1):
            trial = dict(case, ops=ops[:i] + ops[i + 1:])
            try:
                if trial["ops"] and pred(trial):
                    ops = trial["ops"]
                    changed = True
            except Exception:  # noqa: BLE001
                pass
    return dict(case, ops=ops)


def run(ctx):
    C.ensure_impl_path()
    import importlib

    post = importlib.import_module("pydrobert.speech.post")
    r = ctx.rng
    gen_state = regenerate(ctx)
    pr = C.proof_step(ctx)
    ctx.cov["trusted_base"].append("translator /verif/gen/standardize.py (Python ast -> scalar kernels over a number structure)")
    ctx.cov["trusted_base"].append("hand-written model coq/C16/Model.v of NumPy plumbing (C-order views, tuple indexing, dispatch), tied by the correspondence below")

    # ---- correspondence
    ncases = ctx.scale(2000, 30000) * (3 if gen_state != "ok" else 1)
    cases = []
    for _ in range(ncases):
        c = gen_history(ctx, r, ctx.scale(7, 10))
        cases.append(add_cond_tolerances(c))
    impl = [impl_run(post, c) for c in cases]
    ctx.log("implementation run on %d histories" % len(cases))
    ok_model, out = C.coq_make(["C16/Model.v"])
    ctx.log("model built")
    models = model_run(ctx, cases) if ok_model else [None] * len(cases)
    ctx.log("model evaluated on %d histories" % len(cases))
    if not ok_model:
        ctx.fail("model no longer compiles", dict(correspondence="coq/C16/Model.v", log_tail=out[-1500:]), kind="tie", no_input=True)
    ctx.cov["rule"] = (
        "one case = one history of accumulate/apply/have_stats calls on one Standardize instance (vectors and 2-4-d "
        "tensors along any axis, 10 dtypes, exact dyadic data incl. dtype-extreme, negative-mean, zero-variance and "
        "near-threshold data, wrong feature dimension, empty, 0-d, bad axis); every observation of the implementation "
        "(exception kind, have_stats, result dtype, aliasing/input untouched, values within 1e-9 + float64 cancellation "
        "allowance) is compared with the model evaluated in Coq; distinct = distinct histories; non-trivial = some apply "
        "uses accumulated or local statistics"
    )
    nbad = 0
    for c, a, m in zip(cases, impl, models):
        nt = nontrivial(c)
        ctx.case(strip(c), nontrivial=nt)
        ctx.count("profile:" + c["profile"])
        for o in c["ops"]:
            ctx.count("op:" + o["op"])
            if o["op"] == "app":
                ctx.count("elements-compared", sum(1 for x in o.get("_tol_extra", []) if x != math.inf))
                ctx.count("illcond-skipped", sum(1 for x in o.get("_tol_extra", []) if x == math.inf))
            if "t" in o:
                ctx.count("dtype:" + o["t"]["dtype"])
                ctx.count("ndim:%d" % len(o["t"]["shape"]))
        for ob in a:
            ctx.count("impl-outcome:" + (ob[0] if ob[0] != "acc" else "acc-" + str(ob[1])) + (":" + ob[1] if ob[0] == "err" else ""))
        if m is None:
            continue
        ctx.cov["traces_validated_against_impl"] += 1
        bad = compare_model(c, a, m)
        if bad and nbad < 5:
            nbad += 1
            small = shrink(post, c, lambda t: bool(compare_model(t, impl_run(post, t), (model_run(ctx, [t], tag="shrink") or [None])[0])))
            small = add_cond_tolerances(small)
            what, detail = (compare_model(small, impl_run(post, small), model_run(ctx, [small], tag="shrink")[0]) or bad)[0]
            ctx.fail("implementation and model disagree (%s): %r" % (what, detail), dict(case=strip(small), detail=detail, correspondence="coq/C16/Model.v run_qc vs Standardize"), kind="correspondence")
    if ok_model and any(m is None for m in models):
        ctx.fail("model evaluation failed for some cases", dict(correspondence="vm_compute of run_qc"), kind="tie", no_input=True)

    # ---- direct search oracle on the implementation
    nfound = 0
    for c, a in zip(cases, impl):
        bad = oracle_check(post, c, a)
        if bad and nfound < 5:
            nfound += 1
            small = shrink(post, c, lambda t: bool(oracle_check(post, t)))
            what, detail = (oracle_check(post, small) or bad)[0]
            ctx.fail("property violated on the implementation (%s): %r" % (what, detail), dict(case=strip(small), detail=detail), kind="impl")
    ctx.log("oracle checked")
    mm = metamorphic(ctx, post, r, ctx.scale(400, 6000))
    mm += exhaustive_small(ctx, post)
    mm += loaded_search(ctx, post, r, ctx.scale(300, 3000))
    mm += raw_file_corners(ctx, post, r, ctx.scale(120, 1200))
    mm += wrapped_untouched(ctx, post, r)
    ctx.log("metamorphic search done")
    for what, detail in mm[:5]:
        ctx.fail("property violated on the implementation (%s)" % what, detail, kind="impl")
    if pr is not None and not pr["ok"] and not ctx.failures:
        ctx.log("search found no failing input on the implementation")
    ctx.assumptions += [
        "float64 rounding is not modelled: values are compared within 1e-9 (relative to max(1,|value|)) plus the cancellation error of E[x^2]-mean^2 in float64 (64 ulp x E[x^2]/var)",
        "np.sum / np.mean / np.square / broadcasting over a C-order array are modelled by the outer x F x inner view",
        "np.isclose(v, 0) means |v| <= 1e-8 (NumPy's default atol)",
    ]
    return C.finish(ctx, "proof")


def replay(ctx, rp):
    C.ensure_impl_path()
    import importlib
    import json

    post = importlib.import_module("pydrobert.speech.post")
    f = rp.get("failure", {})
    case = (f.get("replay") or {}).get("case")
    if not case:
        print(json.dumps(rp, indent=1))
        return 0
    if case.get("kind") == "loaded":
        bad = file_history_check(post, case)
        print("oracle (statistics loaded from files):", bad)
        return 1 if bad else 0
    case = add_cond_tolerances(case)
    impl = impl_run(post, case)
    print("implementation:", impl)
    bad = oracle_check(post, case, impl)
    print("oracle:", bad)
    m = model_run(ctx, [case], tag="replay")[0]
    print("model:", m)
    cm = compare_model(case, impl, m)
    print("correspondence:", cm)
    return 1 if (bad or cm) else 0
