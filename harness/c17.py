"""C17 - saved normalisation statistics reload to the same transform.

Tie: (1) translator gen/stats_io.py regenerates coq/gen/StatsIO.v (decision
tables and conditions of Standardize.save / __init__ / _sanitize_stats and of
read_signal's dispatch) from post.py and util.py; the theorems of coq/C17 are
re-checked against the regenerated text.  (2) correspondence: random sequences
of new / load / accumulate / save / foreign-write / delete / apply operations are
run on the implementation in a scratch directory and on the model inside Coq
(C17/Exec.v, vm_compute); after every operation the observable outcome
(exception class, the object's statistics, the file now at the path) is compared.
Search: direct statement of the property on the implementation.
"""

import json
import math
import os
import re
import shutil
import struct
import sys
import warnings
import zipfile

from . import common as C

sys.path.insert(0, os.path.join(C.ROOT, "gen"))

PID = "C17"
TAG = "p%d" % os.getpid()  # scratch names are per process: concurrent runs do not collide
WORK = os.path.join(C.BUILD, PID, "work", TAG)

REQ = (
    "From Coq Require Import List String Bool ZArith.\n"
    "From Verif Require Import lib.C17_Base gen.StatsIO C17.Model C17.Exec.\n"
    "Import ListNotations.\nOpen Scope Z_scope.\n"
)

EXN_CODES = {1: "ValueError", 2: "IOError", 3: "TypeError", 4: "KeyError", 5: "IndexError",
             6: "AttributeError", 7: "ImportError", 8: "OtherError"}
FORCE_AS = {"table": "FaTable", "wav": "FaWav", "hdf5": "FaHdf5", "npy": "FaNpy", "npz": "FaNpz",
            "pt": "FaPt", "sph": "FaSph", "kaldi": "FaKaldi", "file": "FaFile", "soundfile": "FaSoundfile"}
INFER_CODES = {"table": 0, "wav": 2, "hdf5": 3, "npy": 4, "npz": 5, "pt": 6, "sph": 7, "kaldi": 8, "file": 9}


# --------------------------------------------------------------------------
# regeneration


LAST_GOOD = os.path.join(C.BUILD, PID, "StatsIO.last_good.v")


def regenerate(ctx):
    import stats_io

    out = os.path.join(C.COQ, "gen", "StatsIO.v")
    try:
        stats_io.main(C.SRC, out)
        return True
    except (stats_io.Unsupported, SyntaxError, OSError) as e:
        # fall back to the model of the code as it was when the proofs last passed
        if os.path.exists(LAST_GOOD) and (not os.path.exists(out) or open(out).read() != open(LAST_GOOD).read()):
            shutil.copyfile(LAST_GOOD, out)
        if not C.tie_fallback(ctx, 
            "translator gen/stats_io.py no longer recognises post.py / util.py: %s" % e,
            dict(correspondence="gen/stats_io.py -> coq/gen/StatsIO.v", error=str(e)),
            kind="tie",
            no_input=True,
        ):
            return False
        return True


# --------------------------------------------------------------------------
# encoding of implementation values as Coq terms


def exn_name(e):
    """exception -> the model's class (subclass semantics, as ``except`` sees them)"""
    if isinstance(e, OSError):
        return "IOError"
    for cls, n in ((KeyError, "KeyError"), (IndexError, "IndexError"), (ValueError, "ValueError"), (TypeError, "TypeError"),
                   (AttributeError, "AttributeError"), (ImportError, "ImportError")):
        if isinstance(e, cls):
            return n
    return "OtherError"


def cstr(s):
    assert all(32 <= ord(c) < 127 for c in s), s
    return '"%s"%%string' % s.replace('"', '""')


def copt(x, f):
    return "None" if x is None else "(Some %s)" % f(x)


def cbool(b):
    return "true" if b else "false"


class Enc:
    """float -> cv term; one id per bit pattern of a non-integer float."""

    def __init__(self, np):
        self.np = np
        self.ids = {}

    def v(self, x):
        x = float(x)
        if math.isfinite(x) and x == int(x) and abs(x) < 2 ** 53:
            z = int(x)
            return "(VI (%d))" % z if z < 0 else "(VI %d)" % z
        key = struct.pack("<d", x)
        if key not in self.ids:
            self.ids[key] = len(self.ids) + 1
        np = self.np
        with np.errstate(all="ignore"):
            xx = np.float64(x)
            t = bool(xx)
            i = bool(np.isclose(np.round(xx), xx))
            n = bool(xx >= 0)
        return "(VG %d %s %s %s)" % (self.ids[key], cbool(t), cbool(i), cbool(n))

    def lst(self, xs):
        return "[" + "; ".join(self.v(x) for x in xs) + "]"

    def dt(self, dtype):
        np = self.np
        if dtype == np.float64:
            return "DF64"
        if dtype == np.float32:
            return "DF32"
        return "DOtherT"

    def arr(self, a):
        """ndarray -> arr term, or None when the model has no such shape"""
        if a.ndim == 1:
            return "(Arr1 %s %s)" % (self.dt(a.dtype), self.lst(a.tolist()))
        if a.ndim == 2 and a.shape[0] == 2:
            return "(Arr2 %s %s %s)" % (self.dt(a.dtype), self.lst(a[0].tolist()), self.lst(a[1].tolist()))
        return None


def read_file_obs(np, enc, path):
    """What is on disk at ``path`` -> obs term (independent decoding)."""
    if not os.path.exists(path):
        return "(BFile None)", dict(kind="absent")
    raw = open(path, "rb").read()
    if zipfile.is_zipfile(path):
        with zipfile.ZipFile(path) as zf:
            infos = zf.infolist()
            comp = [i.compress_type != zipfile.ZIP_STORED for i in infos]
            names = [i.filename for i in infos]
        if comp and any(comp) != all(comp):
            return "BAny", dict(kind="npz", mixed=True)
        es = []
        meta = []
        with np.load(path) as z:
            for name in names:
                k = name[:-4] if name.endswith(".npy") else name
                a = z[k]
                t = enc.arr(a) if a.dtype.kind in "fiub" else None
                if t is None:
                    return "BAny", dict(kind="npz", unrepresentable=k)
                es.append("(%s, %s)" % (cstr(k), t))
                meta.append([k, str(a.dtype), list(a.shape)])
        return "(BFile (Some (FNpz %s [%s])))" % (cbool(bool(comp) and all(comp)), "; ".join(es)), dict(kind="npz", entries=meta, compressed=bool(comp) and all(comp))
    if raw[:6] == b"\x93NUMPY":
        a = np.load(path)
        t = enc.arr(a) if a.dtype.kind in "fiub" else None
        if t is None:
            return "BAny", dict(kind="npy", unrepresentable=True)
        return "(BFile (Some (FNpy %s)))" % t, dict(kind="npy", dtype=str(a.dtype), shape=list(a.shape))
    v64 = np.frombuffer(raw[: len(raw) // 8 * 8], dtype=np.float64)
    v32 = np.frombuffer(raw[: len(raw) // 4 * 4], dtype=np.float32)
    return "(BRaw %s %s)" % (enc.lst(v64.tolist()), enc.lst(v32.tolist())), dict(kind="raw", nbytes=len(raw))


# --------------------------------------------------------------------------
# running one operation on the implementation


class Runner:
    def __init__(self, np, post, config, workdir):
        self.np = np
        self.post = post
        self.config = config
        self.dir = workdir
        self.objs = {}
        self.enc = Enc(np)
        self.reinterp = {}  # (dt, key term) -> value term
        self.tables = set()
        self.sfext = set()

    def path_oracles(self, p):
        if re.match(r"^(ark|scp)(,\w+)*:", p):
            self.tables.add(p)
        if p.rsplit(".", maxsplit=1)[-1] in self.config.SOUNDFILE_SUPPORTED_FILE_TYPES:
            self.sfext.add(p)

    def note_views(self, p):
        """Record the re-interpretation oracle for whatever a load of p may look at."""
        np, enc = self.np, self.enc
        if not os.path.isfile(p):
            return
        raw = open(p, "rb").read()
        arrays = []
        if zipfile.is_zipfile(p):
            try:
                with np.load(p) as z:
                    arrays = [z[k] for k in z.files]
            except Exception:
                arrays = []
        elif raw[:6] == b"\x93NUMPY":
            try:
                arrays = [np.load(p)]
            except Exception:
                arrays = []
        else:
            v64 = np.frombuffer(raw[: len(raw) // 8 * 8], dtype=np.float64)
            v32 = np.frombuffer(raw[: len(raw) // 4 * 4], dtype=np.float32)
            self.reinterp[("DF32", enc.lst(v32.tolist()))] = enc.lst(v64.tolist())
            arrays = [v64]
        for a in arrays:
            if a.dtype.kind in "fiub" and a.ndim == 1:
                b = a.astype(np.float64)
                self.reinterp[("DF64", enc.lst(b.tolist()))] = enc.lst(np.frombuffer(b.tobytes(), dtype=np.float32).tolist())

    def stats_obs(self, o):
        st = o._stats
        if st is None:
            return "(BObj None)"
        t = self.enc.arr(st)
        return "BAny" if t is None else "(BObj (Some %s))" % t

    def make_array(self, spec):
        np = self.np
        return np.array(spec["values"], dtype=spec["dtype"]).reshape(spec["shape"])

    def run(self, op):
        """-> (coq op term, coq obs term, info dict)"""
        np, enc = self.np, self.enc
        k = op["op"]
        info = {}
        with warnings.catch_warnings():
            warnings.simplefilter("ignore")
            if k == "new":
                term = "(ONew %d %s)" % (op["i"], cbool(op["nv"]))
                o = self.post.Standardize(norm_var=op["nv"])
                self.objs[op["i"]] = o
                return term, self.stats_obs(o), info
            if k == "load":
                p = op["p"]
                self.path_oracles(p)
                self.note_views(p)
                info["disk"] = disk_kind(p)
                kw = {}
                if op.get("dtype"):
                    kw["dtype"] = {"f64": np.float64, "f32": np.float32}[op["dtype"]]
                if op.get("key") is not None:
                    kw["key"] = op["key"]
                if op.get("force_as"):
                    kw["force_as"] = op["force_as"]
                term = "(OLoad %d %s %s (Kw %s %s %s))" % (
                    op["i"], cstr(p), cbool(op["nv"]),
                    copt(op.get("dtype"), lambda d: {"f64": "DF64", "f32": "DF32"}[d]),
                    copt(op.get("key"), cstr),
                    copt(op.get("force_as"), lambda f: FORCE_AS[f]),
                )
                try:
                    o = self.post.Standardize(p, op["nv"], **kw)
                except Exception as e:
                    info["exn"] = type(e).__name__
                    return term, "(BExn %s)" % exn_name(e), info
                self.objs[op["i"]] = o
                info["loaded"] = True
                return term, self.stats_obs(o), info
            if k == "acc":
                vecs = op["data"]
                term = "(OAcc %d [%s])" % (op["i"], "; ".join(enc.lst(v) for v in vecs))
                o = self.objs[op["i"]]
                if not vecs:
                    a, axis = np.zeros((0, op.get("f", 1))), -1
                else:
                    a = np.array(vecs, dtype=op.get("dtype", "float64"))
                    if op["layout"] == "vec":
                        assert len(vecs) == 1
                        a, axis = a.reshape(-1), -1
                    elif op["layout"] == "cols":
                        a, axis = a.T.copy(), 0
                    elif op["layout"] == "cube":
                        n, f = a.shape
                        a, axis = a.reshape(1, n, f), 2
                    else:
                        axis = -1
                try:
                    o.accumulate(a, axis=axis)
                except Exception as e:
                    info["exn"] = type(e).__name__
                    return term, "(BExn %s)" % exn_name(e), info
                return term, self.stats_obs(o), info
            if k == "save":
                p = op["p"]
                term = "(OSave %d %s %s %s %s)" % (op["i"], cstr(p), copt(op.get("key"), cstr), cbool(op["compress"]), cbool(op["overwrite"]))
                o = self.objs[op["i"]]
                try:
                    o.save(p, key=op.get("key"), compress=op["compress"], overwrite=op["overwrite"])
                except Exception as e:
                    info["exn"] = type(e).__name__
                    return term, "(BExn %s)" % exn_name(e), info
                obs, meta = read_file_obs(np, enc, p)
                info.update(meta)
                info["saved"] = True
                return term, obs, info
            if k == "write":
                p = op["p"]
                if os.path.exists(p):
                    os.remove(p)
                if op["kind"] == "npz":
                    ent = {kk: self.make_array(s) for kk, s in op["entries"]}
                    tmp = "tmp_write.npz"
                    (np.savez_compressed if op["compressed"] else np.savez)(tmp, **ent)
                    os.replace(tmp, p)
                    f = "(FNpz %s [%s])" % (cbool(op["compressed"]), "; ".join("(%s, %s)" % (cstr(kk), enc.arr(ent[kk])) for kk, _ in op["entries"]))
                elif op["kind"] == "npy":
                    a = self.make_array(op["arr"])
                    tmp = "tmp_write.npy"
                    np.save(tmp, a)
                    os.replace(tmp, p)
                    f = "(FNpy %s)" % enc.arr(a)
                else:
                    a = np.array(op["values"], dtype={"f64": np.float64, "f32": np.float32}[op["dtype"]])
                    a.tofile(p)
                    f = "(FRaw %s %s)" % ({"f64": "DF64", "f32": "DF32"}[op["dtype"]], enc.lst(a.tolist()))
                term = "(OWrite %s %s)" % (cstr(p), f)
                obs, meta = read_file_obs(np, enc, p)
                info.update(meta)
                return term, obs, info
            if k == "del":
                p = op["p"]
                if os.path.exists(p):
                    os.remove(p)
                return "(ODel %s)" % cstr(p), "(BFile None)", info
            if k == "apply":
                x = op["x"]
                term = "(OApply %d %s)" % (op["i"], C.zlist(list(x)))
                o = self.objs[op["i"]]
                try:
                    out = o.apply(np.array(x, dtype=np.float64))
                except Exception as e:
                    info["exn"] = type(e).__name__
                    info["apply"] = ("exn", exn_name(e))
                    return term, "(BExn %s)" % exn_name(e), info
                info["apply"] = ("ok", [float(v) for v in out.tolist()], str(out.dtype))
                st = o._stats
                if st is not None and st.ndim == 2 and st.shape[1] > 0:
                    info["count"] = float(st[0, -1])
                    info["scale"] = float(np.max(np.abs(st))) if st.size else 0.0
                return term, "(BApply [])", info
        raise ValueError(k)


# --------------------------------------------------------------------------
# generation of operation sequences (online: each op is run as it is generated)

PATHS = ["a.npy", "b.npy", "s.npz", "t.npz", "u.npz", "raw.bin", "stats", "x.dat", "st.wav", "w.npz.bak",
         "weird.NPY", ".npy", "c.npz.npy", "d.wav.npz"]
KEYS = ["foo", "arr_0", "arr_1", "arr_2", "bar", "a/b", "arr_10", "k"]
ODD_KEYS = ["", "file", "allow_pickle"]


def path_kind(p):
    return "npy" if p.endswith(".npy") else "npz" if p.endswith(".npz") else "raw"


def gen_vectors(r, F, style=None):
    n = r.choice([1, 1, 2, 3, 5])
    style = style or r.choice(["small", "small", "neg", "zeros", "big", "mixed", "zcol"])
    out = []
    for _ in range(n):
        if style == "small":
            v = [r.randint(-9, 9) for _ in range(F)]
        elif style == "neg":
            v = [-r.randint(1, 40) for _ in range(F)]
        elif style == "zeros":
            v = [0] * F
        elif style == "big":
            v = [r.choice([-1, 1]) * r.randint(10 ** 5, 10 ** 6) for _ in range(F)]
        elif style == "zcol":
            v = [0 if j == 0 else r.randint(-9, 9) for j in range(F)]
        else:
            v = [r.choice([0, -3, 7, -100, 1000, r.randint(-50, 50)]) for _ in range(F)]
        out.append(v)
    return out


def gen_foreign(r, p, np, corner):
    """A file not written by save.  core: well-formed files of the kind the name
    announces (archives with other entries, statistics stored by numpy directly,
    float32 raw statistics).  corner: also wrong kinds and garbage."""
    kind = path_kind(p)
    if corner and r.random() < 0.15:
        kind = r.choice(["npy", "npz", "raw"])
    F = r.randint(1, 4)
    n = r.randint(1, 6)

    def stats_like(neg=True):
        s = [r.randint(-30, 30) if neg else r.randint(0, 30) for _ in range(F)]
        q = [abs(x) * r.randint(1, 9) + r.randint(0, 5) for x in s]
        return s + [n], q + [0]

    def spec(dtype, shape, values):
        return dict(dtype=dtype, shape=list(shape), values=values)

    if kind == "npz":
        entries = []
        keys = r.sample(["arr_0", "arr_1", "arr_2", "arr_3", "foo", "other", "k", "arr_10", "arr_00"], r.randint(0, 4))
        for kk in keys:
            u = r.random()
            if u < 0.5:
                s, q = stats_like()
                entries.append([kk, spec("float64", (2, F + 1), s + q)])
            elif u < 0.7:
                m = r.randint(0, 5)
                entries.append([kk, spec(r.choice(["int64", "float32", "float64"]), (m,), [r.randint(-5, 5) for _ in range(m)])])
            elif u < 0.85:
                s, q = stats_like()
                entries.append([kk, spec("float32", (2, F + 1), s + q)])
            else:
                s, q = stats_like()
                entries.append([kk, spec("float64", (2 * (F + 1),), s + q)])
        return dict(op="write", p=p, kind="npz", compressed=r.random() < 0.4, entries=entries)
    if kind == "npy":
        s, q = stats_like()
        u = r.random() if corner else r.random() * 0.75
        if u < 0.4:
            a = spec("float64", (2, F + 1), s + q)
        elif u < 0.6:
            a = spec("float64", (2 * (F + 1),), s + q)  # flat: goes through the sanity check
        elif u < 0.75:
            a = spec("float64", (2, F + 1), s[:-1] + [0] + q)  # count 0
        elif u < 0.9:
            a = spec("float32", (2, F + 1), s + q)
        else:
            a = spec("float64", (2 * F + 1,), [r.randint(-3, 9) for _ in range(2 * F + 1)])
        return dict(op="write", p=p, kind="npy", arr=a)
    # raw
    u = r.random() if corner else r.random() * 0.45
    s, q = stats_like()
    if u < 0.3:
        return dict(op="write", p=p, kind="raw", dtype="f32", values=[float(x) for x in s + q])
    if u < 0.45:
        return dict(op="write", p=p, kind="raw", dtype="f64", values=[float(x) for x in s + q])
    if u < 0.55:
        return dict(op="write", p=p, kind="raw", dtype="f64", values=[float(x) for x in s[:-1]] + [n + 0.5] + [float(x) for x in q])
    if u < 0.65:
        qq = list(q)
        qq[0] = -1 - abs(qq[0])
        return dict(op="write", p=p, kind="raw", dtype="f64", values=[float(x) for x in s + qq])
    if u < 0.72:
        return dict(op="write", p=p, kind="raw", dtype="f64", values=[])
    if u < 0.82:
        m = r.choice([1, 3, 5])
        return dict(op="write", p=p, kind="raw", dtype=r.choice(["f64", "f32"]), values=[float(r.randint(-4, 9)) for _ in range(m)])
    if u < 0.92:
        m = r.choice([2, 4, 6])
        return dict(op="write", p=p, kind="raw", dtype="f64", values=[r.uniform(-5, 5) * 10 ** r.randint(-3, 3) for _ in range(m)])
    return dict(op="write", p=p, kind="raw", dtype="f32", values=[float(x) for x in s[:-1]] + [0.0] + [float(x) for x in q])


def disk_kind(p):
    if not os.path.isfile(p):
        return "absent"
    if zipfile.is_zipfile(p):
        return "npz"
    with open(p, "rb") as f:
        return "npy" if f.read(6) == b"\x93NUMPY" else "raw"


def whole(np, o):
    """the object's statistics are whole finite numbers (so the integer coding follows accumulate)"""
    st = o._stats
    return st is None or bool(np.all(np.isfinite(st)) and np.all(st == np.round(st)) and np.all(np.abs(st) < 2 ** 40))


def gen_case(ctx, rn, length, corner=False):
    """Generate and run one operation sequence; returns (ops, terms, obs, infos).

    core sequences stay inside what the property speaks of: keys that np.savez
    can store, default loader arguments (force_as="file" for raw names, the key
    for archives), well-formed foreign files.  corner sequences add reserved and
    empty keys, explicit dtype, mismatched force_as, garbage files; they are
    informational."""
    r = ctx.rng
    np = rn.np
    ops, terms, obss, infos = [], [], [], []
    F = {}  # slot -> feature count (as far as the generator knows)
    paths = r.sample(PATHS, r.randint(2, 4))
    last_saved = {}  # path -> key used

    def emit(op):
        t, o, info = rn.run(op)
        ops.append(op)
        terms.append(t)
        obss.append(o)
        infos.append(info)
        return info

    def acc_op(i, f):
        lay = r.choice(["rows", "rows", "cols", "vec", "cube"])
        data = gen_vectors(r, f)
        if lay == "vec":
            data = data[:1]
        big = max([abs(x) for v in data for x in v] + [0]) >= 100
        return dict(op="acc", i=i, data=data, layout=lay, f=max(f, 1),
                    dtype="float64" if big else r.choice(["float64", "float64", "float32", "int32", "int16"]))

    emit(dict(op="new", i=0, nv=r.random() < 0.7))
    F[0] = None
    if r.random() < 0.85:
        F[0] = r.randint(1, 4)
        emit(acc_op(0, F[0]))
    while len(ops) < length:
        u = r.random()
        slots = sorted(rn.objs)
        i = r.choice(slots)
        with_stats = [k for k in slots if rn.objs[k]._stats is not None]
        p = r.choice(paths)
        existing = [q for q in paths if os.path.isfile(q)]
        if u < 0.30 and with_stats and r.random() < 0.88:
            i = r.choice(with_stats)
        if 0.30 <= u < 0.58:
            if existing and r.random() < 0.9:
                p = r.choice(existing)
            elif r.random() < 0.8:
                u = r.random() * 0.30  # nothing to load yet: save instead
        if u < 0.30:
            key = None if r.random() < 0.5 else (r.choice(ODD_KEYS) if corner and r.random() < 0.3 else r.choice(KEYS))
            info = emit(dict(op="save", i=i, p=p, key=key, compress=r.random() < 0.4, overwrite=r.random() < 0.55))
            if info.get("saved"):
                last_saved[p] = key
        elif u < 0.58:
            j = r.choice([0, 1, 2])
            kind = path_kind(p)
            on_disk = disk_kind(p)
            dtype = None if not corner or r.random() < 0.6 else r.choice(["f64", "f32"])
            if kind == "raw":
                fa = "file" if not corner or r.random() < 0.8 else r.choice([None, "npy"])
            elif not corner:
                fa = None if r.random() < 0.8 else kind
            else:
                fa = None if r.random() < 0.6 else r.choice([kind, "file", "npy", "npz", "wav"])
            if fa == "file" and on_disk in ("npy", "npz"):
                fa = on_disk  # header bytes through fromfile: outside the model
            key = None
            if kind == "npz" or fa == "npz":
                v = r.random()
                if v < 0.40 and last_saved.get(p) is not None:
                    key = last_saved[p]
                elif v < 0.5:
                    key = r.choice(KEYS + ([""] if corner else []))
                elif v < 0.85 and on_disk == "npz":
                    with np.load(p) as z:
                        names = [k for k in z.files if corner or (z[k].ndim == 2 and k)]
                        key = r.choice(names) if names else None
            if dtype == "f32" and not (on_disk in ("raw", "absent") and fa == "file"):
                dtype = "f64"  # astype(float32) may round; the cast oracle is exact only for views
            info = emit(dict(op="load", i=j, p=p, nv=r.random() < 0.7, dtype=dtype, key=key, force_as=fa))
            if info.get("loaded"):
                st = rn.objs[j]._stats
                F[j] = st.shape[1] - 1 if st.ndim == 2 else None
        elif u < 0.72:
            if not whole(np, rn.objs[i]):
                continue
            if F.get(i) is None:
                f = r.randint(1, 3)
            else:
                f = F[i] if r.random() < 0.9 else F[i] + 1
            if r.random() < 0.05:
                info = emit(dict(op="acc", i=i, data=[], layout="rows", f=max(f, 1), dtype="float64"))
            elif r.random() < 0.04:
                info = emit(dict(op="acc", i=i, data=[[], []], layout="rows", f=1, dtype="float64"))
            else:
                info = emit(acc_op(i, f))
                if "exn" not in info and F.get(i) is None:
                    st = rn.objs[i]._stats
                    F[i] = st.shape[1] - 1 if st is not None and st.ndim == 2 else None
        elif u < 0.80:
            op = gen_foreign(r, p, np, corner)
            if op["kind"] == "npz" and not op["entries"]:
                op["compressed"] = False
            emit(op)
            last_saved.pop(p, None)
        elif u < 0.84:
            emit(dict(op="del", p=p))
            last_saved.pop(p, None)
        elif u < 0.90:
            j = r.choice([0, 1, 2])
            emit(dict(op="new", i=j, nv=r.random() < 0.7))
            F[j] = None
        else:
            f = F.get(i) or r.randint(1, 3)
            if r.random() < 0.1:
                f += 1
            emit(dict(op="apply", i=i, x=[r.randint(-20, 20) for _ in range(f)]))
    return ops, terms, obss, infos


def case_term(rn, terms, obss):
    tbl = "; ".join("(%s, %s, %s)" % (d, k, v) for (d, k), v in rn.reinterp.items())
    ops = "; ".join("(%s, %s)" % (t, o) for t, o in zip(terms, obss))
    return "(Case [%s] [%s] [%s] [%s])" % (
        "; ".join(cstr(p) for p in sorted(rn.tables)),
        "; ".join(cstr(p) for p in sorted(rn.sfext)),
        tbl,
        ops,
    )


def check_apply(info, code, pairs):
    """Compare the implementation's apply outcome with the model's (num, den) pairs.

    The i-th output must be num_i / sqrt(den_i).  Not judged: a count that is not
    positive (the integer coding assumes one), and elements whose exact variance
    is zero or tiny relative to the stored magnitudes (the implementation decides
    "variance is 0" on a rounded float64 difference)."""
    got = info.get("apply")
    if got is None:
        return True, ""
    if code != 0:
        want = EXN_CODES.get(code, "?")
        if got[0] == "exn" and (want == "OtherError" or got[1] == want):
            return True, ""
        return False, "model raises %s, implementation %r" % (want, got[:2])
    if got[0] != "ok":
        return False, "model returns, implementation raised %s" % (got[1],)
    out = got[1]
    if got[2] != "float64":
        return False, "apply returned dtype %s" % got[2]
    if len(out) != len(pairs):
        return False, "apply length %d vs %d" % (len(out), len(pairs))
    cnt = info.get("count")
    if cnt is not None and not (cnt > 0):
        return True, ""
    scale = max(info.get("scale", 0.0), 1.0)
    for o, (num, den) in zip(out, pairs):
        c2 = (cnt or 1.0) ** 2
        if den != c2 and den <= 1e-6 * scale * scale * c2:
            continue
        if den == c2 and scale > 1e5:
            continue
        want = num / math.sqrt(den)
        if not (abs(o - want) <= 1e-9 * max(1.0, abs(want))):
            return False, "apply value %r, model %r" % (o, want)
    return True, ""


def correspondence(ctx, np, post, config, model_ok):
    r = ctx.rng
    ncases = ctx.scale(600, 8000)
    shutil.rmtree(WORK, ignore_errors=True)
    cases = []  # (ops, term, infos)
    cwd = os.getcwd()
    for ci in range(ncases):
        d = os.path.join(WORK, "c%04d" % ci)
        os.makedirs(d)
        os.chdir(d)
        try:
            rn = Runner(np, post, config, d)
            corner = ci % 7 == 6
            ops, terms, obss, infos = gen_case(ctx, rn, r.choice([4, 6, 8, 10, 14]), corner)
            cases.append((ops, case_term(rn, terms, obss), infos, corner))
        finally:
            os.chdir(cwd)
        shutil.rmtree(d, ignore_errors=True)
        roundtrip = any(i.get("saved") for i in infos) and any(i.get("loaded") for i in infos)
        ctx.case(dict(ops=ops, stream="corner" if corner else "core"), nontrivial=roundtrip)
        ctx.count("stream:" + ("corner(informational)" if corner else "core"))
        for op, info in zip(ops, infos):
            ctx.count("op:" + op["op"])
            if op["op"] == "save":
                ctx.count("save:" + path_kind(op["p"]) + (":exn" if "exn" in info else ""))
            if op["op"] == "load":
                ctx.count("load:" + ("ok" if info.get("loaded") else "exn:" + info.get("exn", "?")))
            if op["op"] == "write":
                ctx.count("foreign:" + op["kind"])
    ctx.cov["rule"] = (
        "one case = one random sequence of new/load/accumulate/save/foreign-write/delete/apply operations run on "
        "the implementation in a scratch directory and on the model in Coq; compared after every operation: exception "
        "class, the object's _stats (shape, dtype, values), the file at the path decoded independently (kind, archive "
        "entries in order, compression, raw bytes as float64/float32), apply output against the model's exact "
        "numerator/denominator; non-trivial = the sequence contains a successful save and a successful load"
    )
    if not model_ok:
        return cases, None
    shard = 40
    files = []
    for b in range(0, len(cases), shard):
        body = "Definition cases : list case := [\n%s\n].\n" % ";\n".join(c[1] for c in cases[b:b + shard])
        body += "Eval vm_compute in (check_cases 0 cases).\nEval vm_compute in (applies 0 cases).\n"
        files.append(("%s_corr_%d" % (TAG, b // shard), body))
    res = C.coq_eval_many(ctx, files, REQ)
    bad = []
    for (name, _), (ans, log), b in zip(files, res, range(0, len(cases), shard)):
        if ans is None or len(ans) != 2:
            ctx.fail("correspondence file %s does not evaluate" % name, dict(correspondence="C17/Exec.v run on generated cases", log_tail=(log or "")[-1500:]), kind="tie", no_input=True)
            continue
        mism = C.parse_coq(ans[0])
        appl = C.parse_coq(ans[1])
        for ci, idxs in mism:
            bad.append((b + ci, idxs, "outcome"))
        for ci, k, code, pairs in appl:
            ok, why = check_apply(cases[b + ci][2][k], code, pairs)
            if not ok:
                bad.append((b + ci, [k], "apply: " + why))
        ctx.cov["traces_validated_against_impl"] += min(shard, len(cases) - b)
    info_bad = [b for b in bad if cases[b[0]][3]]
    bad = [b for b in bad if not cases[b[0]][3]]
    ctx.cov["corner_stream_disagreements"] = len(info_bad)
    dump = []
    for ci, idxs, what in info_bad[:5]:
        ops, term, infos, _ = cases[ci]
        k = idxs[0]
        ans, _ = C.coq_eval(ctx, TAG + "_corr_info", "Eval vm_compute in (nth %d (run_case %s) BAny).\n" % (k, term), REQ)
        ctx.log("informational: corner-stream sequence %d disagrees with the model at operation %d (%r): %s; implementation %s, model %s" % (
            ci, k, ops[k], what, json.dumps(infos[k], default=str)[:200], (ans[0] if ans else "?")[:200]))
        dump.append(dict(ops=ops[: k + 1], implementation=infos[k], model=(ans[0] if ans else None)))
    if dump:
        with open(os.path.join(C.BUILD, PID, "corner_disagreements.json"), "w") as fo:
            json.dump(dump, fo, indent=1, default=str)
    for ci, idxs, what in bad[:8]:
        ops, term, infos, _ = cases[ci]
        k = idxs[0]
        # what does the model say there?
        ans, _ = C.coq_eval(ctx, TAG + "_corr_one", "Eval vm_compute in (nth %d (run_case %s) BAny).\n" % (k, term), REQ)
        ctx.fail(
            "model and implementation disagree (%s) at operation %d (%r): implementation %s, model %s"
            % (what, k, ops[k], json.dumps(infos[k], default=str)[:300], (ans[0] if ans else "?")[:300]),
            dict(ops=ops[: k + 1], disagreement_at=k, implementation=infos[k], model=(ans[0] if ans else None),
                 correspondence="C17/Exec.v vs pydrobert.speech.post.Standardize"),
            kind="correspondence",
        )
    return cases, bad


# --------------------------------------------------------------------------
# path inference and numpy API facts


def inference_tie(ctx, np, util, config, model_ok):
    r = ctx.rng
    stems = ["a", "stats", "x.y", "", "dir/f", "ark", "scp", "a.wav", "b.npy", "c.npz", "w", "UP"]
    exts = ["", ".npy", ".npz", ".wav", ".hdf5", ".pt", ".sph", "|", ".NPY", ".npyx", ".flac", ".bin", ".npz.npy", ".npy.npz", ".wav.npy", "npy", ".ogg"]
    pre = ["", "", "", "ark:", "scp:", "ark,t:", "arks:", "xark:"]
    paths = set()
    while len(paths) < ctx.scale(200, 1200):
        paths.add(r.choice(pre) + r.choice(stems) + r.choice(exts) + ("" if r.random() < 0.9 else r.choice(exts)))
    paths = sorted(p for p in paths if all(32 <= ord(c) < 127 for c in p))
    rows = []
    for p in paths:
        tb = bool(re.match(r"^(ark|scp)(,\w+)*:", p))
        sf = p.rsplit(".", maxsplit=1)[-1] in config.SOUNDFILE_SUPPORTED_FILE_TYPES
        try:
            f = util._infer_force_as_from_rfilename(p)
            # a soundfile extension is returned as itself (model: FaSoundfile, code 1)
            code = 1 if (sf and not tb and f == p.rsplit(".", maxsplit=1)[-1]) else INFER_CODES.get(f, -2)
        except IOError:
            code = -1
        tgt = 0 if p.endswith(".npy") else 1 if p.endswith(".npz") else 2
        rows.append((p, tb, sf, code, tgt))
        ctx.count("infer:%d" % code)
    if not model_ok:
        return
    body = "Definition rows := [%s].\n" % "; ".join("(%s, %s, %s, %s, %d)" % (cstr(p), cbool(tb), cbool(sf), "(%d)" % code, tgt) for p, tb, sf, code, tgt in rows)
    body += ("Eval vm_compute in (filter (fun r => let '(p, tb, sf, code, tgt) := r in "
             "negb (Z.eqb (infer_code tb sf p) code && Z.eqb (target_code p) tgt)) rows).\n")
    ans, log = C.coq_eval(ctx, TAG + "_infer", body, REQ)
    if ans is None:
        ctx.fail("inference correspondence does not evaluate", dict(correspondence="infer_force_as", log_tail=log[-1200:]), kind="tie", no_input=True)
        return
    if ans[0].strip() not in ("[]", "nil"):
        ctx.fail("path -> decoder inference differs between model and implementation: %s" % ans[0][:400],
                 dict(correspondence="_infer_force_as_from_rfilename vs gen.StatsIO.infer_force_as", rows=ans[0][:2000]), kind="correspondence")
    for row in rows:
        ctx.case(dict(infer=row[0]), nontrivial=False)


def numpy_facts(ctx, np):
    """The model hard-codes the two parameter names of np.savez that shadow entry names."""
    import inspect

    for fn in (np.savez, np.savez_compressed):
        names = [n for n, p in inspect.signature(fn).parameters.items() if p.kind in (p.POSITIONAL_OR_KEYWORD, p.KEYWORD_ONLY)]
        if sorted(names) != ["allow_pickle", "file"]:
            ctx.fail("np.savez signature changed (%r): the model's reserved entry names are stale" % names,
                     dict(correspondence="Model.savez_positional_name / savez_keyword_name", names=names), kind="tie", no_input=True)


# --------------------------------------------------------------------------
# direct search oracle: the property itself, on the implementation


def search(ctx, np, post):
    """Direct executable statement of the property on the implementation."""
    r = ctx.rng
    bad = []
    d = os.path.join(WORK, "oracle")
    shutil.rmtree(d, ignore_errors=True)
    os.makedirs(d)
    cwd = os.getcwd()
    os.chdir(d)
    nprng = np.random.RandomState(r.randrange(2 ** 31))

    def fail(name, detail):
        bad.append((name, detail))

    def data_set(style=None, F=None, n=None):
        F = F or r.choice([1, 2, 3, 5, 13, 40])
        n = n or r.choice([1, 2, 7, 50])
        style = style or r.choice(["logE", "normal", "big", "tiny", "ints", "zeros", "zcol", "mixedsign", "f32", "bigcount"])
        if style == "logE":
            x = -nprng.gamma(2.0, 5.0, size=(n, F)) - 1.0
        elif style == "normal":
            x = nprng.randn(n, F) * 10 ** r.randint(-2, 3) + r.choice([0, -100, 50])
        elif style == "big":
            x = nprng.randn(n, F) * 1e150
        elif style == "tiny":
            x = nprng.randn(n, F) * 1e-170
        elif style == "ints":
            x = nprng.randint(-1000, 1000, size=(n, F)).astype(r.choice([np.int16, np.int32, np.int64, np.float64]))
        elif style == "zeros":
            x = np.zeros((n, F))
        elif style == "zcol":
            x = nprng.randn(n, F)
            x[:, r.randrange(F)] = 0
        elif style == "f32":
            x = (nprng.randn(n, F) * 3 - 20).astype(np.float32)
        elif style == "bigcount":
            x = nprng.randn(3000, F) - 7
        else:
            x = nprng.randn(n, F) * nprng.choice([-1e3, 1.0, 1e-3], size=(1, F))
        return style, x

    def build(x, nv, byrow):
        o = post.Standardize(norm_var=nv)
        with warnings.catch_warnings():
            warnings.simplefilter("ignore")
            if byrow and len(x) <= 60:
                for row in x:
                    o.accumulate(row)
            else:
                o.accumulate(x)
        return o

    def same_transform(a, b, F, nv, what, detail):
        with warnings.catch_warnings():
            warnings.simplefilter("ignore")
            for shape, axis in (((F,), -1), ((4, F), -1), ((F, 3), 0), ((2, F, 2), 1)):
                x = nprng.randn(*shape) * 5 - 3
                try:
                    ya = a.apply(x, axis=axis)
                except Exception as e:
                    ya = type(e).__name__
                try:
                    yb = b.apply(x, axis=axis)
                except Exception as e:
                    yb = type(e).__name__
                same = (isinstance(ya, str) and ya == yb) or (
                    not isinstance(ya, str) and not isinstance(yb, str) and ya.dtype == yb.dtype and ya.shape == yb.shape and np.array_equal(ya, yb, equal_nan=True))
                if not same:
                    fail(what, dict(detail, norm_var=nv, apply_shape=list(shape), axis=axis,
                                    original=(ya if isinstance(ya, str) else ya.ravel()[:4].tolist()),
                                    reloaded=(yb if isinstance(yb, str) else yb.ravel()[:4].tolist())))
                    return False
        return True

    FOREIGN = lambda: r.choice([  # noqa: E731
        nprng.randn(2, 3), nprng.randint(0, 9, size=(4,)), np.array(3.5), np.array(["a", "bc"]),
        nprng.randn(2, 2, 2).astype(np.float32), np.zeros((0,)), np.array([True, False]), nprng.randn(2, 4)])

    def trial(*a, **k):
        try:
            trial_(*a, **k)
        except Exception as e:  # e.g. the file is not where, or not what, save was asked to write
            fail("oracle_check_crashed", dict(args=[str(v)[:60] for v in a[2:]], exception=type(e).__name__, message=str(e)[:200]))

    def trial_(style, x, kind, p, key, compress, overwrite, existing, nsaves, byrow=False, load_forced=False):
        """existing: absent | own (left by an earlier save of other statistics) | foreign (np.savez archive)"""
        F = x.shape[1]
        originals = {nv: build(x, nv, byrow) for nv in (True, False)}
        s = originals[r.random() < 0.5]
        detail = dict(data_style=style, dtype=str(x.dtype), shape=list(x.shape), sums=s._stats[0, :3].tolist(), path=p,
                      key=key, compress=compress, overwrite=overwrite, existing=existing, saves=nsaves)
        ctx.count("oracle:%s:%s" % (kind, existing))
        ctx.count("oracle-data:" + style)
        if os.path.exists(p):
            os.remove(p)
        others = {}
        if existing == "own":
            o0 = build(nprng.randn(3, r.choice([F, F + 1])) - 2, True, False)
            o0.save(p, key=r.choice([None, "foo", "arr_1"]) if kind == "npz" else None, compress=r.random() < 0.5)
        elif existing == "foreign" and kind == "npz":
            names = r.sample(["arr_0", "arr_1", "arr_2", "arr_4", "foo", "meta", "labels", "Meta", "_x", "arr_00", "arr_"], r.randint(1, 4))
            (np.savez_compressed if r.random() < 0.5 else np.savez)(p, **{nme: FOREIGN() for nme in names})
        if kind == "npz" and os.path.exists(p):
            with np.load(p) as z:
                others = {k: z[k] for k in z.files}
            detail["existing_entries"] = list(others)
        with warnings.catch_warnings():
            warnings.simplefilter("ignore")
            ref = [originals[True].apply(np.ones(F))]
        try:
            for _ in range(nsaves):
                s.save(p, key=key, compress=compress, overwrite=overwrite)
        except Exception as e:
            fail("save_raises", dict(detail, exception=type(e).__name__, message=str(e)[:200]))
            return
        with warnings.catch_warnings():
            warnings.simplefilter("ignore")
            if not np.array_equal(ref[0], originals[True].apply(np.ones(F)), equal_nan=True):
                fail("save_changed_the_object", detail)
        # -- what was written
        if kind == "npy":
            a = np.load(p)
            if a.dtype != np.float64 or a.shape != s._stats.shape or not np.array_equal(a, s._stats, equal_nan=True):
                fail("npy_content", detail)
        elif kind == "raw":
            a = np.fromfile(p, dtype=np.float64)
            if os.path.getsize(p) != 8 * s._stats.size or not np.array_equal(a, s._stats.ravel(), equal_nan=True):
                fail("raw_content", dict(detail, nbytes=os.path.getsize(p), expected=8 * s._stats.size))
        else:
            with zipfile.ZipFile(p) as zf:
                comp = [i.compress_type != zipfile.ZIP_STORED for i in zf.infolist()]
            if comp and (all(comp) != compress or any(comp) != compress):
                fail("npz_compression", dict(detail, deflated=comp))
            with np.load(p) as z:
                files = list(z.files)
                used = key
                if key is None:
                    base = set(others)
                    exp_keys = []  # each save takes the first arr_k unused in what it loaded
                    for _ in range(nsaves):
                        cur = set() if overwrite else base
                        k = 0
                        while "arr_%d" % k in cur:
                            k += 1
                        exp_keys.append("arr_%d" % k)
                        base = cur | {"arr_%d" % k}
                    used = exp_keys[-1]
                    expect = [used] if overwrite else list(others) + exp_keys
                else:
                    expect = ([] if overwrite else list(others)) + ([key] if (overwrite or key not in others) else [])
                if files != expect:
                    fail("npz_entries", dict(detail, entries=files, expected=expect))
                else:
                    for nme, val in others.items():
                        if nme in files and nme != used:
                            got = z[nme]
                            if got.dtype != val.dtype or got.shape != val.shape or not np.array_equal(got, val):
                                fail("npz_other_entry_changed", dict(detail, entry=nme))
                    for k in (exp_keys if key is None and not overwrite else [used]):
                        got = z[k]
                        if got.dtype != np.float64 or not np.array_equal(got, s._stats, equal_nan=True):
                            fail("npz_content", dict(detail, entry=k))
            detail["entry"] = used
        # -- reload
        kw = {}
        if kind == "raw":
            kw["force_as"] = "file"
        elif kind == "npz":
            if not (detail.get("entry") == "arr_0" and r.random() < 0.7):
                kw["key"] = detail.get("entry")
            if load_forced:
                kw["force_as"] = "npz"
        elif load_forced:
            kw["force_as"] = "npy"
        if kind == "npy" and r.random() < 0.35:
            # documented: further keyword arguments go on to the reader (np.load); a memory-mapped read is still a read -
            # the object holds the statistics that were in the file when it was constructed
            kw["mmap_mode"] = r.choice(["r", "c"])
            ctx.count("search:reload-mmap")
        lk = {k: str(v) for k, v in kw.items()}
        reloaded = {}
        for nv in (True, False):
            try:
                with warnings.catch_warnings():
                    warnings.simplefilter("ignore")
                    reloaded[nv] = post.Standardize(p, norm_var=nv, **kw)
            except Exception as e:
                fail("reload_raises", dict(detail, load_kwargs=lk, exception=type(e).__name__, message=str(e)[:200]))
                return
            if not same_transform(originals[nv], reloaded[nv], F, nv, "reload_differs", dict(detail, load_kwargs=lk)):
                return
        # -- the reloaded object goes on like the original: accumulate more, save elsewhere, reload
        more = nprng.randn(2, F) * 3 - 1
        kind2, p2 = r.choice([("npy", "second.npy"), ("npz", "second.npz"), ("raw", "second.bin")])
        try:
            with warnings.catch_warnings():
                warnings.simplefilter("ignore")
                originals[True].accumulate(more)
                reloaded[True].accumulate(more)
                if os.path.exists(p2):
                    os.remove(p2)
                reloaded[True].save(p2, compress=compress)
                third = post.Standardize(p2, **({"force_as": "file"} if kind2 == "raw" else {}))
        except Exception as e:
            fail("reloaded_object_unusable", dict(detail, load_kwargs=lk, second=p2, exception=type(e).__name__, message=str(e)[:200]))
            return
        if same_transform(originals[True], reloaded[True], F, True, "continued_accumulation_differs", dict(detail, load_kwargs=lk)):
            same_transform(originals[True], third, F, True, "second_generation_differs", dict(detail, load_kwargs=lk, second=p2))
        # -- a later save to the same path (by the object that accumulated more) does not reach into objects loaded earlier
        try:
            with warnings.catch_warnings():
                warnings.simplefilter("ignore")
                if kind == "npz":
                    originals[True].save(p, key=detail.get("entry"), compress=compress, overwrite=True)
                else:
                    originals[True].save(p)
        except Exception as e:
            fail("save_again_raises", dict(detail, load_kwargs=lk, exception=type(e).__name__, message=str(e)[:200]))
            return
        same_transform(originals[False], reloaded[False], F, False, "object_loaded_earlier_changed_by_a_later_save_to_its_file", dict(detail, load_kwargs=lk))
        ctx.case(dict(oracle=detail), nontrivial=True)

    names = {"npy": ["o.npy", "x.y.npy", "o.npz.npy"], "npz": ["o.npz", "o.npy.npz"],
             "raw": ["o.bin", "o_stats", "o.npz.old", "o.NPZ", "o_npy", "onpz", "o.npy.txt"]}
    # exhaustive small scope: every target x key x compress x overwrite x what is already there
    for style in ("logE", "zcol"):
        _, x = data_set(style, F=3, n=4)
        for kind in ("npy", "npz", "raw"):
            for existing in (("absent", "own", "foreign") if kind == "npz" else ("absent", "own")):
                for key in ((None, "foo", "arr_0", "arr_1") if kind == "npz" else (None, "foo")):
                    for compress in (False, True):
                        for overwrite in (False, True):
                            trial(style, x, kind, names[kind][0], key, compress, overwrite, existing, 1 if kind != "npz" else r.choice([1, 2]))
    # random
    for it in range(ctx.scale(250, 3000)):
        style, x = data_set()
        kind = r.choice(["npy", "npz", "raw"])
        trial(style, x, kind, r.choice(names[kind]),
              None if r.random() < 0.5 else r.choice(["foo", "arr_0", "arr_3", "stats/x", "arr_1"]),
              r.random() < 0.5, r.random() < 0.5,
              r.choice(["absent", "own", "foreign"] if kind == "npz" else ["absent", "own"]),
              r.choice([1, 1, 2, 3]), byrow=r.random() < 0.5, load_forced=r.random() < 0.25)
    # -- no statistics
    for p in ("n.npy", "n.npz", "n.bin"):
        for pre in (False, True):
            if pre:
                s = post.Standardize()
                s.accumulate(np.ones((2, 2)))
                s.save(p)
                before = open(p, "rb").read()
            elif os.path.exists(p):
                os.remove(p)
            for obj in ("fresh", "zero"):
                if obj == "fresh":
                    e0 = post.Standardize()
                else:
                    np.save("zero.npy", np.zeros((2, 3)))
                    e0 = post.Standardize("zero.npy")
                try:
                    e0.save(p, key=r.choice([None, "foo"]), compress=r.random() < 0.5, overwrite=r.random() < 0.5)
                    fail("save_without_stats_returns", dict(path=p, object=obj, existing=pre))
                except ValueError:
                    pass
                except Exception as e:
                    fail("save_without_stats_wrong_exception", dict(path=p, object=obj, existing=pre, exception=type(e).__name__))
                if pre and open(p, "rb").read() != before:
                    fail("save_without_stats_modified_file", dict(path=p, object=obj))
                if not pre and os.path.exists(p):
                    fail("save_without_stats_created_file", dict(path=p, object=obj))
                ctx.count("oracle:no-stats")
    os.chdir(cwd)
    shutil.rmtree(d, ignore_errors=True)
    return bad


# --------------------------------------------------------------------------
# corner cases outside the property's preconditions (coq/C17/Corners.v)

# stable keys of corner behaviours that should be REPORTED as findings (then they
# need a ``known:`` line in known_findings.txt).  Empty: they are only logged.
REPORT_KEYS = set()


def corners(ctx, np, post):
    d = os.path.join(WORK, "corners")
    shutil.rmtree(d, ignore_errors=True)
    os.makedirs(d)
    cwd = os.getcwd()
    os.chdir(d)
    seen = {}

    def outcome(f):
        try:
            with warnings.catch_warnings():
                warnings.simplefilter("ignore")
                return ("ok", f())
        except Exception as e:
            return ("exn", type(e).__name__)

    try:
        s = post.Standardize()
        s.accumulate(np.array([[1.0, -2.0], [3.0, -5.0]]))
        a = outcome(lambda: s.save("ap.npz", key="allow_pickle"))
        files = outcome(lambda: list(np.load("ap.npz").files))
        b = outcome(lambda: post.Standardize("ap.npz", key="allow_pickle")._stats.tolist())
        seen["npz-key-allow_pickle-lost"] = (a[0] == "ok" and files == ("ok", []) and b == ("exn", "KeyError"),
                                             dict(call='save("ap.npz", key="allow_pickle")', save=a, entries=files, reload=b))
        a = outcome(lambda: s.save("f.npz", key="file"))
        seen["npz-key-file-typeerror"] = (a == ("exn", "TypeError"), dict(call='save("f.npz", key="file")', save=a))
        a = outcome(lambda: s.save("e.npz", key=""))
        b = outcome(lambda: post.Standardize("e.npz", key="")._stats.tolist())
        seen["npz-key-empty-unloadable"] = (a[0] == "ok" and b == ("exn", "KeyError"), dict(call='save("e.npz", key=""); Standardize("e.npz", key="")', save=a, reload=b))
        s.save("r.bin")
        b = outcome(lambda: bool(post.Standardize("r.bin", force_as="file", dtype=np.float64).have_stats))
        seen["raw-explicit-dtype-1d"] = (b == ("exn", "IndexError"), dict(call='Standardize("r.bin", force_as="file", dtype=np.float64).have_stats', result=b))
        b = outcome(lambda: post.Standardize("r.bin")._stats.tolist())
        seen["raw-needs-force_as"] = (b[0] == "exn", dict(call='Standardize("r.bin")', result=b))
    finally:
        os.chdir(cwd)
        shutil.rmtree(d, ignore_errors=True)
    ok, out = C.coq_make(["C17/Corners.v"])
    ctx.log("corner cases outside the preconditions (model witnesses in C17/Corners.v %s): %s" % (
        "hold" if ok else "NO LONGER HOLD", ", ".join("%s=%s" % (k, "present" if v[0] else "absent") for k, v in seen.items())))
    ctx.cov["corner_cases"] = {k: dict(present=v[0], **v[1]) for k, v in seen.items()}
    ctx.cov["corner_witnesses_hold_in_model"] = ok
    for k, (present, detail) in seen.items():
        if present and k in REPORT_KEYS:
            ctx.fail("corner case outside the proved preconditions: %s %r" % (k, detail), dict(check=k, input=detail), kind="impl", key=k)


def run(ctx):
    C.ensure_impl_path()
    import importlib

    import numpy as np

    post = importlib.import_module("pydrobert.speech.post")
    util = importlib.import_module("pydrobert.speech.util")
    config = importlib.import_module("pydrobert.speech.config")
    ok_gen = regenerate(ctx)
    pr = C.proof_step(ctx)
    if ok_gen and pr["ok"]:
        os.makedirs(os.path.dirname(LAST_GOOD), exist_ok=True)
        shutil.copyfile(os.path.join(C.COQ, "gen", "StatsIO.v"), LAST_GOOD)
    ctx.cov["trusted_base"].append("translator /verif/gen/stats_io.py (Python ast -> decision tables and conditions of gen/StatsIO.v)")
    ctx.cov["trusted_base"].append("numpy codecs (np.save/np.load/np.savez/tofile/fromfile/frombuffer/astype) as oracles; file system as a finite map")
    ok_exec, out = C.coq_make(["C17/Exec.v"])
    if not ok_exec:
        ctx.fail("executable model C17/Exec.v no longer compiles against the regenerated gen/StatsIO.v",
                 dict(correspondence="coq/C17/Exec.v", log_tail=out[-1500:]), kind="tie", no_input=True)
    numpy_facts(ctx, np)
    inference_tie(ctx, np, util, config, ok_exec)
    cases, bad = correspondence(ctx, np, post, config, ok_exec)
    found = search(ctx, np, post)
    corners(ctx, np, post)
    for name, detail in found[:10]:
        ctx.fail("property violated on the implementation (%s): %s" % (name, json.dumps(detail, default=str)[:400]),
                 dict(check=name, input=detail), kind="impl")
    if ((pr is not None and not pr["ok"]) or not ok_gen) and not found and not bad:
        ctx.log("search found no failing input on the implementation")
    ctx.assumptions += [
        "float64 arithmetic is not modelled: stored numbers are abstract, classified only by bool(x), isclose(round(x), x), x >= 0",
        "for finite data accumulate yields a whole positive count and non-negative sums of squares (proved for integers; hypothesis of accumulated_stats_are_good otherwise)",
        "np.save/np.load, np.savez/np.load, tofile/fromfile round-trip arrays exactly; archive member names are the keys",
        "paths are plain file names: no Kaldi-table prefix, extension not claimed by soundfile (else pass force_as)",
    ]
    shutil.rmtree(WORK, ignore_errors=True)
    for f in os.listdir(os.path.join(C.BUILD, PID)):
        if f.startswith(TAG + "_") or f.startswith("." + TAG + "_"):
            try:
                os.remove(os.path.join(C.BUILD, PID, f))
            except OSError:
                pass
    return C.finish(ctx, "proof")


def replay(ctx, rp):
    """Re-run the recorded operation sequence / oracle input on the implementation."""
    C.ensure_impl_path()
    import importlib

    import numpy as np

    post = importlib.import_module("pydrobert.speech.post")
    config = importlib.import_module("pydrobert.speech.config")
    f = rp["failure"]["replay"]
    print(json.dumps(f, indent=1, default=str)[:4000])
    if "ops" in f:
        d = os.path.join(WORK, "replay")
        shutil.rmtree(d, ignore_errors=True)
        os.makedirs(d)
        cwd = os.getcwd()
        os.chdir(d)
        try:
            rn = Runner(np, post, config, d)
            for op in f["ops"]:
                t, o, info = rn.run(op)
                print(op, "->", o[:200], info)
        finally:
            os.chdir(cwd)
    return 1
