"""C18 - pre-processors apply the documented sample-wise transforms.

Tie 1 (translator): gen/pre.py regenerates coq/gen/Pre.v - the bodies of
Dither.apply / Preemphasize.apply (pre.py) and pytorch_preemphasize /
pytorch_dither (torch.py) as programs of the array language of
coq/C18/Model.v; the theorems of coq/C18 are re-checked against that text.

Tie 2 (correspondence): recorded calls of the implementation (all dtypes,
in_place settings, axis values, lengths from 0, dyadic / default / random
coefficients, integers, full-precision floats, signed zeros, subnormals, inf,
nan) are replayed inside Coq on the generated programs with Flocq's IEEE-754
binary64 / binary32 arithmetic and compared BIT FOR BIT (values, input array
after the call, aliasing, DeprecationWarning).  A difference that is only a
rounding-level one (<= 1e-9 relative) is counted, not reported.

Search: a direct executable statement of the property on the implementation.
"""

import hashlib
import math
import os
import sys
import warnings

from . import common as C

sys.path.insert(0, os.path.join(C.ROOT, "gen"))

DTYPES = [
    ("float64", "F64"), ("float32", "F32"), ("float16", "F16"),
    ("int8", "I8"), ("int16", "I16"), ("int32", "I32"), ("int64", "I64"),
    ("uint8", "U8"), ("uint16", "U16"), ("uint32", "U32"), ("uint64", "U64"),
]
COQDT = dict(DTYPES)
REQ = ("From Coq Require Import ZArith List Bool.\nFrom Verif Require Import C18.Model C18.F64 C18.Eval.\n"
       "Import ListNotations.\nOpen Scope Z_scope.\n")


def cb(x):
    return "true" if x else "false"


def zz(n):
    return "(%d)" % n if n < 0 else "%d" % n


# ------------------------------------------------------------------ encoding
def enc_inp(v, is_int):
    if is_int:
        return "NI %s" % zz(int(v))
    f = float(v)
    if f != f:
        return "NNan"
    if math.isinf(f):
        return "NInf %s" % cb(f < 0)
    if f == 0:
        return "NZ %s" % cb(math.copysign(1.0, f) < 0)
    m, e = math.frexp(f)
    M, E = int(m * (1 << 53)), e - 53
    while M % 2 == 0:
        M //= 2
        E += 1
    return "NF %s %s" % (zz(M), zz(E))


def enc_repr(v, is_int, prec=53, emin=-1074):
    """Canonical (Flocq) form of an observed value."""
    if is_int:
        return "RInt %s" % zz(int(v))
    f = float(v)
    if f != f:
        return "RNan"
    if math.isinf(f):
        return "RInf %s" % cb(f < 0)
    s = math.copysign(1.0, f) < 0
    if f == 0:
        return "RZero %s" % cb(s)
    m, e = math.frexp(abs(f))
    Mf = m * (1 << prec)
    M, E = int(Mf), e - prec
    if M != Mf:
        raise ValueError("value %r not representable with %d bits" % (f, prec))
    if E < emin:
        sh = emin - E
        if M % (1 << sh):
            raise ValueError("value %r below the subnormal grid" % f)
        M >>= sh
        E = emin
    return "RFin %s %d %s" % (cb(s), M, zz(E))


def dec_repr(t):
    tag, s, m, e = t
    if tag == 0:
        return m
    if tag == 1:
        return (-1.0 if s else 1.0) * math.ldexp(float(m), e)
    if tag == 2:
        return -0.0 if s else 0.0
    if tag == 3:
        return -math.inf if s else math.inf
    return math.nan


def jlist(a):
    """JSON-able exact rendering of an array (floats as hex)."""
    if a.dtype.kind in "iu":
        return [int(v) for v in a]
    return [float(v).hex() for v in a.astype("float64")]


def unj(lst, np, dt):
    if np.dtype(dt).kind in "iu":
        return np.array(lst, dtype=dt)
    return np.array([float.fromhex(v) for v in lst], dtype="float64").astype(dt)


# --------------------------------------------------------------- generators
def rand_values(r, np, dt, n, style):
    dt = np.dtype(dt)
    if dt.kind in "iu":
        info = np.iinfo(dt)
        if style == "small":
            lo, hi = max(info.min, -100), min(info.max, 100)
        elif style in ("mid", "dyadic"):
            lo, hi = max(info.min, -30000), min(info.max, 30000)
        elif style == "special":
            pool = [info.min, info.max, 0, 1, info.max // 2, min(info.max, 2 ** 53 + 1), min(info.max, 2 ** 53 - 1)]
            return np.array([r.choice(pool) for _ in range(n)], dtype=dt)
        else:
            lo, hi = info.min, info.max
        return np.array([r.randint(lo, hi) for _ in range(n)], dtype=dt)
    with np.errstate(all="ignore"):
        if style == "small":
            v = [float(r.randint(-100, 100)) for _ in range(n)]
        elif style in ("mid", "dyadic"):
            v = [r.randint(-2 ** 10, 2 ** 10) / 2.0 ** r.randint(0, 4) for _ in range(n)]
        elif style == "special":
            fi = np.finfo(dt)
            pool = [0.0, -0.0, 1.0, -1.0, float(fi.tiny), float(fi.smallest_subnormal), -float(fi.smallest_subnormal),
                    float(fi.max), -float(fi.max), math.inf, -math.inf, math.nan, float(fi.eps), 1.0 + float(fi.eps)]
            v = [r.choice(pool) for _ in range(n)]
        else:
            sc = 10 ** r.uniform(-3, 3 if dt.itemsize > 2 else 1)
            v = [r.gauss(0, 1) * sc for _ in range(n)]
        return np.array(v, dtype="float64").astype(dt)


def tame(np, r, x, ceff, which):
    """Keep integer signals where the float64 result fits the dtype (the C cast
    of an out-of-range value is undefined and therefore not compared)."""
    dt = x.dtype
    if dt.kind not in "iu" or not len(x):
        return x
    info = np.iinfo(dt)
    a = abs(ceff)
    if which == "dither":
        room = int(math.ceil(8 * a)) + 1
        lim = info.max - room
        lo = room if dt.kind == "u" else -lim
        if lim <= lo or a > 1e6:
            return x
        return np.clip(x, lo, lim).astype(dt)
    lim = int(info.max / (1 + a)) - 1
    if lim < 1 or a > 1e6:
        return x
    if dt.kind == "i":
        return np.clip(x, -lim, lim).astype(dt)
    y = np.clip(x, 0, lim).astype(dt)
    if 0 < ceff <= 1:
        y = np.sort(y)
    elif ceff > 1:
        pass  # cannot stay non-negative in general
    return y


def rand_len(r, hi):
    u = r.random()
    if u < 0.12:
        return r.choice([0, 1, 2, 3])
    return r.randint(0, hi)


def rand_coeff(r, nonneg):
    u = r.random()
    if u < 0.2:
        return None  # default constructor
    if u < 0.5:
        c = r.choice([0.5, 0.96875, 0.9375, 1.0, 0.25, 2.0, -0.5, 0.0, -1.0, 0.75, 3.0, 1, 0, 2])
    elif u < 0.85:
        c = r.uniform(-1.5, 1.5)
    else:
        c = r.choice([0.97, 0.95, 0.9, 1e-3, -0.97, 1e3, 1e-300, 5e-324])
    if nonneg:
        c = abs(c)
    return c


def rand_call(r):
    ip = r.choice([False, True, "default"])
    u = r.random()
    axis = "omit" if u < 0.7 else r.choice([None, -1, 0])
    return ip, axis


def do_apply(np, obj, x, ip, axis, seed=None):
    """Call apply on a private copy; return (out, input_after, shares, warned)."""
    inp = x.copy()
    kw = {}
    if ip != "default":
        kw["in_place"] = ip
    if axis != "omit":
        kw["axis"] = axis
    with warnings.catch_warnings(record=True) as w, np.errstate(all="ignore"):
        warnings.simplefilter("always")
        if seed is not None:
            np.random.seed(seed)
        out = obj.apply(inp, **kw)
    warned = any(issubclass(i.category, DeprecationWarning) for i in w)
    if out.size:
        shares = bool(np.shares_memory(out, inp))
    else:  # zero-size arrays never "share memory": fall back to object identity / view-of
        shares = out is inp or getattr(out, "base", None) is inp
    return out, inp, shares, warned


def mk_obj(pre, which, c):
    cls = pre.Preemphasize if which == "preemph" else pre.Dither
    return cls() if c is None else cls(c)


def describe(which, c, dt, x, ip, axis, seed=None, style=None):
    d = dict(cls="Preemphasize" if which == "preemph" else "Dither", coeff=None if c is None else repr(c),
             dtype=str(dt), x=jlist(x), in_place=ip, axis=axis)
    if seed is not None:
        d["seed"] = seed
    if style:
        d["style"] = style
    return d


# ------------------------------------------------- correspondence: numpy side
def np_cases(ctx, np, pre, n_cases, maxlen):
    r = ctx.rng
    cases = []
    styles = ["small", "mid", "dyadic", "full", "full", "special", "wide"]
    for k in range(n_cases):
        which = "preemph" if r.random() < 0.6 else "dither"
        dtn, cdt = DTYPES[k % len(DTYPES)] if k < 4 * len(DTYPES) else r.choice(DTYPES)
        dt = np.dtype(dtn)
        style = r.choice(styles)
        if style == "wide" and dt.kind == "f":
            style = "full"
        n = rand_len(r, maxlen)
        x = rand_values(r, np, dt, n, style)
        c = rand_coeff(r, nonneg=(which == "dither"))
        if r.random() < 0.85:
            if dt.kind == "u" and which == "preemph" and c is not None and c > 1:
                c = 0.5
            ceff = float(c) if c is not None else (0.97 if which == "preemph" else 1.0)
            x = tame(np, r, x, ceff, which)
        ip, axis = rand_call(r)
        seed = r.randrange(2 ** 32) if which == "dither" else None
        g = None
        if which == "dither":
            np.random.seed(seed)
            g = np.random.standard_normal(n)
        cases.append(dict(which=which, dt=dt, cdt=cdt, style=style, x=x, c=c, ip=ip, axis=axis, seed=seed, g=g))
    return cases


def coq_ncase(np, case, out, after, alias, warned, obj):
    dt = case["dt"]
    isint = dt.kind in "iu"
    ceff = float(obj.coeff)
    ax = case["axis"]
    axs = "None" if ax in ("omit", None) else "(Some %s)" % zz(ax)
    return ("{| n_which := %s; n_coeff := %s; n_in_place := %s; n_axis := %s; n_dtype := %s;\n"
            "   n_x := [%s];\n   n_g := [%s];\n   n_out := [%s];\n   n_after := [%s];\n   n_alias := %s; n_warn := %s |}" % (
                "WPreemph" if case["which"] == "preemph" else "WDither",
                enc_inp(ceff, False),
                cb(case["ip"] is True), axs, case["cdt"],
                "; ".join(enc_inp(v, isint) for v in case["x"]),
                "; ".join(enc_inp(v, False) for v in (case["g"] if case["g"] is not None else [])),
                "; ".join(enc_repr(v, isint) for v in out),
                "; ".join(enc_repr(v, isint) for v in after),
                cb(alias), cb(warned)))


def soft_equal(np, model, obs, isint, tol, scale):
    if len(model) != len(obs):
        return False
    for a, b in zip(model, obs):
        if isint:
            if abs(int(a) - int(b)) > 1:
                return False
            continue
        a, b = float(a), float(b)
        if a != a or b != b:
            if not (a != a and b != b):
                return False
            continue
        if math.isinf(a) or math.isinf(b):
            if a != b:
                return False
            continue
        if abs(a - b) > tol * max(abs(a), abs(b), scale):
            return False
    return True


def run_np_correspondence(ctx, np, pre, have_model):
    n_cases = ctx.scale(700, 12000)
    maxlen = ctx.scale(24, 64)
    cases = np_cases(ctx, np, pre, n_cases, maxlen)
    terms, kept = [], []
    for case in cases:
        which, dt, x = case["which"], case["dt"], case["x"]
        desc = describe(which, case["c"], dt, x, case["ip"], case["axis"], case["seed"], case["style"])
        try:
            obj = mk_obj(pre, which, case["c"])
            out, after, alias, warned = do_apply(np, obj, x, case["ip"], case["axis"], case["seed"])
        except Exception as e:  # the property quantifies over all of these inputs
            ctx.fail("apply raised %s: %s on %r" % (type(e).__name__, e, {k: desc[k] for k in ("cls", "coeff", "dtype", "in_place", "axis")}),
                     dict(check="apply-raises", input=desc, error="%s: %s" % (type(e).__name__, e)), kind="impl")
            continue
        ctx.count("np:%s:%s" % (which, dt.name))
        ctx.count("len:%s" % ("0" if len(x) == 0 else "1" if len(x) == 1 else "2-8" if len(x) <= 8 else ">8"))
        ctx.count("style:" + case["style"])
        ctx.count("in_place:%s" % case["ip"])
        ctx.count("axis:%s" % (case["axis"],))
        ctx.count("coeff:%s" % ("default" if case["c"] is None else "zero" if case["c"] == 0 else "dyadic" if float(case["c"]) * 64 == int(float(case["c"]) * 64) else "general"))
        ctx.case(desc, nontrivial=len(x) >= 2)
        if out.dtype != dt or out.shape != x.shape:
            ctx.fail("%s.apply returned dtype %s shape %s for input dtype %s shape %s" % (desc["cls"], out.dtype, out.shape, dt, x.shape),
                     dict(check="dtype-shape", input=desc, observed=dict(dtype=str(out.dtype), shape=list(out.shape))), kind="impl")
            continue
        try:
            terms.append(coq_ncase(np, case, out, after, alias, warned, obj))
        except ValueError as e:
            ctx.fail("value outside the dtype's grid: %s" % e, dict(check="representable", input=desc), kind="impl")
            continue
        kept.append((case, desc, out, after, alias, warned, obj))
    if not have_model or not terms:
        return
    shard = 100
    files = []
    for i in range(0, len(terms), shard):
        body = "Definition cases : list ncase := [\n%s\n].\nEval vm_compute in (nmism cases).\n" % ";\n".join(terms[i:i + shard])
        files.append(("np_%d" % (i // shard), body))
    res = C.coq_eval_many(ctx, files, REQ)
    soft = 0
    for fi, (ans, log) in enumerate(res):
        base = fi * shard
        if ans is None or len(ans) != 1:
            ctx.fail("correspondence file np_%d did not evaluate" % fi,
                     dict(correspondence="build/C18/np_%d.v" % fi, log_tail=(log or "")[-1500:]), kind="tie", no_input=True)
            continue
        mism = C.parse_coq(ans[0])
        ctx.cov["traces_validated_against_impl"] += min(shard, len(terms) - base) - len(mism)
        for (i, rt) in mism:
            case, desc, out, after, alias, warned, obj = kept[base + i]
            ok, mout, mafter, malias, castable, mwarn = rt
            dt = case["dt"]
            isint = dt.kind in "iu"
            mo = [dec_repr(t) for t in mout]
            ma = [dec_repr(t) for t in mafter]
            problems = []
            if not ok:
                problems.append("the model raises, the implementation returned a value")
            if malias != alias:
                problems.append("aliasing: model %s, implementation %s" % (malias, alias))
            if mwarn != warned:
                problems.append("DeprecationWarning: model %s, implementation %s" % (mwarn, warned))
            tol = 1e-9 if dt.itemsize >= 8 or isint else 1e-6 if dt.itemsize == 4 else 2e-3
            finite = [abs(float(v)) for v in case["x"] if float(v) == float(v) and not math.isinf(float(v))]
            scale = (max(finite) if finite else 0.0) * (1 + abs(float(obj.coeff))) + abs(float(obj.coeff))
            aft_obs = [int(v) if isint else float(v) for v in after]
            if not soft_equal(np, ma, aft_obs, isint, tol if alias else 0.0, scale):
                problems.append("input array after the call differs from the model")
            out_obs = [int(v) if isint else float(v) for v in out]
            if ok and not castable:
                ctx.count("skipped:cast-out-of-range")
                if not problems:
                    continue
            elif ok and not soft_equal(np, mo, out_obs, isint, tol, scale):
                problems.append("returned values differ from the model")
            if not problems:
                soft += 1
                ctx.count("rounding-level-difference")
                continue
            ctx.fail("%s.apply disagrees with the model generated from its source: %s; input %r" % (
                desc["cls"], "; ".join(problems), {k: desc[k] for k in ("coeff", "dtype", "in_place", "axis", "x")}),
                dict(check="correspondence-numpy", input=desc, problems=problems,
                     observed=dict(out=jlist(out), input_after=jlist(after), shares_memory=alias, warned=warned),
                     model=dict(out=[v if isint else float(v).hex() for v in mo], shares_memory=malias, warned=mwarn)),
                kind="correspondence")
    if soft:
        ctx.log("note: %d cases agree with the model only up to rounding (not bit for bit)" % soft)


# ------------------------------------------------- correspondence: torch side
def gen_defaults():
    """Default coefficients as recorded by the translator in coq/gen/Pre.v."""
    import re
    from fractions import Fraction

    txt = open(os.path.join(C.COQ, "gen", "Pre.v")).read()
    return {m.group(1): Fraction(int(m.group(2)), int(m.group(3)))
            for m in re.finditer(r"Definition (\w+)_default_coeff : Z \* Z := \((-?\d+), (\d+)\)", txt)}


def run_torch_correspondence(ctx, np, torch, pt, pre, have_model):
    r = ctx.rng
    dflt = gen_defaults() if have_model else {}
    d_pre = float(dflt.get("torch_preemph", 0.97))
    d_dit = float(dflt.get("torch_dither", 1.0))
    n_cases = ctx.scale(160, 3000)
    maxlen = ctx.scale(20, 48)
    terms, kept = [], []
    for k in range(n_cases):
        which = "preemph" if r.random() < 0.6 else "dither"
        f32 = r.random() < 0.6
        npdt = np.float32 if f32 else np.float64
        n = rand_len(r, maxlen)
        style = r.choice(["small", "dyadic", "full", "full", "special"])
        x = rand_values(r, np, npdt, n, style)
        c = rand_coeff(r, nonneg=(which == "dither"))
        form = r.choice(["functional", "module", "from_numpy"])
        desc = dict(api="torch", which=which, form=form, dtype=np.dtype(npdt).name, coeff=None if c is None else repr(c), x=jlist(x), style=style)
        sig = torch.from_numpy(x.copy())
        seed = r.randrange(2 ** 31)
        g = []
        try:
            if which == "preemph":
                if form == "functional":
                    out = pt.pytorch_preemphasize(sig) if c is None else pt.pytorch_preemphasize(sig, c)
                    ceff = d_pre if c is None else float(c)
                elif form == "module":
                    mod = pt.PyTorchPreemphasize() if c is None else pt.PyTorchPreemphasize(c)
                    out, ceff = mod(sig), float(mod.coeff)
                else:
                    mod = pt.PyTorchPreemphasize.from_preemphasize(mk_obj(pre, "preemph", c))
                    out, ceff = mod(sig), float(mod.coeff)
            else:
                desc["seed"] = seed
                torch.manual_seed(seed)
                g = torch.randn(n, dtype=sig.dtype).numpy()
                torch.manual_seed(seed)
                if form == "functional":
                    out = pt.pytorch_dither(sig) if c is None else pt.pytorch_dither(sig, c)
                    ceff = d_dit if c is None else float(c)
                elif form == "module":
                    mod = pt.PyTorchDither() if c is None else pt.PyTorchDither(c)
                    out, ceff = mod(sig), float(mod.coeff)
                else:
                    mod = pt.PyTorchDither.from_dither(mk_obj(pre, "dither", c))
                    out, ceff = mod(sig), float(mod.coeff)
        except Exception as e:
            ctx.fail("torch %s (%s) raised %s: %s" % (which, form, type(e).__name__, e), dict(check="torch-raises", input=desc), kind="impl")
            continue
        if not torch.equal(sig, torch.from_numpy(x)) and not (x != x).any():
            ctx.fail("torch %s modified its input tensor" % which, dict(check="torch-input-untouched", input=desc), kind="impl")
            continue
        o = out.detach().numpy()
        ctx.count("torch:%s:%s:%s" % (which, form, desc["dtype"]))
        ctx.case(desc, nontrivial=n >= 2)
        if out.dtype != sig.dtype or tuple(out.shape) != (n,):
            ctx.fail("torch %s returned dtype %s shape %s for %s (%d,)" % (which, out.dtype, tuple(out.shape), sig.dtype, n),
                     dict(check="torch-dtype-shape", input=desc), kind="impl")
            continue
        prec, emin = (24, -149) if f32 else (53, -1074)
        terms.append("{| tc_which := %s; tc_f32 := %s; tc_coeff := %s;\n   tc_x := [%s];\n   tc_g := [%s];\n   tc_out := [%s] |}" % (
            "WPreemph" if which == "preemph" else "WDither", cb(f32), enc_inp(ceff, False),
            "; ".join(enc_inp(v, False) for v in x), "; ".join(enc_inp(v, False) for v in g),
            "; ".join(enc_repr(v, False, prec, emin) for v in o)))
        kept.append((desc, x, o, ceff, f32))
    if not have_model or not terms:
        return
    shard = 100
    files = []
    for i in range(0, len(terms), shard):
        body = "Definition cases : list tcase := [\n%s\n].\nEval vm_compute in (tmism cases).\n" % ";\n".join(terms[i:i + shard])
        files.append(("torch_%d" % (i // shard), body))
    res = C.coq_eval_many(ctx, files, REQ)
    for fi, (ans, log) in enumerate(res):
        base = fi * shard
        if ans is None or len(ans) != 1:
            ctx.fail("correspondence file torch_%d did not evaluate" % fi,
                     dict(correspondence="build/C18/torch_%d.v" % fi, log_tail=(log or "")[-1500:]), kind="tie", no_input=True)
            continue
        mism = C.parse_coq(ans[0])
        ctx.cov["traces_validated_against_impl"] += min(shard, len(terms) - base) - len(mism)
        for (i, rt) in mism:
            desc, x, o, ceff, f32 = kept[base + i]
            ok, mout = rt
            mo = [dec_repr(t) for t in mout]
            finite = [abs(float(v)) for v in x if float(v) == float(v) and not math.isinf(float(v))]
            scale = (max(finite) if finite else 0.0) * (1 + abs(ceff)) + abs(ceff)
            if ok and soft_equal(np, mo, [float(v) for v in o], False, 2e-4 if f32 else 1e-9, scale):
                ctx.count("rounding-level-difference")
                continue
            ctx.fail("torch %s (%s) disagrees with the model generated from its source; input %r" % (
                desc["which"], desc["form"], {k: desc[k] for k in ("coeff", "dtype", "x")}),
                dict(check="correspondence-torch", input=desc, observed=[float(v).hex() for v in o],
                     model=[float(v).hex() for v in mo] if ok else "exception"), kind="correspondence")


# ------------------------------------------------------------- direct oracle
def expected_preemph(np, x, c):
    """y[0] = x[0]; y[i] = x[i] - c*x[i-1] in float64, cast back (Python floats are float64)."""
    w = [float(v) for v in x.astype(np.float64)]
    y = list(w)
    for i in range(1, len(w)):
        y[i] = w[i] - c * w[i - 1]
    return w, y


def check_preemph(np, pre, c, x, ip, axis):
    """Problems (list of str) with Preemphasize.apply on this input; [] if none."""
    obj = mk_obj(pre, "preemph", c)
    ceff = float(obj.coeff)
    dt = x.dtype
    isint = dt.kind in "iu"
    probs = []
    out, after, alias, warned = do_apply(np, obj, x, ip, axis)
    if out.dtype != dt or out.shape != x.shape:
        return ["result dtype/shape %s %s, expected %s %s" % (out.dtype, out.shape, dt, x.shape)]
    w, y = expected_preemph(np, x, ceff)
    tol = 1e-9 if dt.itemsize >= 8 or isint else 1e-6 if dt.itemsize == 4 else 2e-3
    for i in range(len(w)):
        e = y[i]
        if e != e or math.isinf(e) or w[i] != w[i]:
            continue
        o = float(out[i])
        if isint:
            info = np.iinfo(dt)
            if not (info.min < e < info.max) or abs(e) >= 2 ** 62:
                continue  # C cast undefined
            if abs(o - math.trunc(e)) > (1 if abs(e - round(e)) < 1e-6 else 0) + abs(e) * 2e-16:
                probs.append("y[%d] = %r, expected trunc(%r) (x[i]=%r, x[i-1]=%r, coeff=%r)" % (i, out[i].item(), e, w[i], w[i - 1] if i else None, ceff))
        else:
            sc = max(abs(w[i]), abs(ceff * w[i - 1]) if i else 0.0, float(np.finfo(dt).tiny))
            if o != o or abs(o - e) > tol * sc:
                if abs(e) > float(np.finfo(dt).max):
                    continue
                probs.append("y[%d] = %r, expected %r (x[i]=%r, x[i-1]=%r, coeff=%r)" % (i, o, e, w[i], w[i - 1] if i else None, ceff))
        if len(probs) >= 3:
            break
    if len(x):
        same = (int(out[0]) == int(x[0])) if isint else (float(out[0]) == float(x[0]) or (x[0] != x[0]))
        if not same and (not isint or abs(int(x[0])) < 2 ** 53):
            probs.append("y[0] = %r but x[0] = %r" % (out[0].item(), x[0].item()))
    inplace_eff = (ip is True) and dt == np.float64
    if inplace_eff:
        if not alias:
            probs.append("in_place=True on float64: the result does not share memory with the input")
        elif after.tobytes() != out.tobytes():
            probs.append("in_place=True: input array and result hold different values")
    else:
        if after.tobytes() != x.tobytes():
            probs.append("the input array was modified (in_place=%r, dtype %s)" % (ip, dt))
        if alias:
            probs.append("the result shares memory with the input although it must be a copy (in_place=%r, dtype %s)" % (ip, dt))
    other, _, _, _ = do_apply(np, obj, x, not (ip is True), axis)
    if other.dtype != out.dtype or other.tobytes() != out.tobytes():
        if not (np.isnan(other.astype(np.float64)).any()):
            probs.append("in_place=True and in_place=False return different values")
    if warned != (axis not in ("omit", None)):
        probs.append("DeprecationWarning issued=%s for axis=%r" % (warned, axis))
    return probs


def check_dither(np, pre, c, x, ip, axis, seed):
    obj = mk_obj(pre, "dither", c)
    ceff = float(obj.coeff)
    dt = x.dtype
    isint = dt.kind in "iu"
    probs = []
    out, after, alias, warned = do_apply(np, obj, x, ip, axis, seed)
    if out.dtype != dt or out.shape != x.shape:
        return ["result dtype/shape %s %s, expected %s %s" % (out.dtype, out.shape, dt, x.shape)]
    out2, _, _, _ = do_apply(np, obj, x, ip, axis, seed)
    if out2.tobytes() != out.tobytes():
        probs.append("not reproducible: two calls after numpy.random.seed(%d) differ" % seed)
    # unit noise of this seed and length, obtained from the implementation itself
    unit, _, _, _ = do_apply(np, pre.Dither(1.0), np.zeros(len(x), dtype=np.float64), False, "omit", seed)
    w = x.astype(np.float64)
    with np.errstate(all="ignore"):
        e = w + ceff * unit
    tol = 1e-9 if dt.itemsize >= 8 or isint else 1e-6 if dt.itemsize == 4 else 2e-3
    for i in range(len(x)):
        ei = float(e[i])
        if ei != ei or math.isinf(ei):
            continue
        o = float(out[i])
        if isint:
            info = np.iinfo(dt)
            if not (info.min < ei < info.max) or abs(ei) >= 2 ** 62:
                continue
            near_tie = abs(abs(ei - math.floor(ei)) - 0.5) < 1e-6
            if abs(o - round(ei)) > (1 if near_tie else 0) + abs(ei) * 2e-16:
                probs.append("y[%d] = %r, expected rint(x + coeff*g) = rint(%r) (x=%r, coeff=%r, g=%r)" % (i, out[i].item(), ei, float(w[i]), ceff, float(unit[i])))
        else:
            sc = max(abs(float(w[i])), abs(ceff * float(unit[i])), float(np.finfo(dt).tiny))
            if abs(ei) > float(np.finfo(dt).max):
                continue
            if o != o or abs(o - ei) > tol * sc:
                probs.append("y[%d] = %r, expected x + coeff*g = %r (x=%r, coeff=%r, g=%r: noise not linear in coeff / not signal independent)" % (i, o, ei, float(w[i]), ceff, float(unit[i])))
        if len(probs) >= 3:
            break
    if ceff == 0 and len(x):
        if isint:
            ok0 = all(int(a) == int(b) for a, b in zip(out, x) if abs(int(b)) < 2 ** 53)
        else:
            ok0 = all(float(a) == float(b) or b != b for a, b in zip(out, x))
        if not ok0:
            probs.append("coeff 0 is not the identity")
    inplace_eff = (ip is True) and dt == np.float64
    if inplace_eff:
        if not alias:
            probs.append("in_place=True on float64: the result does not share memory with the input")
        elif after.tobytes() != out.tobytes():
            probs.append("in_place=True: input array and result hold different values")
    else:
        if after.tobytes() != x.tobytes():
            probs.append("the input array was modified (in_place=%r, dtype %s)" % (ip, dt))
        if alias:
            probs.append("the result shares memory with the input although it must be a copy (in_place=%r, dtype %s)" % (ip, dt))
    other, _, _, _ = do_apply(np, obj, x, not (ip is True), axis, seed)
    if other.tobytes() != out.tobytes() and not np.isnan(other.astype(np.float64)).any():
        probs.append("in_place=True and in_place=False return different values under the same seed")
    if warned != (axis not in ("omit", None)):
        probs.append("DeprecationWarning issued=%s for axis=%r" % (warned, axis))
    return probs


def shrink(np, x, fails):
    """Shortest prefix / suffix window of x on which ``fails`` still holds."""
    best = x
    for n in range(0, len(x)):
        for start in (0, max(0, len(x) - n)):
            cand = x[start:start + n].copy()
            try:
                if fails(cand):
                    return cand
            except Exception:
                continue
    return best


def oracle(ctx, np, pre):
    r = ctx.rng
    n_cases = ctx.scale(500, 8000)
    maxlen = ctx.scale(30, 200)
    reported = set()
    for k in range(n_cases):
        which = "preemph" if r.random() < 0.55 else "dither"
        dtn, _ = DTYPES[k % len(DTYPES)] if k < 3 * len(DTYPES) else r.choice(DTYPES)
        dt = np.dtype(dtn)
        style = r.choice(["small", "mid", "dyadic", "full", "full", "special", "wide"])
        if style == "wide" and dt.kind == "f":
            style = "full"
        x = rand_values(r, np, dt, rand_len(r, maxlen), style)
        if dt.itemsize > 1 and r.random() < 0.12:
            # samples in the other byte order (PCM mapped from a big-endian container): "the input dtype" includes it
            x = x.astype(dt.newbyteorder())
            dt = x.dtype
            dtn = dt.str
            ctx.count("oracle:byte-swapped-dtype")
        c = rand_coeff(r, nonneg=(which == "dither"))
        ip, axis = rand_call(r)
        seed = r.randrange(2 ** 32)
        ctx.count("oracle:%s" % which)
        try:
            if which == "preemph":
                probs = check_preemph(np, pre, c, x, ip, axis)
            else:
                probs = check_dither(np, pre, c, x, ip, axis, seed)
        except Exception as e:
            probs = ["raised %s: %s" % (type(e).__name__, e)]
        ctx.case(dict(oracle=which, dtype=dtn, n=len(x), coeff=None if c is None else repr(c), in_place=ip, axis=axis,
                      h=hashlib.sha1(x.tobytes()).hexdigest()[:12]), nontrivial=len(x) >= 2)
        if not probs:
            continue
        key = (which, probs[0].split(",")[0][:40])
        if key in reported and len(reported) > 6:
            continue
        reported.add(key)
        first = probs[0][:30]

        def fails(cand):
            p = check_preemph(np, pre, c, cand, ip, axis) if which == "preemph" else check_dither(np, pre, c, cand, ip, axis, seed)
            return any(q[:12] == first[:12] for q in p)

        xs = shrink(np, x, fails)
        try:
            probs_s = check_preemph(np, pre, c, xs, ip, axis) if which == "preemph" else check_dither(np, pre, c, xs, ip, axis, seed)
        except Exception as e:
            probs_s = ["raised %s: %s" % (type(e).__name__, e)]
        if not probs_s:
            xs, probs_s = x, probs
        desc = describe(which, c, dt, xs, ip, axis, seed if which == "dither" else None, style)
        ctx.fail("%s.apply violates the property: %s; input %r" % (desc["cls"], probs_s[0], {k: desc[k] for k in ("coeff", "dtype", "in_place", "axis", "x")}),
                 dict(check="oracle-" + which, input=desc, problems=probs_s), kind="impl")


def moments(ctx, np, pre):
    """Zero mean, standard deviation coeff, signal independence at scale."""
    r = ctx.rng
    n = ctx.scale(200000, 2000000)
    for c in (1.0, 0.25, 3.0, None):
        seed = r.randrange(2 ** 32)
        obj = mk_obj(pre, "dither", c)
        ceff = float(obj.coeff)
        x = np.linspace(-5.0, 5.0, n)
        np.random.seed(seed)
        out = obj.apply(x)
        nz = out - x
        m, s = float(nz.mean()), float(nz.std())
        ctx.count("moments")
        ctx.case(dict(moments=True, coeff=ceff, n=n, seed=seed, mean=m, std=s))
        if abs(m) > 6 * ceff / math.sqrt(n) or abs(s / ceff - 1) > 6 / math.sqrt(2 * n):
            ctx.fail("Dither(%r) noise over %d samples has mean %.6g, std %.6g (expected 0 and %r within 6 sigma), seed %d" % (ceff, n, m, s, ceff, seed),
                     dict(check="moments", input=dict(cls="Dither", coeff=repr(ceff), n=n, seed=seed, signal="linspace(-5,5,n)"), observed=dict(mean=m, std=s)), kind="impl")
        # the noise must not be correlated with the signal
        corr = float(np.mean((x - x.mean()) * (nz - m)) / (x.std() * (s or 1.0)))
        if abs(corr) > 6 / math.sqrt(n):
            ctx.fail("Dither(%r) noise is correlated with the signal (r = %.4g over %d samples), seed %d" % (ceff, corr, n, seed),
                     dict(check="noise-signal-correlation", input=dict(cls="Dither", coeff=repr(ceff), n=n, seed=seed, signal="linspace(-5,5,n)"), observed=dict(corr=corr)), kind="impl")
    # the same statistics for SHORT signals, pooled over many calls (each sample of each call is noise of standard deviation
    # coeff: a one-sample recording is dithered too, and the noise of one call need not sum to zero)
    for n in (1, 2, 3, 5):
        for ceff in (1.0, 2.5):
            obj = pre.Dither(ceff)
            calls = ctx.scale(3000, 20000)
            np.random.seed(ctx.seed + 1000 + n)
            nz = np.stack([obj.apply(np.full(n, 3.0)) - 3.0 for _ in range(calls)])
            m, sd = float(nz.mean()), float(nz.std())
            per_call_sum = float(np.abs(nz.sum(axis=1)).mean())
            tot = calls * n
            ctx.count("moments:short-signals")
            ctx.case(dict(moments="short", coeff=ceff, n=n, calls=calls, mean=m, std=sd))
            if abs(m) > 6 * ceff / math.sqrt(tot) or abs(sd / ceff - 1) > 6 / math.sqrt(2 * tot) or not per_call_sum > 0.1 * ceff:
                ctx.fail("Dither(%r) on %d-sample signals, %d calls: noise mean %.5g, std %.5g (expected 0 and %r), mean |sum of one call's noise| %.4g"
                         % (ceff, n, calls, m, sd, ceff, per_call_sum),
                         dict(check="moments-short", input=dict(cls="Dither", coeff=repr(ceff), n=n, calls=calls, seed=ctx.seed + 1000 + n, signal="full(n, 3.0)"),
                              observed=dict(mean=m, std=sd, mean_abs_call_sum=per_call_sum)), kind="impl")
    # different seeds: different noise; same seed: same noise (sanity of the generator tie)
    d = pre.Dither(1.0)
    z = np.zeros(64)
    np.random.seed(1)
    a = d.apply(z)
    np.random.seed(2)
    b = d.apply(z)
    np.random.seed(1)
    a2 = d.apply(z)
    if not np.array_equal(a, a2) or np.array_equal(a, b):
        ctx.fail("Dither noise does not follow numpy.random.seed (same seed equal: %s, different seeds equal: %s)" % (np.array_equal(a, a2), np.array_equal(a, b)),
                 dict(check="seeding", input=dict(cls="Dither", coeff="1.0", x=[0.0] * 64, seeds=[1, 2, 1])), kind="impl")
    # consecutive calls continue one stream (informational)
    np.random.seed(5)
    p = np.concatenate([d.apply(np.zeros(7)), d.apply(np.zeros(9))])
    np.random.seed(5)
    q = d.apply(np.zeros(16))
    ctx.count("stream-continues:%s" % bool(np.array_equal(p, q)))


KEY_INT_BIAS = "dither-int-dtype-truncation-bias"


def int_dither_bias(ctx, np, pre):
    """Integer dtypes: is the RETURNED noise zero-mean and signal independent?

    The model says no (theorem dither_int_noise_biased_refuted): the cast back to
    an integer dtype truncates toward zero.  Replay the witness (deviates of
    about +1/2 and -1/2 on the samples 1000 and -1000) and measure the mean."""
    d = pre.Dither(1.0)
    pos = neg = None
    for seed in range(500):
        np.random.seed(seed)
        g = float(np.random.standard_normal(1)[0])
        if pos is None and 0.25 < g < 0.75:
            pos = seed
        if neg is None and -0.75 < g < -0.25:
            neg = seed
        if pos is not None and neg is not None:
            break
    wit = {}
    for v in (1000, -1000):
        x = np.array([v], dtype=np.int16)
        np.random.seed(pos)
        a = int(d.apply(x)[0]) - v
        np.random.seed(neg)
        b = int(d.apply(x)[0]) - v
        wit[v] = (a, b)
    n = ctx.scale(200000, 1000000)
    seed = ctx.rng.randrange(2 ** 32)
    means = {}
    for v in (1000, -1000):
        x = np.full(n, v, dtype=np.int16)
        np.random.seed(seed)
        out = d.apply(x)
        means[v] = float((out.astype(np.float64) - v).mean())
    ctx.count("int-dither-bias-check")
    ctx.case(dict(int_dither=True, n=n, seed=seed, means=means, witness={str(k): list(w) for k, w in wit.items()}))
    lim = 6 * math.sqrt(1 + 1 / 12.0) / math.sqrt(n)
    if abs(means[1000]) > lim or abs(means[-1000]) > lim:
        ctx.fail("Dither(1.0) on int16: the returned noise has mean %.4f on samples equal to 1000 and %+.4f on samples equal to -1000 "
                 "(expected 0; %d samples, seed %d): the cast back to the integer dtype truncates toward zero; "
                 "deviates of about +1/2 and -1/2 (seeds %d, %d) move [1000] by %r and [-1000] by %r" % (
                     means[1000], means[-1000], n, seed, pos, neg, wit[1000], wit[-1000]),
                 dict(check="int-dither-bias", input=dict(cls="Dither", coeff="1.0", dtype="int16", x=[1000], in_place=False, axis="omit", seed=neg),
                      note="apply([1000]) under numpy.random.seed(%d) returns 999 (noise about -0.5 -> -1) but under seed %d returns 1000 (noise about +0.5 -> 0)" % (neg, pos),
                      means={str(k): m for k, m in means.items()}, n=n, stat_seed=seed),
                 kind="impl", key=KEY_INT_BIAS)


def retuned_oracle(ctx, np, pre):
    """The documented public attribute `coeff` may be re-assigned on an existing pre-processor (e.g. one object re-used
    while a coefficient is swept): afterwards the object must behave exactly like one constructed with the new value."""
    r = ctx.rng
    for k in range(ctx.scale(80, 800)):
        which = "preemph" if k % 2 == 0 else "dither"
        cls = pre.Preemphasize if which == "preemph" else pre.Dither
        c0 = rand_coeff(r, nonneg=(which == "dither"))
        c1 = rand_coeff(r, nonneg=(which == "dither"))
        if c1 is None:
            c1 = 0.97 if which == "preemph" else 1.0
        dtn, _ = r.choice(DTYPES)
        dt = np.dtype(dtn)
        x = rand_values(r, np, dt, max(2, rand_len(r, 24)), r.choice(["small", "mid", "dyadic"]))
        ip = r.random() < 0.3
        seed = r.randrange(2 ** 32)
        used = r.random() < 0.5
        ctx.count("retuned:%s" % which)

        def run(obj):
            np.random.seed(seed)
            return obj.apply(x.copy(), in_place=ip)

        try:
            obj = cls() if c0 is None else cls(c0)
            if used:
                run(obj)
            obj.coeff = c1
            got = run(obj)
            want = run(cls(c1))
        except Exception as e:  # noqa: BLE001
            ctx.fail("%s: re-assigning coeff then apply raised %s: %s" % (cls.__name__, type(e).__name__, e),
                     dict(check="retuned-" + which, input=dict(which=which, constructed_with=repr(c0), coeff=repr(c1), dtype=dtn, x=jlist(x),
                                                                in_place=ip, seed=seed, used_before=used)), kind="impl")
            break
        ctx.case(dict(oracle="retuned-" + which, dtype=dtn, n=len(x), c0=repr(c0), c1=repr(c1), used=used), nontrivial=True)
        if got.dtype != want.dtype or got.shape != want.shape or not np.array_equal(got, want, equal_nan=(dt.kind == "f")):
            ctx.fail("%s constructed with coeff %r and then given coeff = %r does not behave like %s(%r)" % (cls.__name__, c0, c1, cls.__name__, c1),
                     dict(check="retuned-" + which, input=dict(which=which, constructed_with=repr(c0), coeff=repr(c1), dtype=dtn, x=jlist(x), in_place=ip,
                                                                seed=seed, used_before=used), got=jlist(got), fresh_object=jlist(want)), kind="impl")
            break


def torch_oracle(ctx, np, torch, pt, pre):
    r = ctx.rng
    for k in range(ctx.scale(60, 1000)):
        f32 = r.random() < 0.5
        npdt = np.float32 if f32 else np.float64
        x = rand_values(r, np, npdt, rand_len(r, 40), r.choice(["small", "dyadic", "full"]))
        c = abs(r.choice([0.97, 0.5, 1.0, 0.0, r.uniform(0, 1.5)]))
        sig = torch.from_numpy(x.copy())
        ref = pre.Preemphasize(c).apply(x.astype(np.float64))
        out = pt.pytorch_preemphasize(sig, c).numpy().astype(np.float64)
        tol = 2e-4 if f32 else 1e-9
        sc = (np.abs(x).max() if len(x) else 0.0) * (1 + c) + 1e-30
        ctx.count("torch-oracle")
        if out.shape != ref.shape or (len(x) and float(np.abs(out - ref).max()) > tol * sc):
            ctx.fail("pytorch_preemphasize differs from Preemphasize.apply beyond round-off (coeff %r, %s, x=%r)" % (c, np.dtype(npdt).name, jlist(x)),
                     dict(check="torch-vs-numpy-preemph", input=dict(api="torch", which="preemph", form="functional", coeff=repr(c), dtype=np.dtype(npdt).name, x=jlist(x))), kind="impl")
            break
        seed = r.randrange(2 ** 31)
        torch.manual_seed(seed)
        g = torch.randn(len(x), dtype=sig.dtype).numpy().astype(np.float64)
        torch.manual_seed(seed)
        d = pt.pytorch_dither(sig, c).numpy().astype(np.float64)
        if d.shape != x.shape or (len(x) and float(np.abs(d - (x.astype(np.float64) + c * g)).max()) > tol * (sc + c * 10)):
            ctx.fail("pytorch_dither is not sig + coeff * randn_like(sig) under torch.manual_seed(%d) (coeff %r, x=%r)" % (seed, c, jlist(x)),
                     dict(check="torch-dither", input=dict(api="torch", which="dither", form="functional", coeff=repr(c), dtype=np.dtype(npdt).name, x=jlist(x), seed=seed)), kind="impl")
            break


# ------------------------------------------------------------------- driver
def regenerate(ctx):
    import pre as gen_pre
    from pyexpr import Unsupported

    try:
        gen_pre.main(os.path.join(C.SRC, "pre.py"), os.path.join(C.SRC, "torch.py"), os.path.join(C.COQ, "gen", "Pre.v"))
        return True
    except (Unsupported, SyntaxError, OSError) as e:
        if not C.tie_fallback(ctx, "translator gen/pre.py no longer recognises pre.py / torch.py: %s" % e,
                 dict(correspondence="gen/pre.py -> coq/gen/Pre.v", error=str(e)), kind="tie", no_input=True):
            return False
        return True


def check_defaults(ctx, pre, pt):
    """Constructor defaults recorded by the translator = what the classes really use."""
    got = gen_defaults()
    objs = {"dither": pre.Dither(), "preemph": pre.Preemphasize()}
    if pt is not None:
        objs["torch_preemph_module"] = pt.PyTorchPreemphasize()
        objs["torch_dither_module"] = pt.PyTorchDither()
    for tag, o in objs.items():
        if tag not in got or float(got[tag]) != float(o.coeff):
            ctx.fail("default coeff of %s: translator %s, implementation %r" % (tag, got.get(tag), o.coeff),
                     dict(correspondence="gen/Pre.v %s_default_coeff" % tag), kind="tie", no_input=True)


def run(ctx):
    C.ensure_impl_path()
    import importlib
    import numpy as np

    pre = importlib.import_module("pydrobert.speech.pre")
    ok_gen = regenerate(ctx)
    pr = C.proof_step(ctx) if ok_gen else None
    ctx.cov["trusted_base"] += [
        "translator /verif/gen/pre.py (Python ast -> programs of the array language of coq/C18/Model.v)",
        "the interpreter of coq/C18/Model.v as the meaning of numpy slicing / astype / in-place update / normal(), validated by the bit-exact correspondence",
        "Flocq 4 (IEEE-754 binary formats: Bmult, Bplus, Bminus, Btrunc, binary_normalize) as the meaning of float64/float32 arithmetic; the hardware implements IEEE-754 round-to-nearest-even without fusing",
        "numpy / torch generators: only 'normal(0, c, n) = 0 + c * standard_normal(n)' and 'randn_like' under the same seed are used; the distribution itself is tested statistically, not proved",
    ]
    # a stale coq/gen/Pre.v (translator failed) is NOT used: it describes some earlier source
    have_model = ok_gen and os.path.exists(os.path.join(C.COQ, "gen", "Pre.v"))
    if have_model:
        ok, out = C.coq_make(["C18/Eval.v"])
        if not ok:
            have_model = False
            ctx.fail("generated model no longer compiles", dict(correspondence="coq/gen/Pre.v -> coq/C18/Eval.v", log_tail=out[-1500:]), kind="tie", no_input=True)
    ctx.cov["rule"] = (
        "one case = one call of Preemphasize.apply / Dither.apply / pytorch_preemphasize / pytorch_dither with concrete "
        "(dtype, values, coeff, in_place, axis, seed); correspondence cases are replayed bit for bit on the generated program "
        "inside Coq (Flocq arithmetic), oracle cases are checked against the property in Python; distinct = distinct "
        "canonical case; non-trivial = signal length >= 2 (the recurrence / a noise vector is exercised)")
    run_np_correspondence(ctx, np, pre, have_model)
    pt = torch = None
    try:
        torch = importlib.import_module("torch")
        pt = importlib.import_module("pydrobert.speech.torch")
    except Exception as e:  # torch.py no longer imports: that is a finding about the anchored file
        ctx.fail("pydrobert.speech.torch cannot be imported: %s: %s" % (type(e).__name__, e), dict(check="import-torch"), kind="impl", no_input=True)
    if pt is not None:
        torch.set_num_threads(1)
        run_torch_correspondence(ctx, np, torch, pt, pre, have_model)
    if have_model and ok_gen:
        check_defaults(ctx, pre, pt)
    oracle(ctx, np, pre)
    retuned_oracle(ctx, np, pre)
    moments(ctx, np, pre)
    int_dither_bias(ctx, np, pre)
    if pt is not None:
        torch_oracle(ctx, np, torch, pt, pre)
    if pr is not None and not pr["ok"] and not any(not f["no_input"] for f in ctx.failures):
        ctx.log("search found no failing input on the implementation")
    ctx.assumptions += [
        "signals are 1-D (the deprecated axis argument is modelled for the values a 1-D signal accepts: None, -1, 0)",
        "float -> integer casts outside the dtype's range are undefined behaviour in C and are excluded from the comparison",
        "integer samples above 2^53 lose precision in float64 (documented: 'intermediate values are 64-bit floats'); y[0] = x[0] is claimed below 2^53",
        "the distribution of numpy's / torch's normal deviates (mean 0, deviation 1) is tested (6 sigma over >= 2e5 samples), not proved",
    ]
    long_signal_oracle(ctx)
    return C.finish(ctx, "proof")


def long_signal_oracle(ctx):
    """The documented recurrence on signals far longer than the recorded traces (several
    seconds of audio), where block-wise or buffered rewrites would show."""
    C.ensure_impl_path()
    import numpy as np
    from pydrobert.speech import pre

    nprng = np.random.RandomState(ctx.seed + 41)
    for n in (32768, 32769, 32770, 65537, ctx.scale(100003, 400009)):
        for dt in (np.float64, np.float32, np.int16):
            for in_place in (False, True):
                c = ctx.rng.choice([0.97, 0.5, -0.3])
                x = (nprng.randn(n) * 1000).astype(dt)
                x0 = x.copy()
                y = pre.Preemphasize(c).apply(x, in_place=in_place)
                w = x0.astype(np.float64)
                ref = w.copy()
                ref[1:] = w[1:] - c * w[:-1]
                ref = ref.astype(dt)
                ctx.count("long-signal")
                ctx.case(dict(kind="long-signal", n=n, dtype=str(np.dtype(dt)), coeff=c, in_place=in_place), nontrivial=True)
                bad = np.nonzero(y != ref)[0]
                if y.shape != ref.shape or y.dtype != x0.dtype or len(bad):
                    i = int(bad[0]) if len(bad) else -1
                    ctx.fail("Preemphasize.apply differs from y0=x0, yi=xi-c*x(i-1) on a long signal",
                             dict(n=n, dtype=str(np.dtype(dt)), coeff=c, in_place=in_place, signal="(RandomState(seed+41).randn(n)*1000).astype(dtype)",
                                  first_bad_index=i, got=float(y[i]) if i >= 0 else None, expected=float(ref[i]) if i >= 0 else None,
                                  x_i=float(x0[i]) if i >= 0 else None, x_prev=float(x0[i - 1]) if i > 0 else None), kind="impl")
                    return


def replay(ctx, rp):
    """Re-run the recorded input on the implementation and print what it does."""
    C.ensure_impl_path()
    import importlib
    import json
    import numpy as np

    pre = importlib.import_module("pydrobert.speech.pre")
    f = rp.get("failure", rp)
    inp = (f.get("replay") or {}).get("input")
    print(json.dumps(f.get("what"), indent=1))
    if not inp or "x" not in inp or inp.get("api") == "torch":
        print(json.dumps(f.get("replay"), indent=1, default=str))
        return 0
    which = "preemph" if inp["cls"] == "Preemphasize" else "dither"
    c = None if inp["coeff"] is None else eval(inp["coeff"], {"inf": math.inf, "nan": math.nan})
    x = unj(inp["x"], np, inp["dtype"])
    if which == "preemph":
        probs = check_preemph(np, pre, c, x, inp["in_place"], inp["axis"])
    else:
        probs = check_dither(np, pre, c, x, inp["in_place"], inp["axis"], inp.get("seed", 0))
    out, after, alias, warned = do_apply(np, mk_obj(pre, which, c), x, inp["in_place"], inp["axis"], inp.get("seed"))
    print("input   ", x.tolist(), x.dtype)
    print("output  ", out.tolist(), out.dtype, "shares_memory=%s" % alias)
    print("problems", probs)
    return 1 if probs else 0
