"""C19 - scaling functions are strictly increasing and exactly invertible.

Tie: translator (gen/scales.py regenerates coq/gen/Scales.v from scales.py; the
theorems of coq/C19 are re-checked against the regenerated text) plus a
correspondence: values computed by the implementation are certified against the
generated R definitions by Interval.  Search: direct statement of the property
on the implementation.
"""

import math
import os
import sys
from fractions import Fraction

from . import common as C

sys.path.insert(0, os.path.join(C.ROOT, "gen"))


def q(x):
    """Exact rational of a float as a Coq R term."""
    fr = Fraction(x)
    n, d = fr.numerator, fr.denominator
    s = "(%d)" % n if n < 0 else "%d" % n
    return s if d == 1 else "(%s / %d)" % (s, d)


def regenerate(ctx):
    import scales as gen_scales
    from pyexpr import Unsupported

    try:
        gen_scales.main(os.path.join(C.SRC, "scales.py"), os.path.join(C.COQ, "gen", "Scales.v"))
        return True
    except (Unsupported, SyntaxError, OSError) as e:
        if not C.tie_fallback(ctx, "translator gen/scales.py no longer recognises scales.py: %s" % e,
                 dict(correspondence="gen/scales.py -> coq/gen/Scales.v", error=str(e)), kind="tie", no_input=True):
            return False
        return True


def points(ctx, n):
    r = ctx.rng
    pts = []
    # break-points of the Bark correction in Hz, +- a few ulps, domain ends
    def z2f(z):
        return 1960.0 * (z + 0.53) / (26.28 - z)

    for z in (2.0, 20.1):
        f = z2f(z)
        for k in range(-3, 4):
            g = f
            for _ in range(abs(k)):
                g = math.nextafter(g, math.inf if k > 0 else -math.inf)
            pts.append(g)
    pts += [0.0, 1e-3, 1.0, 20.0, 100.0, 700.0, 1000.0, 8000.0, 1e5]
    while len(pts) < n:
        u = r.random()
        pts.append(10 ** (r.uniform(-2, 5)) if u < 0.5 else r.uniform(0, 1e5) if u < 0.8 else r.uniform(0, 9000))
    return pts[:n]


# published closed forms (O'Shaughnessy's mel formula; Traunmueller's critical-band rate with its end corrections),
# written independently of scales.py on Python floats
def mel_published(f):
    return 1127.0 * math.log(1.0 + f / 700.0)


def mel_published_inv(m):
    return 700.0 * (math.exp(m / 1127.0) - 1.0)


def bark_published(f):
    z = 26.81 * f / (1960.0 + f) - 0.53
    if z < 2.0:
        z += 0.15 * (2.0 - z)
    elif z > 20.1:
        z += 0.22 * (z - 20.1)
    return z


def bark_published_inv(s):
    if s < 2.0:
        z = (s - 0.3) / 0.85
    elif s > 20.1:
        z = (s + 4.422) / 1.22
    else:
        z = s
    return 1960.0 * (z + 0.53) / (26.28 - z)


PUBLISHED = {"mel": (mel_published, mel_published_inv), "bark": (bark_published, bark_published_inv)}

# octave reference frequencies: ordinary ones and positive ones below the 1e-10 floor that both directions apply
# (the constructor accepts every positive low_hz)
OCTAVE_LOW = [20.0, 1.0, 55.5, 1e-3]
OCTAVE_LOW_TINY = [1e-11, 3e-12, 9.9e-11, 1e-15, 1e-300, 5e-324]


def int_kinds(np):
    """Integer-typed spellings of a whole number: Python int, numpy integer scalars, an element of an integer array."""
    return [("int", int), ("np.int32", np.int32), ("np.int64", np.int64),
            ("int-array-element", lambda k: np.arange(k, k + 1)[0])]


def narrow_kinds(np):
    """Spellings that hold the number in a narrow / unsigned numpy integer (samples, MIDI-like codes, table indices) or in
    an ndarray the caller keeps (0-d array, one-element view of a grid): (label, constructor, fits)."""
    out = []
    for nm in ("int8", "uint8", "int16", "uint16", "uint32"):
        info = np.iinfo(nm)
        out.append(("np." + nm, (lambda k, t=getattr(np, nm): t(k)), (lambda k, i=info: i.min <= k <= i.max)))
        out.append(("0-d %s array" % nm, (lambda k, nm=nm: np.array(k, dtype=nm)), (lambda k, i=info: i.min <= k <= i.max)))
    out.append(("0-d float64 array", lambda k: np.array(float(k)), lambda k: True))
    out.append(("one-element float64 view", lambda k: np.array([0.0, float(k), 0.0])[1:2], lambda k: True))
    out.append(("read-only 0-d float64 array", lambda k: (lambda a: (a.setflags(write=False), a)[1])(np.array(float(k))), lambda k: True))
    return out


def search(ctx, scales_mod, np):
    """Direct executable statement of the property on the implementation."""
    bad = []
    r = ctx.rng

    def chk(name, cond, detail):
        if not cond:
            bad.append((name, detail))

    tol = 1e-9
    mk = {
        "mel": lambda rep: scales_mod.MelScaling(),
        "bark": lambda rep: scales_mod.BarkScaling(),
        # parameters also as Python ints, as a JSON configuration delivers them
        "linear": lambda rep: scales_mod.LinearScaling(r.choice([0.0, 10.0, -5.0, 123.5, 0, 10, -5]), r.choice([1.0, 0.5, 2.0, 3.25, 1, 2, 3])),
        # every other octave scale has a positive low_hz below the 1e-10 floor
        "octave": lambda rep: scales_mod.OctaveScaling(r.choice(OCTAVE_LOW_TINY if rep % 2 else OCTAVE_LOW)),
    }

    def int_typed(name, s, lo):
        """A whole number of hertz / a whole scale value may be passed as a Python int, a numpy integer or an element
        of an integer array: it denotes the same real number as the equal float, so both directions must give the
        same result (hence the same round trips, monotonicity and published values) as for the float."""
        params = {k: getattr(s, k) for k in ("low_hz", "slope_hz") if hasattr(s, k)}
        f_lo, f_hi = int(math.ceil(lo)), 20000
        if name == "octave":
            f_lo = max(f_lo, 1)
        s_lo, s_hi = float(s.hertz_to_scale(float(lo))), float(s.hertz_to_scale(1e5))  # the image of the domain
        k_lo, k_hi = int(math.ceil(s_lo)), int(math.floor(s_hi))
        if name == "octave":
            # numpy integers: 2 ** k needs 0 <= k, and 2 ** 31 leaves int32 (only met when low_hz is below the floor)
            k_lo, k_hi = max(k_lo, 0), min(k_hi, 30)
        hz = sorted(set([f_lo, f_lo + 1, 204, 205, 1000, 6542, 6543, f_hi] + [r.randrange(f_lo, f_hi + 1) for _ in range(12)]))
        hz = [f for f in hz if f >= f_lo]
        if k_hi - k_lo <= 40:
            ks = list(range(k_lo, k_hi + 1))
        else:
            ks = sorted(set([k_lo, k_lo + 1, k_hi - 1, k_hi] + [r.randrange(k_lo, k_hi + 1) for _ in range(24)]))
            ks = sorted(set(ks + [k + 1 for k in ks if k < k_hi]))
        pub = PUBLISHED.get(name)
        for kind, conv in int_kinds(np):
            for direction, fn, args, ref in (("hertz_to_scale", s.hertz_to_scale, hz, pub and pub[0]),
                                             ("scale_to_hertz", s.scale_to_hertz, ks, pub and pub[1])):
                inv = s.scale_to_hertz if direction == "hertz_to_scale" else s.hertz_to_scale
                prev = None
                for k in args:
                    det = dict(scale=name, params=params, function=direction, argument=k, argument_type=kind)
                    want = float(fn(float(k)))
                    try:
                        got = fn(conv(k))
                        back = float(inv(got))
                        got = float(got)
                    except Exception as e:  # the float argument is accepted
                        chk("integer_argument_raises", False, dict(det, error=repr(e), result_for_float=want))
                        continue
                    det.update(result=got, result_for_float=want, back=back)
                    chk("integer_argument_like_float", abs(got - want) <= tol * max(1.0, abs(want)), det)
                    chk("integer_argument_roundtrip", abs(back - k) <= tol * max(1.0, abs(k)), det)
                    if ref:
                        chk("integer_argument_published", abs(got - ref(float(k))) <= tol * max(1.0, abs(want)), dict(det, published=ref(float(k))))
                    if prev is not None:
                        chk("integer_argument_increasing", got > prev[1], dict(det, previous_argument=prev[0], previous_result=prev[1]))
                    prev = (k, got)
                    ctx.count("search:int-typed-%s-%s" % (name, direction))
        if name == "octave" or not all(isinstance(v, float) for v in params.values()):
            # 2 ** k in a narrow integer type, or a narrow unsigned argument meeting an integer-typed parameter, overflows
            # inside numpy itself: not a question about this library
            return
        small_hz = sorted(set([h for h in hz if h <= 65535] + [f_lo, f_lo + 1, 100, 127, 200, 255, 1000, 30807, 30808, 31004, 63575, 63576, 65535]))
        small_hz = [f for f in small_hz if f >= f_lo]
        for kind, conv, fits in narrow_kinds(np):
            for direction, fn, args in (("hertz_to_scale", s.hertz_to_scale, small_hz), ("scale_to_hertz", s.scale_to_hertz, [k for k in ks if k >= 0] + [0, 2, 3, 20, 21, 27])):
                inv = s.scale_to_hertz if direction == "hertz_to_scale" else s.hertz_to_scale
                for k in sorted(set(args)):
                    if not fits(k) or (direction == "scale_to_hertz" and not (k_lo <= k <= k_hi)):
                        continue
                    det = dict(scale=name, params=params, function=direction, argument=k, argument_type=kind)
                    want = float(fn(float(k)))
                    arg = conv(k)
                    try:
                        got = float(np.asarray(fn(arg)).reshape(-1)[0])
                        again = float(np.asarray(fn(arg)).reshape(-1)[0])
                    except Exception as e:  # the float argument is accepted
                        chk("integer_argument_raises", False, dict(det, error=repr(e), result_for_float=want))
                        continue
                    det.update(result=got, result_for_float=want)
                    chk("integer_argument_like_float", abs(got - want) <= tol * max(1.0, abs(want)), det)
                    chk("same_argument_asked_twice", got == again, dict(det, second_result=again))
                    if isinstance(arg, np.ndarray):
                        chk("argument_array_modified", float(arg.reshape(-1)[0]) == float(k), dict(det, argument_after_the_call=float(arg.reshape(-1)[0])))
                    ctx.count("search:narrow-typed-%s-%s" % (name, direction))

    for name, ctor in mk.items():
        for rep in range(ctx.scale(6, 40)):
            s = ctor(rep)
            lo = getattr(s, "low_hz", 0.0) if name == "octave" else 0.0
            fs = sorted(set([lo, lo + 1e-6, 1e5] + [r.uniform(lo, 1e5) for _ in range(60)] + [10 ** r.uniform(-3, 5) + lo for _ in range(60)]))
            fs = [f for f in fs if f > 0 or name != "octave"]
            if name == "octave":
                # around the floor 1e-10 that both directions apply to low_hz
                fs = sorted(set(fs + [f for f in (1e-10, 2e-10, 2 * lo, 1024 * lo) if f >= lo]))
                ctx.count("search:octave-low_hz-below-floor" if lo < 1e-10 else "search:octave-low_hz-ordinary")
            if name == "bark":
                for z in (2.0, 20.1):
                    f0 = 1960.0 * (z + 0.53) / (26.28 - z)
                    fs += [f0 * (1 + k * 1e-12) for k in range(-5, 6)]
                    # ... and the whole hertz around it (the break-points are 204.23.. Hz and 6542.91.. Hz, not whole numbers)
                    fs += [math.floor(f0) - 1 + 3.0 * k / 257 for k in range(258)]
                fs = sorted(fs)
            prev = None
            for f in fs:
                v = s.hertz_to_scale(f)
                back = s.scale_to_hertz(v)
                params = {k: getattr(s, k) for k in ("low_hz", "slope_hz") if hasattr(s, k)}
                chk("roundtrip_hz", abs(back - f) <= tol * max(1.0, abs(f)), dict(scale=name, params=params, hertz=f, scale_value=float(v), back=float(back)))
                v2 = s.hertz_to_scale(back)
                chk("roundtrip_scale", abs(v2 - v) <= tol * max(1.0, abs(v)), dict(scale=name, params=params, scale_value=float(v), back=float(v2)))
                if prev is not None and f > prev[0] * (1 + 1e-9) + 1e-9:
                    chk("increasing", v > prev[1], dict(scale=name, params=params, f1=prev[0], f2=f, s1=float(prev[1]), s2=float(v)))
                prev = (f, v)
                ctx.count("search:" + name)
            int_typed(name, s, lo)
    # documented public attributes (low_hz, slope_hz) re-assigned on a USED object: both directions must follow the
    # current values (an object used, re-tuned, used again behaves like a fresh one built with the new values)
    for rep in range(ctx.scale(10, 60)):
        kind = r.choice(["linear", "octave"])
        if kind == "linear":
            s = scales_mod.LinearScaling(r.choice([0.0, 10.0, 123.5]), r.choice([1.0, 0.5, 2.0]))
            new = dict(low_hz=r.choice([5.0, 40.0, 0.0]), slope_hz=r.choice([3.25, 1.0, 0.25]))
        else:
            s = scales_mod.OctaveScaling(r.choice([20.0, 1.0, 55.5]))
            new = dict(low_hz=r.choice([10.0, 27.5, 440.0] + OCTAVE_LOW_TINY[:3]))
        old_params = {k: getattr(s, k) for k in new}
        f0 = r.uniform(500.0, 5000.0)
        s.scale_to_hertz(s.hertz_to_scale(f0))  # use it once
        for k, v in new.items():
            setattr(s, k, v)
        fresh = scales_mod.LinearScaling(**new) if kind == "linear" else scales_mod.OctaveScaling(**new)
        for f in [new["low_hz"] + 1e-3, f0, r.uniform(new["low_hz"] + 1, 2e4)]:
            v, vf = s.hertz_to_scale(f), fresh.hertz_to_scale(f)
            back = s.scale_to_hertz(v)
            det = dict(scale=kind, history="constructed with %r, used, then re-assigned %r" % (old_params, new), hertz=f,
                       scale_value=float(v), fresh_scale_value=float(vf), back=float(back))
            chk("reassigned_roundtrip_hz", abs(back - f) <= tol * max(1.0, abs(f)), det)
            chk("reassigned_like_fresh", abs(v - vf) <= tol * max(1.0, abs(vf)), det)
            ctx.count("search:reassigned-" + kind)
    # low_hz maps to scale 0 for linear and octave
    for lowv, slope in ((10.0, 2.0), (5.0, 0.5), (0.0, 3.0), (0, 2), (10, 3)):
        s = scales_mod.LinearScaling(lowv, slope)
        chk("linear_zero", abs(s.hertz_to_scale(lowv)) <= 1e-12, dict(low_hz=lowv, slope_hz=slope))
        chk("linear_slope", abs(s.hertz_to_scale(lowv + 1.0) - slope) <= 1e-9, dict(low_hz=lowv, slope_hz=slope))
    s = scales_mod.OctaveScaling(20.0)
    chk("octave_zero", abs(s.hertz_to_scale(20.0)) <= 1e-12, dict(low_hz=20.0))
    chk("octave_double", abs(s.hertz_to_scale(40.0) - 1) <= 1e-12, dict(low_hz=20.0))
    chk("mel_1000", abs(scales_mod.MelScaling().hertz_to_scale(1000.0) - 1000.0) <= 0.02, {})
    for lowv in (0, 0.0, -0.0, -1.0, -1e-30):
        try:
            scales_mod.OctaveScaling(lowv)
            chk("octave_rejects", False, dict(low_hz=lowv))
        except ValueError:
            pass
    # "for all linear/octave parameters": several scalings with different parameters alive at once - each keeps its own
    # (a scale value obtained from one object converts back through that object, whatever was constructed or rejected since)
    for cls, plist in (("OctaveScaling", [(20.0,), (55.0,), (0.5,), (440.0,)]), ("LinearScaling", [(0.0, 1.0), (10.0, 0.5), (-5.0, 3.25), (123.5, 2.0)])):
        K = getattr(scales_mod, cls)
        objs, held = [], []
        for prm in plist:
            o = K(*prm)
            f = 1000.0 + 10.0 * len(objs)
            objs.append(o)
            held.append((o, prm, f, float(o.hertz_to_scale(f))))
            if cls == "OctaveScaling":
                try:
                    K(-1.0)
                except ValueError:
                    pass
            for o2, prm2, f2, s2 in held:
                ctx.count("search:objects-alive-together")
                back = float(o2.scale_to_hertz(s2))
                again = float(o2.hertz_to_scale(f2))
                chk("parameters_of_one_object_changed_by_another", abs(back - f2) <= 1e-9 * f2 and abs(again - s2) <= 1e-9 * max(1.0, abs(s2))
                    and float(o2.low_hz) == float(prm2[0]),
                    dict(scale=cls, parameters=list(prm2), constructed_since=[list(p) for p in plist[: len(objs)]], hertz=f2, scale_value_then=s2,
                         scale_value_now=again, back_now=back, low_hz_now=float(o2.low_hz)))
    return bad


def run(ctx):
    C.ensure_impl_path()
    import numpy as np
    import importlib

    scales_mod = importlib.import_module("pydrobert.speech.scales")
    ok_gen = regenerate(ctx)
    pr = C.proof_step(ctx) if ok_gen else None
    ctx.cov["trusted_base"].append("translator /verif/gen/scales.py + gen/pyexpr.py (Python ast -> R terms)")
    ctx.cov["trusted_base"].append("Interval 4 (interval tactic) for numeric certification")
    # ---- correspondence: certify implementation values against the generated model
    n = ctx.scale(60, 400)
    pts = points(ctx, n)
    goals = []
    cases = []

    def add(defn, params, x, v, unfold):
        tol = 1e-9 * max(1.0, abs(v))
        goal = "Goal Rabs (%s %s %s - %s) <= %s.\nProof. unfold %s. cert. Qed.\n" % (
            defn, " ".join(q(p) for p in params), q(x), q(float(v)), q(tol), unfold)
        goals.append(goal)
        cases.append(dict(fn=defn, params=params, x=x, value=float(v)))

    mel, bark = scales_mod.MelScaling(), scales_mod.BarkScaling()
    for f in pts:
        add("mel_h2s", [], f, mel.hertz_to_scale(f), "mel_h2s")
        add("bark_h2s", [], f, bark.hertz_to_scale(f), "bark_h2s")
        add("mel_s2h", [], float(mel.hertz_to_scale(f)), mel.scale_to_hertz(float(mel.hertz_to_scale(f))), "mel_s2h")
        sv = float(bark.hertz_to_scale(f))
        add("bark_s2h", [], sv, bark.scale_to_hertz(sv), "bark_s2h")
    for k in range(-3, 4):
        for s0 in (2.0, 20.1):
            sv = s0
            for _ in range(abs(k)):
                sv = math.nextafter(sv, math.inf if k > 0 else -math.inf)
            add("bark_s2h", [], sv, bark.scale_to_hertz(sv), "bark_s2h")
    r = ctx.rng
    for _ in range(n // 4):
        lowv, slope = r.choice([0.0, 10.0, 20.0, -3.5]), r.choice([1.0, 0.5, 2.0, 3.25])
        lin = scales_mod.LinearScaling(lowv, slope)
        f = r.uniform(0, 1e5)
        add("linear_h2s", [lowv, slope], f, lin.hertz_to_scale(f), "linear_h2s")
        add("linear_s2h", [lowv, slope], f, lin.scale_to_hertz(f), "linear_s2h")
        lowv = r.choice([20.0, 1.0, 55.5, 0.25])
        octv = scales_mod.OctaveScaling(lowv)
        f = lowv * 2 ** r.uniform(0, 12)
        add("octave_h2s", [lowv], f, octv.hertz_to_scale(f), "octave_h2s")
        sv = r.uniform(0, 12)
        add("octave_s2h", [lowv], sv, octv.scale_to_hertz(sv), "octave_s2h")
    for c in cases:
        ctx.case(c)
        ctx.count("cert:" + c["fn"])
    ctx.cov["rule"] = (
        "implementation values of hertz_to_scale/scale_to_hertz at random and break-point (+-3 ulp) "
        "arguments, each certified by Interval to lie within 1e-9 (relative) of the R definition generated "
        "from scales.py; distinct = distinct (function, parameters, argument); all are non-trivial"
    )
    mismatches = []
    if ok_gen:
        req = "From Coq Require Import Reals Lra.\nFrom Interval Require Import Tactic.\nFrom Verif Require Import gen.Scales lib.Cert.\nOpen Scope R_scope.\n"
        ok, out = C.coq_make(["lib/Cert.v", "gen/Scales.v"])
        if not ok:
            ctx.fail("generated model no longer compiles", dict(correspondence="coq/gen/Scales.v", log_tail=out[-1500:]), kind="tie", no_input=True)
        else:
            shard = 150
            files = [("cert_%d" % i, "".join(goals[i:i + shard])) for i in range(0, len(goals), shard)]
            res = C.coq_eval_many(ctx, files, req)
            for (name, _), (ans, log), base in zip(files, res, range(0, len(goals), shard)):
                if ans is None:
                    # find failing goals one by one in this shard
                    for j in range(base, min(base + shard, len(goals))):
                        a2, l2 = C.coq_eval(ctx, "cert_one", goals[j], req)
                        if a2 is None:
                            mismatches.append(cases[j])
                            if len(mismatches) >= 5:
                                break
                else:
                    ctx.cov["traces_validated_against_impl"] += min(shard, len(goals) - base)
    for m in mismatches:
        ctx.fail("implementation value not within 1e-9 of the generated model: %r" % m, dict(case=m, correspondence="Interval-certified comparison against coq/gen/Scales.v"), kind="correspondence")
    # ---- search on the implementation itself
    bad = search(ctx, scales_mod, np)
    for name, detail in bad[:10]:
        ctx.fail("property violated on the implementation (%s): %r" % (name, detail), dict(check=name, input=detail), kind="impl")
    if (pr is not None and not pr["ok"]) and not bad and not mismatches:
        ctx.log("search found no failing input on the implementation")
    ctx.assumptions += [
        "float64 rounding is not modelled: comparisons use a 1e-9 relative tolerance",
        "np.exp/np.log/np.log2 compute exp/ln/log2 (checked pointwise by the certified comparison)",
    ]
    return C.finish(ctx, "proof")
