"""C19 - scaling functions are strictly increasing and exactly invertible.

Tie: translator (gen/scales.py regenerates coq/gen/Scales.v from scales.py; the
theorems of coq/C19 are re-checked against the regenerated text) plus a
correspondence: values computed by the implementation are certified against the
generated R definitions by Interval.  Search: direct statement of the property
on the implementation.
"""

import math
import os
import sys
from fractions import Fraction

from . import common as C

sys.path.insert(0, os.path.join(C.ROOT, "gen"))


def q(x):
    """Exact rational of a float as a Coq R term."""
    fr = Fraction(x)
    n, d = fr.numerator, fr.denominator
    s = "(%d)" % n if n < 0 else "%d" % n
    return s if d == 1 else "(%s / %d)" % (s, d)


def regenerate(ctx):
    import scales as gen_scales
    from pyexpr import Unsupported

    try:
        gen_scales.main(os.path.join(C.SRC, "scales.py"), os.path.join(C.COQ, "gen", "Scales.v"))
        return True
    except (Unsupported, SyntaxError, OSError) as e:
        ctx.fail("translator gen/scales.py no longer recognises scales.py: %s" % e,
                 dict(correspondence="gen/scales.py -> coq/gen/Scales.v", error=str(e)), kind="tie", no_input=True)
        return False


def points(ctx, n):
    r = ctx.rng
    pts = []
    # break-points of the Bark correction in Hz, +- a few ulps, domain ends
    def z2f(z):
        return 1960.0 * (z + 0.53) / (26.28 - z)

    for z in (2.0, 20.1):
        f = z2f(z)
        for k in range(-3, 4):
            g = f
            for _ in range(abs(k)):
                g = math.nextafter(g, math.inf if k > 0 else -math.inf)
            pts.append(g)
    pts += [0.0, 1e-3, 1.0, 20.0, 100.0, 700.0, 1000.0, 8000.0, 1e5]
    while len(pts) < n:
        u = r.random()
        pts.append(10 ** (r.uniform(-2, 5)) if u < 0.5 else r.uniform(0, 1e5) if u < 0.8 else r.uniform(0, 9000))
    return pts[:n]


def search(ctx, scales_mod, np):
    """Direct executable statement of the property on the implementation."""
    bad = []
    r = ctx.rng

    def chk(name, cond, detail):
        if not cond:
            bad.append((name, detail))

    tol = 1e-9
    mk = {
        "mel": lambda: scales_mod.MelScaling(),
        "bark": lambda: scales_mod.BarkScaling(),
        "linear": lambda: scales_mod.LinearScaling(r.choice([0.0, 10.0, -5.0, 123.5]), r.choice([1.0, 0.5, 2.0, 3.25])),
        "octave": lambda: scales_mod.OctaveScaling(r.choice([20.0, 1.0, 55.5, 1e-3])),
    }
    for name, ctor in mk.items():
        for rep in range(ctx.scale(6, 40)):
            s = ctor()
            lo = getattr(s, "low_hz", 0.0) if name == "octave" else 0.0
            fs = sorted(set([lo, lo + 1e-6, 1e5] + [r.uniform(lo, 1e5) for _ in range(60)] + [10 ** r.uniform(-3, 5) + lo for _ in range(60)]))
            fs = [f for f in fs if f > 0 or name != "octave"]
            if name == "bark":
                for z in (2.0, 20.1):
                    f0 = 1960.0 * (z + 0.53) / (26.28 - z)
                    fs += [f0 * (1 + k * 1e-12) for k in range(-5, 6)]
                fs = sorted(fs)
            prev = None
            for f in fs:
                v = s.hertz_to_scale(f)
                back = s.scale_to_hertz(v)
                params = {k: getattr(s, k) for k in ("low_hz", "slope_hz") if hasattr(s, k)}
                chk("roundtrip_hz", abs(back - f) <= tol * max(1.0, abs(f)), dict(scale=name, params=params, hertz=f, scale_value=float(v), back=float(back)))
                v2 = s.hertz_to_scale(back)
                chk("roundtrip_scale", abs(v2 - v) <= tol * max(1.0, abs(v)), dict(scale=name, params=params, scale_value=float(v), back=float(v2)))
                if prev is not None and f > prev[0] * (1 + 1e-9) + 1e-9:
                    chk("increasing", v > prev[1], dict(scale=name, params=params, f1=prev[0], f2=f, s1=float(prev[1]), s2=float(v)))
                prev = (f, v)
                ctx.count("search:" + name)
    # documented public attributes (low_hz, slope_hz) re-assigned on a USED object: both directions must follow the
    # current values (an object used, re-tuned, used again behaves like a fresh one built with the new values)
    for rep in range(ctx.scale(10, 60)):
        kind = r.choice(["linear", "octave"])
        if kind == "linear":
            s = scales_mod.LinearScaling(r.choice([0.0, 10.0, 123.5]), r.choice([1.0, 0.5, 2.0]))
            new = dict(low_hz=r.choice([5.0, 40.0, 0.0]), slope_hz=r.choice([3.25, 1.0, 0.25]))
        else:
            s = scales_mod.OctaveScaling(r.choice([20.0, 1.0, 55.5]))
            new = dict(low_hz=r.choice([10.0, 27.5, 440.0]))
        old_params = {k: getattr(s, k) for k in new}
        f0 = r.uniform(500.0, 5000.0)
        s.scale_to_hertz(s.hertz_to_scale(f0))  # use it once
        for k, v in new.items():
            setattr(s, k, v)
        fresh = scales_mod.LinearScaling(**new) if kind == "linear" else scales_mod.OctaveScaling(**new)
        for f in [new["low_hz"] + 1e-3, f0, r.uniform(new["low_hz"] + 1, 2e4)]:
            v, vf = s.hertz_to_scale(f), fresh.hertz_to_scale(f)
            back = s.scale_to_hertz(v)
            det = dict(scale=kind, history="constructed with %r, used, then re-assigned %r" % (old_params, new), hertz=f,
                       scale_value=float(v), fresh_scale_value=float(vf), back=float(back))
            chk("reassigned_roundtrip_hz", abs(back - f) <= tol * max(1.0, abs(f)), det)
            chk("reassigned_like_fresh", abs(v - vf) <= tol * max(1.0, abs(vf)), det)
            ctx.count("search:reassigned-" + kind)
    # low_hz maps to scale 0 for linear and octave
    for lowv, slope in ((10.0, 2.0), (5.0, 0.5), (0.0, 3.0)):
        s = scales_mod.LinearScaling(lowv, slope)
        chk("linear_zero", abs(s.hertz_to_scale(lowv)) <= 1e-12, dict(low_hz=lowv, slope_hz=slope))
        chk("linear_slope", abs(s.hertz_to_scale(lowv + 1.0) - slope) <= 1e-9, dict(low_hz=lowv, slope_hz=slope))
    s = scales_mod.OctaveScaling(20.0)
    chk("octave_zero", abs(s.hertz_to_scale(20.0)) <= 1e-12, dict(low_hz=20.0))
    chk("octave_double", abs(s.hertz_to_scale(40.0) - 1) <= 1e-12, dict(low_hz=20.0))
    chk("mel_1000", abs(scales_mod.MelScaling().hertz_to_scale(1000.0) - 1000.0) <= 0.02, {})
    for lowv in (0, 0.0, -0.0, -1.0, -1e-30):
        try:
            scales_mod.OctaveScaling(lowv)
            chk("octave_rejects", False, dict(low_hz=lowv))
        except ValueError:
            pass
    return bad


def run(ctx):
    C.ensure_impl_path()
    import numpy as np
    import importlib

    scales_mod = importlib.import_module("pydrobert.speech.scales")
    ok_gen = regenerate(ctx)
    pr = C.proof_step(ctx) if ok_gen else None
    ctx.cov["trusted_base"].append("translator /verif/gen/scales.py + gen/pyexpr.py (Python ast -> R terms)")
    ctx.cov["trusted_base"].append("Interval 4 (interval tactic) for numeric certification")
    # ---- correspondence: certify implementation values against the generated model
    n = ctx.scale(60, 400)
    pts = points(ctx, n)
    goals = []
    cases = []

    def add(defn, params, x, v, unfold):
        tol = 1e-9 * max(1.0, abs(v))
        goal = "Goal Rabs (%s %s %s - %s) <= %s.\nProof. unfold %s. cert. Qed.\n" % (
            defn, " ".join(q(p) for p in params), q(x), q(float(v)), q(tol), unfold)
        goals.append(goal)
        cases.append(dict(fn=defn, params=params, x=x, value=float(v)))

    mel, bark = scales_mod.MelScaling(), scales_mod.BarkScaling()
    for f in pts:
        add("mel_h2s", [], f, mel.hertz_to_scale(f), "mel_h2s")
        add("bark_h2s", [], f, bark.hertz_to_scale(f), "bark_h2s")
        add("mel_s2h", [], float(mel.hertz_to_scale(f)), mel.scale_to_hertz(float(mel.hertz_to_scale(f))), "mel_s2h")
        sv = float(bark.hertz_to_scale(f))
        add("bark_s2h", [], sv, bark.scale_to_hertz(sv), "bark_s2h")
    for k in range(-3, 4):
        for s0 in (2.0, 20.1):
            sv = s0
            for _ in range(abs(k)):
                sv = math.nextafter(sv, math.inf if k > 0 else -math.inf)
            add("bark_s2h", [], sv, bark.scale_to_hertz(sv), "bark_s2h")
    r = ctx.rng
    for _ in range(n // 4):
        lowv, slope = r.choice([0.0, 10.0, 20.0, -3.5]), r.choice([1.0, 0.5, 2.0, 3.25])
        lin = scales_mod.LinearScaling(lowv, slope)
        f = r.uniform(0, 1e5)
        add("linear_h2s", [lowv, slope], f, lin.hertz_to_scale(f), "linear_h2s")
        add("linear_s2h", [lowv, slope], f, lin.scale_to_hertz(f), "linear_s2h")
        lowv = r.choice([20.0, 1.0, 55.5, 0.25])
        octv = scales_mod.OctaveScaling(lowv)
        f = lowv * 2 ** r.uniform(0, 12)
        add("octave_h2s", [lowv], f, octv.hertz_to_scale(f), "octave_h2s")
        sv = r.uniform(0, 12)
        add("octave_s2h", [lowv], sv, octv.scale_to_hertz(sv), "octave_s2h")
    for c in cases:
        ctx.case(c)
        ctx.count("cert:" + c["fn"])
    ctx.cov["rule"] = (
        "implementation values of hertz_to_scale/scale_to_hertz at random and break-point (+-3 ulp) "
        "arguments, each certified by Interval to lie within 1e-9 (relative) of the R definition generated "
        "from scales.py; distinct = distinct (function, parameters, argument); all are non-trivial"
    )
    mismatches = []
    if ok_gen:
        req = "From Coq Require Import Reals Lra.\nFrom Interval Require Import Tactic.\nFrom Verif Require Import gen.Scales lib.Cert.\nOpen Scope R_scope.\n"
        ok, out = C.coq_make(["lib/Cert.v", "gen/Scales.v"])
        if not ok:
            ctx.fail("generated model no longer compiles", dict(correspondence="coq/gen/Scales.v", log_tail=out[-1500:]), kind="tie", no_input=True)
        else:
            shard = 150
            files = [("cert_%d" % i, "".join(goals[i:i + shard])) for i in range(0, len(goals), shard)]
            res = C.coq_eval_many(ctx, files, req)
            for (name, _), (ans, log), base in zip(files, res, range(0, len(goals), shard)):
                if ans is None:
                    # find failing goals one by one in this shard
                    for j in range(base, min(base + shard, len(goals))):
                        a2, l2 = C.coq_eval(ctx, "cert_one", goals[j], req)
                        if a2 is None:
                            mismatches.append(cases[j])
                            if len(mismatches) >= 5:
                                break
                else:
                    ctx.cov["traces_validated_against_impl"] += min(shard, len(goals) - base)
    for m in mismatches:
        ctx.fail("implementation value not within 1e-9 of the generated model: %r" % m, dict(case=m, correspondence="Interval-certified comparison against coq/gen/Scales.v"), kind="correspondence")
    # ---- search on the implementation itself
    bad = search(ctx, scales_mod, np)
    for name, detail in bad[:10]:
        ctx.fail("property violated on the implementation (%s): %r" % (name, detail), dict(check=name, input=detail), kind="impl")
    if (pr is not None and not pr["ok"]) and not bad and not mismatches:
        ctx.log("search found no failing input on the implementation")
    ctx.assumptions += [
        "float64 rounding is not modelled: comparisons use a 1e-9 relative tolerance",
        "np.exp/np.log/np.log2 compute exp/ln/log2 (checked pointwise by the certified comparison)",
    ]
    return C.finish(ctx, "proof")
