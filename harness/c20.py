"""C20 - windows and helper functions follow their documented closed forms.

Tie: (1) translator gen/winhelp.py regenerates coq/gen/WinHelp.v (window
normalisers and numpy shape names, the gamma-window pieces, gauss_quant,
hertz/angular conversion, the statement order / phase expression / bin range of
circshift_fourier) from filters.py and util.py; the theorems of coq/C20 are
re-checked against the regenerated text.  (2) correspondence: samples returned
by the implementation (windows, gamma windows, circshift_fourier outputs,
gauss_quant, Hz<->rad) are certified by Interval to lie within 1e-9 (relative
to the natural scale) of the assembled model C20/Model.v, through the evaluation
lemmas of C20/Eval.v.  Search: the property stated directly in Python on the
implementation (lengths, signs, exact sums, gamma arg-max, shift theorem via
np.fft.ifft, monotonicity / affinity / accuracy of gauss_quant vs. math.erfc).
"""

import math
import os
import sys
import re
from fractions import Fraction

from . import common as C

sys.path.insert(0, os.path.join(C.ROOT, "gen"))

KINDS = [
    ("Bartlett", "BartlettWindow", 0.5, "bartlett"),
    ("Blackman", "BlackmanWindow", 0.42, "blackman"),
    ("Hamming", "HammingWindow", 0.54, "hamming"),
    ("Hann", "HannWindow", 0.5, "hanning"),
]

REQ = (
    "Set Warnings \"-ambiguous-paths\".\nFrom Coq Require Import Reals ZArith List Lia Lra.\n"
    "From Coquelicot Require Import Complex.\n"
    "From Interval Require Import Tactic.\n"
    "From Verif Require Import lib.C20_Numpy gen.WinHelp C20.Model C20.ProofsGamma C20.Eval lib.Cert.\n"
    "Import ListNotations.\nOpen Scope R_scope.\n"
    "Ltac destr_inner := match goal with |- context [if ?d then _ else _] => "
    "lazymatch d with context [if _ then _ else _] => fail | _ => destruct d end end.\n"
    "Ltac c20 := cbv zeta; repeat destr_inner; cert.\n"
)


def q(x):
    """Exact rational of a float (or int / Fraction) as a Coq R term."""
    fr = Fraction(x)
    n, d = fr.numerator, fr.denominator
    s = "(%d)" % n if n < 0 else "%d" % n
    return s if d == 1 else "(%s / %d)" % (s, d)


def z(n):
    return "(%d)%%Z" % n


def regenerate(ctx):
    import winhelp
    from pyexpr import Unsupported

    try:
        winhelp.main(C.SRC, os.path.join(C.COQ, "gen", "WinHelp.v"))
        return True
    except (Unsupported, Exception) as e:  # fail closed on anything the translator trips over
        if not C.tie_fallback(ctx, 
            "translator gen/winhelp.py no longer recognises filters.py/util.py: %s" % e,
            dict(correspondence="gen/winhelp.py -> coq/gen/WinHelp.v", error=str(e)),
            kind="tie",
            no_input=True,
        ):
            return False
        return True


class Goals:
    """Collects certified-comparison goals; every goal always compiles and prints
    ``MISMATCH <n>`` when the certification tactic fails."""

    def __init__(self):
        self.goals = []
        self.cases = []

    def add(self, stmt, tactic, case):
        n = len(self.goals)
        self.goals.append(
            "Goal (%s) \\/ True.\nProof. first [ left; solve [ %s ] | right; idtac \"MISMATCH %d\"; exact I ]. Qed.\n"
            % (stmt, tactic, n)
        )
        self.cases.append(case)


# ---------------------------------------------------------------- correspondence


def window_cases(ctx, filters, np, G):
    r = ctx.rng
    nw = ctx.scale(4, 120)
    per = ctx.scale(1, 6)
    for coqk, cls, area, _ in KINDS:
        win = getattr(filters, cls)()
        widths = [2, 3, 4, 7, 4096] + [r.randint(5, 4096) for _ in range(nw)]
        if ctx.thorough:
            widths += list(range(6, 40))
        for w in widths:
            v = win.get_impulse_response(w)
            if len(v) != w:
                continue  # reported by the search
            idx = {0, w - 1, w // 2, (w - 1) // 2} | {r.randrange(w) for _ in range(per)}
            peak = 1.0 / (area * (w - 1))
            for i in sorted(idx):
                tol = Fraction(peak) / 10 ** 9
                G.add(
                    "Rabs (nth (Z.to_nat %s) (window %s %s) 0 - %s) <= %s" % (z(i), coqk, z(w), q(float(v[i])), q(tol)),
                    "rewrite window_eval by lia; unfold shape_real, shape_of, norm_of, %s_shape, %s_norm; c20"
                    % (coqk.lower(), coqk.lower()),
                    dict(fn="window", kind=coqk, width=w, index=i, value=float(v[i])),
                )
                ctx.count("cert:window:" + coqk)


def gamma_cases(ctx, filters, np, G):
    r = ctx.rng
    n = ctx.scale(12, 200)
    per = ctx.scale(1, 5)
    for rep in range(n):
        order = r.choice([1, 2, 2, 3, 4, 4, 5, 6, 8])
        peak = r.choice([0.75, 0.5, 0.9, 0.25, r.uniform(0.05, 0.95), r.uniform(0.6, 0.99)])
        w = r.choice([2, 3, 5, 16, 400, r.randint(2, 60), r.randint(2, 1200)])
        v = filters.GammaWindow(order=order, peak=peak).get_impulse_response(w)
        if len(v) != w:
            continue
        am = int(np.argmax(v))
        idx = {0, w - 1, am} | {r.randrange(w) for _ in range(per)}
        vmax = float(np.max(v))
        for i in sorted(idx):
            t = w - 1 - i
            tol = Fraction(max(vmax, 1e-300)) / 10 ** 9
            if order > 1:
                nn = order - 1
                tac = (
                    "rewrite (gamma_eval_gt1 %s %s %s %s 0 %d %s %s) by (lia || reflexivity); cbv zeta; c20"
                    % (z(order), q(peak), z(w), z(i), nn, z(t), z(math.factorial(nn)))
                )
            else:
                tac = "rewrite (gamma_eval_1 %s %s %s 0 %s) by (lia || reflexivity); cbv zeta; c20" % (q(peak), z(w), z(i), z(t))
            G.add(
                "Rabs (nth (Z.to_nat %s) (gamma_window %s %s %s) 0 - %s) <= %s" % (z(i), z(order), q(peak), z(w), q(float(v[i])), q(tol)),
                tac,
                dict(fn="gamma_window", order=order, peak=peak, width=w, index=i, value=float(v[i])),
            )
            ctx.count("cert:gamma:order%d" % order)


def circshift_inputs(ctx, np):
    """Structured argument combinations for circshift_fourier."""
    r = ctx.rng
    ln = r.choice([0, 1, 2, 3, 5, 8, r.randint(1, 16)])
    start = r.choice([0, 0, 1, 3, r.randint(0, 20), -r.randint(1, 6)])
    mode = r.choice(["default", "fit", "fit", "small", "big"])
    if mode == "default":
        d = None
        if ln + start <= 0:
            start = abs(start) + (1 if ln == 0 else 0)
    elif mode == "fit":
        d = max(1, ln + max(start, 0) + r.randint(0, 6))
    elif mode == "small":
        d = r.randint(1, max(1, ln))  # segment wraps around / overlaps
    else:
        d = r.choice([64, 128, 512, r.randint(17, 300)])
    dd = d if d is not None else ln + start
    skind = r.choice(["int", "int", "neg", "big", "frac", "zero", "npint", "huge"])
    if skind == "int":
        shift = r.randint(0, max(0, dd - 1))
    elif skind == "neg":
        shift = -r.randint(1, 3 * dd)
    elif skind == "big":
        shift = dd + r.randint(0, 3 * dd)
    elif skind == "frac":
        shift = r.choice([0.5, -1.25, 2.75, r.randint(-40, 40) / 8.0])
    elif skind == "npint":
        shift = r.randint(-dd, 2 * dd)
    elif skind == "huge":
        # a delay counted in samples over hours or days of audio: exceeds the DFT size by many orders of magnitude
        shift = r.choice([16000 * 3600 * 24 + 11, 10 ** 9 + 7, 10 ** 12 + 7, -(10 ** 10 + 3), 2 ** 40 + r.randint(0, 1000)])
    else:
        shift = 0
    copy = r.choice([True, False, None])
    dtype = r.choice(["complex128", "complex128", "complex64", "float64"])
    vals = [(r.randint(-8, 8) / 4.0, 0.0 if dtype == "float64" else r.randint(-8, 8) / 4.0) for _ in range(ln)]
    return dict(len=ln, start=start, dft_size=d, shift=shift, skind=skind, copy=copy, dtype=dtype, vals=vals, mode=mode)


def run_circshift(util, np, c):
    if c["dtype"] == "float64":
        arr = np.array([a for a, _ in c["vals"]], dtype=np.float64)
    else:
        arr = np.array([complex(a, b) for a, b in c["vals"]], dtype=c["dtype"])
    before = arr.copy()
    kw = {}
    if c["start"] != 0 or c["mode"] != "default":
        kw["start_idx"] = c["start"]
    if c["dft_size"] is not None:
        kw["dft_size"] = c["dft_size"]
    if c["copy"] is not None:
        kw["copy"] = c["copy"]
    shift = np.int64(c["shift"]) if c["skind"] == "npint" else c["shift"]
    out = util.circshift_fourier(arr, shift, **kw)
    return arr, before, out


def circshift_cases(ctx, util, np, G, bad):
    r = ctx.rng
    n = ctx.scale(36, 600)
    for rep in range(n):
        c = circshift_inputs(ctx, np)
        ctx.count("csf:dft_" + c["mode"])
        ctx.count("csf:shift_" + c["skind"])
        ctx.count("csf:copy_%s" % c["copy"])
        ctx.count("csf:" + c["dtype"])
        try:
            arr, before, out = run_circshift(util, np, c)
        except Exception as e:  # noqa: BLE001
            bad.append(("circshift_raises", dict(case=c, error="%s: %s" % (type(e).__name__, e))))
            ctx.case(dict(fn="circshift_fourier", **c), nontrivial=True)
            continue
        ctx.case(dict(fn="circshift_fourier", **{k: v for k, v in c.items() if k != "vals"}, vals=c["vals"]), nontrivial=c["len"] > 0)
        # observable side conditions of the model's csf_result
        copy = True if c["copy"] is None else c["copy"]
        out_of_place = copy or c["dtype"] != "complex128"
        if len(out) != c["len"]:
            bad.append(("circshift_length", dict(case=c, got=len(out))))
            continue
        if str(out.dtype) != "complex128":
            bad.append(("circshift_dtype", dict(case=c, got=str(out.dtype))))
        if out_of_place:
            if not np.array_equal(arr, before) or (out is arr):
                bad.append(("circshift_modified_input", dict(case=c)))
        else:
            if out is not arr:
                bad.append(("circshift_inplace_identity", dict(case=c)))
        if c["len"] == 0:
            continue
        d = c["dft_size"] if c["dft_size"] is not None else c["len"] + c["start"]
        qf = math.floor(Fraction(c["shift"]) / d)
        js = sorted({0, c["len"] - 1, r.randrange(c["len"])})[: ctx.scale(2, 3)]
        filt = "[" + "; ".join("(%s, %s)" % (q(a), q(b)) for a, b in c["vals"]) + "]"
        dft = "None" if c["dft_size"] is None else "(Some %s)" % z(c["dft_size"])
        for j in js:
            a, b = c["vals"][j]
            k = (c["start"] + j) % d
            scale = Fraction(abs(a) + abs(b) + 1) / 10 ** 9
            vre, vim = float(out[j].real), float(out[j].imag)
            stmt = (
                "let o := nth (Z.to_nat %s) (circshift_out %s %s %s %s) (RtoC 0) in "
                "Rabs (fst o - %s) <= %s /\\ Rabs (snd o - %s) <= %s"
                % (z(j), filt, q(c["shift"]), z(c["start"]), dft, q(vre), q(scale), q(vim), q(scale))
            )
            tac = (
                "cbv zeta; rewrite (circshift_eval %s %s %s %s %s %s %s %s %s %s %s) by "
                "(reflexivity || lia || lra); cbv zeta; unfold fst, snd; split; c20"
                % (filt, q(c["shift"]), z(c["start"]), dft, z(c["len"]), z(d), z(j), q(a), q(b), z(qf), z(k))
            )
            G.add(stmt, tac, dict(fn="circshift_fourier", case=c, index=j, value=[vre, vim]))
            ctx.count("cert:circshift")


def scalar_cases(ctx, util, np, G):
    r = ctx.rng
    n = ctx.scale(30, 400)
    ps = [0.5, 0.25, 0.75, 1.0000001e-20, 1 - 2.0 ** -53, 0.9999999e-20, 1e-300, 0.5 - 2.0 ** -54, 0.5 + 2.0 ** -53, 0.1, 0.9]
    while len(ps) < n:
        u = r.random()
        if u < 0.35:
            ps.append(10 ** r.uniform(-25, math.log10(0.5)))
        elif u < 0.55:
            ps.append(1 - 10 ** r.uniform(-15.5, math.log10(0.5)))
        elif u < 0.7:
            ps.append(0.5 + r.uniform(-1e-6, 1e-6))
        else:
            ps.append(r.uniform(0.001, 0.999))
    for p in ps[:n]:
        mu, std = r.choice([(0, 1), (0.0, 1.0), (-1.0, 0.1), (100.0, 10.0), (r.uniform(-5, 5), r.uniform(0.1, 4))])
        if not (0 < p < 1):
            continue
        v = util._gauss_quant_odeh_evans(p, mu, std)
        tol = Fraction(abs(float(std)) * 12 + abs(float(mu))) / 10 ** 9
        G.add(
            "Rabs (gauss_quant %s %s %s - %s) <= %s" % (q(p), q(mu), q(std), q(float(v)), q(tol)),
            "unfold gauss_quant; c20",
            dict(fn="gauss_quant", p=p, mu=mu, std=std, value=float(v)),
        )
        ctx.count("cert:gauss_quant:" + ("tail" if min(p, 1 - p) < 1e-20 else "lower" if p < 0.5 else "upper"))
    for _ in range(ctx.scale(6, 60)):
        f, sr = r.choice([0.0, 100.0, 4000.0, r.uniform(0, 24000), -r.uniform(0, 100)]), r.choice([8000.0, 16000.0, 44100.0, r.uniform(1, 1e5)])
        v = util.hertz_to_angular(f, sr)
        G.add("Rabs (hertz_to_angular %s %s - %s) <= %s" % (q(f), q(sr), q(float(v)), q(Fraction(abs(float(v)) + 1) / 10 ** 9)),
              "unfold hertz_to_angular; c20", dict(fn="hertz_to_angular", hertz=f, samp_rate=sr, value=float(v)))
        a = r.choice([0.0, math.pi, r.uniform(-7, 7)])
        v = util.angular_to_hertz(a, sr)
        G.add("Rabs (angular_to_hertz %s %s - %s) <= %s" % (q(a), q(sr), q(float(v)), q(Fraction(abs(float(v)) + 1) / 10 ** 9)),
              "unfold angular_to_hertz; c20", dict(fn="angular_to_hertz", angle=a, samp_rate=sr, value=float(v)))
        ctx.count("cert:hz_ang", 2)


# ---------------------------------------------------------------- search


def expected_sum(kind, w):
    """Exact sums proved in Props.v (bartlett_sum, hann_sum, hamming_sum, blackman_sum, window_sum_small)."""
    K = w - 1
    if w <= 0:
        return 0.0
    if w == 1:
        return {"Bartlett": 2.0, "Blackman": 1 / 0.42, "Hamming": 1 / 0.54, "Hann": 2.0}[kind]
    if kind == "Bartlett":
        return 1.0 if K % 2 == 0 else 1.0 - 1.0 / K ** 2
    if kind == "Hann":
        return 0.0 if w == 2 else 1.0
    if kind == "Hamming":
        return 8 / 27 if w == 2 else 1 + 4 / (27 * K)
    if kind == "Blackman":
        return 0.0 if w == 2 else 25 / 21 if w == 3 else 1.0
    raise KeyError(kind)


def search_windows(ctx, filters, np, bad):
    r = ctx.rng
    top = ctx.scale(4200, 12000)
    widths = list(range(0, top + 1))  # every width, not a sample
    for coqk, cls, area, npname in KINDS:
        win = getattr(filters, cls)()
        for w in widths:
            v = win.get_impulse_response(w)
            inp = dict(window=cls, width=w)
            ctx.count("search:window:" + coqk)
            if not (isinstance(v, np.ndarray) and v.ndim == 1 and len(v) == w):
                bad.append(("window_length", dict(inp, got=getattr(v, "shape", None))))
                continue
            if w == 0:
                continue
            if not np.all(np.isfinite(v)) or float(v.min()) < -1e-15:
                bad.append(("window_nonneg", dict(inp, min=float(v.min()))))
            s = float(v.sum())
            if abs(s - expected_sum(coqk, w)) > 1e-9 * max(1.0, abs(s)):
                bad.append(("window_sum", dict(inp, sum=s, expected=expected_sum(coqk, w))))
            if w >= 2 and abs(s - 1) > 1.0 / (w - 1) + 1e-12:
                bad.append(("window_sum_near_one", dict(inp, sum=s)))
            # numpy shape over the documented area (independent recomputation, textbook form)
            if w >= 2:
                i = np.arange(w)
                x = 2 * np.pi * i / (w - 1)
                tb = {
                    "Bartlett": 1 - np.abs(2 * i - (w - 1)) / (w - 1),
                    "Blackman": 0.42 - 0.5 * np.cos(x) + 0.08 * np.cos(2 * x),
                    "Hamming": 0.54 - 0.46 * np.cos(x),
                    "Hann": 0.5 - 0.5 * np.cos(x),
                }[coqk] / (area * (w - 1))
                err = float(np.max(np.abs(tb - v)))
                if err > 1e-9 / (area * (w - 1)):
                    bad.append(("window_closed_form", dict(inp, max_abs_err=err, index=int(np.argmax(np.abs(tb - v))))))
            if w % 97 == 0:
                # the returned array belongs to the caller: scribble on it, ask again, expect the same samples
                keep = v.copy()
                try:
                    v[...] = 7.25
                except (ValueError, TypeError):
                    pass
                v2 = win.get_impulse_response(w)
                if not (v2.shape == keep.shape and np.array_equal(v2, keep)):
                    bad.append(("window_repeat_after_caller_wrote", dict(inp)))


def search_gamma(ctx, filters, np, bad):
    r = ctx.rng
    pool = {}
    for rep in range(ctx.scale(3000, 40000)):
        order = r.choice([1, 2, 3, 4, 5, 6, 7, 8, r.randint(2, 12)])
        peak = r.choice([0.75, 0.5, 0.25, 0.9, r.uniform(0.02, 0.98)])
        w = r.choice([0, 1, 2, 3, r.randint(2, 50), r.randint(2, 500), r.randint(2, 4500)])
        inp = dict(window="GammaWindow", order=order, peak=peak, width=w)
        ctx.count("search:gamma")
        # one window object per (order, peak) serves every width asked of it (as a window shared by several computers
        # does): its answer for a width must not depend on the widths it was asked before
        key = (order, peak)
        if rep % 4 == 3:
            # the documented public attributes may be re-assigned on an existing window: it must then behave like a
            # window constructed with the new values
            o0 = r.choice([1, 2, 3, 4, 6, 9])
            p0 = r.choice([0.75, 0.5, 0.3])
            wre = filters.GammaWindow(order=o0, peak=p0)
            if r.random() < 0.5:
                wre.get_impulse_response(r.randint(2, 40))
            wre.order, wre.peak = order, peak
            key = (order, peak, "retuned", rep)
            pool[key] = (wre, [])
            inp["constructed_with"] = dict(order=o0, peak=p0)
            ctx.count("search:gamma:retuned-object")
        if key not in pool:
            pool[key] = (filters.GammaWindow(order=order, peak=peak), [])
        wobj, asked = pool[key]
        if asked:
            inp["same_object_asked_before"] = asked[-3:]
            ctx.count("search:gamma:reused-object")
        v = wobj.get_impulse_response(w)
        asked.append(w)
        if not (isinstance(v, np.ndarray) and v.ndim == 1 and len(v) == w):
            bad.append(("gamma_length", dict(inp, got=getattr(v, "shape", None))))
            continue
        if w == 0:
            continue
        if not np.all(np.isfinite(v)) or float(v.min()) < 0:
            bad.append(("gamma_nonneg", dict(inp, min=float(v.min()))))
            continue
        if w == 1:
            if v[0] != 1.0:
                bad.append(("gamma_width1", dict(inp, got=float(v[0]))))
            continue
        # reflected gamma density, recomputed independently through lgamma
        alpha = (order - 1) / (w - peak * w) if order > 1 else 5.0 / w
        t = np.arange(w - 1, -1, -1, dtype=float)
        with np.errstate(divide="ignore", invalid="ignore"):
            logpdf = order * math.log(alpha) - math.lgamma(order) + (order - 1) * np.log(t) - alpha * t
        ref = np.exp(logpdf)
        ref[t == 0] = alpha if order == 1 else 0.0
        err = float(np.max(np.abs(ref - v)))
        if err > 1e-9 * float(ref.max()):
            bad.append(("gamma_closed_form", dict(inp, max_abs_err=err)))
        if order > 1:
            vm = float(v.max())
            if vm <= 0:
                continue  # density underflows to 0 everywhere but is still non-negative
            ams = np.nonzero(v == vm)[0]
            pw = Fraction(peak) * w
            for m in ams:
                # gamma_window_argmax: peak*w - 2 < m < peak*w  (ties between float-equal neighbours tolerated)
                if not (pw - 2 < int(m) < pw):
                    # tolerate a float tie with the neighbour that is inside the bracket
                    lo, hi = math.floor(pw - 2) + 1, math.ceil(pw) - 1
                    inside = [k for k in range(max(lo, 0), min(hi, w - 1) + 1)]
                    if not any(abs(v[k] - vm) <= 1e-12 * vm for k in inside):
                        bad.append(("gamma_argmax", dict(inp, argmax=int(m), expected_between=[float(pw - 2), float(pw)])))
        else:
            if int(np.argmax(v)) != w - 1:
                bad.append(("gamma_order1_argmax", dict(inp, argmax=int(np.argmax(v)))))
        if rep % 5 == 0:
            # the returned array belongs to the caller: scribble on it, then ask the same window again - from the
            # same object and from a new object with the same (order, peak) - and expect the same samples
            keep = v.copy()
            try:
                v[...] = 7.25
            except (ValueError, TypeError):
                pass
            ctx.count("search:gamma:repeat-after-caller-wrote")
            for who, wo in (("same object", wobj), ("new object", filters.GammaWindow(order=order, peak=peak))):
                v2 = wo.get_impulse_response(w)
                if not (v2.shape == keep.shape and np.array_equal(v2, keep)):
                    bad.append(("gamma_repeat_after_caller_wrote", dict(inp, asked_again_of=who)))
                    break


def search_circshift(ctx, util, np, bad):
    r = ctx.rng
    for rep in range(ctx.scale(2500, 40000)):
        c = circshift_inputs(ctx, np)
        ctx.count("search:circshift")
        try:
            arr, before, out = run_circshift(util, np, c)
        except Exception as e:  # noqa: BLE001
            bad.append(("circshift_raises", dict(case=c, error="%s: %s" % (type(e).__name__, e))))
            continue
        d = c["dft_size"] if c["dft_size"] is not None else c["len"] + c["start"]
        if len(out) != c["len"]:
            bad.append(("circshift_length", dict(case=c, got=len(out))))
            continue
        bins = (np.arange(c["start"], c["start"] + c["len"]) % d).astype(int)
        X = np.zeros(d, dtype=complex)
        Y = np.zeros(d, dtype=complex)
        np.add.at(X, bins, before.astype(complex))
        np.add.at(Y, bins, out)
        scale = 1.0 + (float(np.max(np.abs(X))) if d else 0.0)
        # the documented formula DFT(T_u x)[k] = DFT(x)[k] exp(-2 pi i k shift / D), any real shift
        want_spec = X * np.exp(-2j * np.pi * (float(c["shift"]) % d) / d * np.arange(d))
        if not np.allclose(Y, want_spec, rtol=0, atol=1e-9 * scale):
            bad.append(("circshift_documented_formula", dict(case=c, max_abs_err=float(np.max(np.abs(Y - want_spec))))))
        if float(c["shift"]) == int(c["shift"]):
            # integer shifts: ifft(out) = ifft(in) circularly shifted by `shift` samples
            x, y = np.fft.ifft(X), np.fft.ifft(Y)
            want = np.roll(x, int(c["shift"]))
            if not np.allclose(y, want, rtol=0, atol=1e-9 * scale):
                bad.append(("circshift_shift_theorem", dict(case=c, max_abs_err=float(np.max(np.abs(y - want))))))
        copy = True if c["copy"] is None else c["copy"]
        if copy and not np.array_equal(arr, before):
            bad.append(("circshift_modified_input", dict(case=c)))
    # the documented default, plainly
    try:
        X = np.arange(1, 7).astype(complex)
        Y = util.circshift_fourier(X, 2)
        want = np.roll(np.fft.ifft(X), 2)
        if not np.allclose(np.fft.ifft(Y), want, atol=1e-9):
            bad.append(("circshift_default_dft_size", dict(filt=[1, 2, 3, 4, 5, 6], shift=2)))
    except Exception as e:  # noqa: BLE001
        bad.append(("circshift_default_dft_size", dict(filt=[1, 2, 3, 4, 5, 6], shift=2, error="%s: %s" % (type(e).__name__, e))))


def search_scalars(ctx, util, np, bad):
    r = ctx.rng
    gq = util.gauss_quant
    sq2 = math.sqrt(2.0)

    def cdf(x):  # accurate in both tails
        return 0.5 * math.erfc(-x / sq2)

    ps = sorted(
        set(
            [10 ** r.uniform(-20, math.log10(0.5)) for _ in range(ctx.scale(10000, 150000))]
            + [r.uniform(0.0, 1.0) for _ in range(ctx.scale(10000, 150000))]
            + [0.5 + k * 2.0 ** -40 for k in range(-20, 21)]
            + [10 ** r.uniform(-40, -19) for _ in range(200)]
            + [1 - 2.0 ** -k for k in range(2, 54)]
            + [1e-20, 0.5, 0.25, 0.75, 1e-10, 1 - 1e-10, 1e-300, 5e-324]
        )
    )
    ps = [p for p in ps if 0 < p < 1]
    prev = None
    for p in ps:
        ctx.count("search:gauss_quant")
        v = gq(p)
        if not math.isfinite(v):
            bad.append(("gauss_quant_finite", dict(p=p, value=v)))
            continue
        # accuracy: Phi(z - 1e-6) <= p <= Phi(z + 1e-6) whenever min(p, 1-p) >= 1e-20
        if min(p, 1 - p) >= 1e-20:
            if p <= 0.5:
                ok = cdf(v - 1e-6) <= p * (1 + 1e-12) and p * (1 - 1e-12) <= cdf(v + 1e-6)
            else:  # compare upper tails, 1 - p is exact in float for p >= 0.5
                up = 1 - p
                ok = cdf(-(v + 1e-6)) <= up * (1 + 1e-12) and up * (1 - 1e-12) <= cdf(-(v - 1e-6))
            if not ok:
                bad.append(("gauss_quant_accuracy", dict(p=p, value=v)))
        if prev is not None and not (v >= prev[1]):
            bad.append(("gauss_quant_increasing", dict(p1=prev[0], p2=p, q1=prev[1], q2=v)))
        prev = (p, v)
    for _ in range(ctx.scale(300, 3000)):
        p = r.choice([r.uniform(0, 1), 10 ** r.uniform(-20, -0.31)])
        if not (0 < p < 1):
            continue
        mu, std = r.uniform(-100, 100), 10 ** r.uniform(-2, 2)
        a, b = gq(p, mu, std), gq(p) * std + mu
        if abs(a - b) > 1e-9 * (abs(mu) + 12 * std):
            bad.append(("gauss_quant_affine", dict(p=p, mu=mu, std=std, got=a, expected=b)))
        if p != 0.5 and 1 - (1 - p) == p:
            s1, s2 = gq(1 - p), -gq(p)
            if abs(s1 - s2) > 1e-9 * (1 + abs(s2)):
                bad.append(("gauss_quant_symmetric", dict(p=p, got=s1, expected=s2)))
    for _ in range(ctx.scale(300, 3000)):
        ctx.count("search:hz_ang")
        sr = r.choice([8000.0, 16000.0, 44100.0, r.uniform(1.0, 2e5)])
        f = r.choice([0.0, sr / 2, r.uniform(-sr, sr), 10 ** r.uniform(-3, 5)])
        a = util.hertz_to_angular(f, sr)
        back = util.angular_to_hertz(a, sr)
        if abs(back - f) > 1e-12 * max(1.0, abs(f)):
            bad.append(("angular_hertz_inverse", dict(hertz=f, samp_rate=sr, angle=float(a), back=float(back))))
        a0 = r.uniform(-2 * math.pi, 2 * math.pi)
        back = util.hertz_to_angular(util.angular_to_hertz(a0, sr), sr)
        if abs(back - a0) > 1e-12 * max(1.0, abs(a0)):
            bad.append(("hertz_angular_inverse", dict(angle=a0, samp_rate=sr, back=float(back))))
        if abs(util.hertz_to_angular(sr / 2, sr) - math.pi) > 1e-12:
            bad.append(("nyquist_is_pi", dict(samp_rate=sr)))


# ---------------------------------------------------------------- driver


def certify(ctx, G):
    """Compile the goal shards in parallel; returns the mismatching cases."""
    mism = []
    ok, out = C.coq_make(["lib/Cert.v", "C20/Eval.v"])
    if not ok:
        ctx.fail("model / evaluation lemmas no longer compile against the regenerated gen/WinHelp.v",
                 dict(correspondence="coq/C20/Eval.v", log_tail=out[-1500:]), kind="tie", no_input=True)
        return None
    nsh = max(8, (len(G.goals) + 399) // 400) if len(G.goals) >= 160 else max(1, len(G.goals) // 20)
    # round-robin so that the expensive goal kinds are spread over all shards
    files = [("cert_%d" % k, "".join(G.goals[k::nsh])) for k in range(nsh)]
    res = C.coq_eval_many(ctx, files, REQ, timeout=900)
    for k, ((name, _), (ans, log)) in enumerate(zip(files, res)):
        nshard = len(G.goals[k::nsh])
        if ans is None:
            ctx.fail("correspondence file %s did not compile" % name, dict(correspondence=name, log_tail=log[-1500:]), kind="tie", no_input=True)
            continue
        miss = [int(m) for m in re.findall(r"MISMATCH (\d+)", log)]
        for m in miss:
            mism.append(G.cases[m])
        ctx.cov["traces_validated_against_impl"] += nshard - len(miss)
    return mism


def replay(ctx, rp):
    """Re-run the recorded failing input on the implementation (./check C20 --replay <path>)."""
    C.ensure_impl_path()
    import importlib
    import json

    import numpy as np

    filters = importlib.import_module("pydrobert.speech.filters")
    util = importlib.import_module("pydrobert.speech.util")
    f = rp.get("failure", {})
    r = f.get("replay", {})
    inp = r.get("input") or r.get("case") or {}
    print("recorded failure:", f.get("what"))
    try:
        if "window" in inp:
            kw = {k: inp[k] for k in ("order", "peak") if k in inp}
            wobj = getattr(filters, inp["window"])(**kw)
            for w0 in inp.get("same_object_asked_before", []):
                wobj.get_impulse_response(w0)  # the recorded history of this window object
            v = wobj.get_impulse_response(inp["width"])
            print("now: len=%d sum=%r min=%r argmax=%r" % (len(v), float(v.sum()) if len(v) else 0.0,
                                                        float(v.min()) if len(v) else None, int(np.argmax(v)) if len(v) else None))
        elif "case" in inp or "vals" in inp:
            c = inp.get("case", inp)
            c["vals"] = [tuple(x) for x in c["vals"]]
            arr, before, out = run_circshift(util, np, c)
            print("now: out=%r input_unchanged=%r" % (out.tolist(), bool(np.array_equal(arr, before))))
        elif "p" in inp:
            print("now: gauss_quant(%r) = %r" % (inp["p"], util.gauss_quant(inp["p"], inp.get("mu", 0), inp.get("std", 1))))
        elif "p1" in inp:
            print("now: gauss_quant(%r) = %r, gauss_quant(%r) = %r" % (inp["p1"], util.gauss_quant(inp["p1"]), inp["p2"], util.gauss_quant(inp["p2"])))
        elif "samp_rate" in inp:
            sr = inp["samp_rate"]
            print("now: hertz_to_angular(sr/2, sr) = %r" % util.hertz_to_angular(sr / 2, sr))
        else:
            print(json.dumps(r, indent=1, default=str))
    except Exception as e:  # noqa: BLE001
        print("now raises %s: %s" % (type(e).__name__, e))
    return 0


def run(ctx):
    C.ensure_impl_path()
    import importlib

    import numpy as np

    bad = []
    try:
        filters = importlib.import_module("pydrobert.speech.filters")
        util = importlib.import_module("pydrobert.speech.util")
    except Exception as e:  # noqa: BLE001
        ctx.fail("pydrobert.speech no longer imports: %s: %s" % (type(e).__name__, e), dict(error=str(e)), kind="impl", no_input=True)
        return C.finish(ctx, "proof")
    ok_gen = regenerate(ctx)
    pr = C.proof_step(ctx) if ok_gen else None
    ctx.cov["trusted_base"] += [
        "translator /verif/gen/winhelp.py + gen/pyexpr.py (Python ast -> R/Z terms)",
        "numpy semantics of lib/C20_Numpy.v (np.bartlett/blackman/hamming/hanning, arange, %), np.exp(1j x) = cos x + j sin x, np.fft.ifft = inverse DFT",
        "Interval 4 (interval / integral tactics) for numeric certification",
    ]
    ctx.cov["rule"] = (
        "samples of get_impulse_response (4 window kinds, GammaWindow), elements of circshift_fourier outputs "
        "(default / fitting / wrapping / large dft_size; negative, > D, fractional, numpy-int shifts; copy both ways; "
        "complex128/complex64/float64 input), gauss_quant (both tails, below 1e-20, around 1/2) and Hz<->rad values, each "
        "certified by Interval to lie within 1e-9 (of the natural scale) of C20/Model.v; "
        "distinct = distinct (function, arguments, index); trivial = empty circshift segments"
    )
    # ---- correspondence
    G = Goals()
    try:
        window_cases(ctx, filters, np, G)
        gamma_cases(ctx, filters, np, G)
        circshift_cases(ctx, util, np, G, bad)
        scalar_cases(ctx, util, np, G)
    except Exception as e:  # noqa: BLE001
        bad.append(("implementation_raises", dict(error="%s: %s" % (type(e).__name__, e))))
    for c in G.cases:
        if c["fn"] != "circshift_fourier":
            ctx.case(c)
    ctx.log("correspondence: %d certified-comparison goals" % len(G.goals))
    mism = certify(ctx, G) if ok_gen else None
    ctx.log("correspondence done: %s mismatches" % (len(mism) if mism is not None else "n/a"))
    for m in (mism or [])[:8]:
        ctx.fail("implementation value not within 1e-9 of the model: %r" % m,
                 dict(case=m, correspondence="Interval-certified comparison against coq/C20/Model.v"), kind="correspondence")
    # ---- search on the implementation itself
    for fn, args in ((search_windows, (filters,)), (search_gamma, (filters,)), (search_circshift, (util,)), (search_scalars, (util,))):
        try:
            fn(ctx, *args, np, bad)
        except Exception as e:  # noqa: BLE001
            bad.append((fn.__name__ + "_raises", dict(error="%s: %s" % (type(e).__name__, e))))
    ctx.cov["oracle_evaluations"] = sum(v for k, v in ctx.dist.items() if k.startswith("search:"))
    ctx.log("search: %d oracle evaluations on the implementation, %d failures" % (ctx.cov["oracle_evaluations"], len(bad)))
    # at most two reports per kind of violation, smallest inputs first within a kind
    per_kind = {}
    for name, detail in bad:
        per_kind.setdefault(name, []).append(detail)
    for name, details in per_kind.items():
        for detail in details[:2]:
            ctx.fail("property violated on the implementation (%s): %r" % (name, detail), dict(check=name, input=detail), kind="impl")
    if (pr is not None and not pr["ok"]) and not bad and not mism:
        ctx.log("search found no failing input on the implementation")
    ctx.assumptions += [
        "float64 rounding is not modelled: comparisons use 1e-9 tolerances relative to the natural scale of each quantity",
        "np.cos/np.exp/np.log/np.sqrt compute cos/exp/ln/sqrt (checked pointwise by the certified comparison)",
        "Phi x = 1/2 + int_0^x exp(-t^2/2)/sqrt(2 pi) dt is taken as the definition of the standard normal CDF",
        "gauss_quant accuracy for every p is checked against math.erfc on a dense grid; proved only at 12 anchors",
    ]
    return C.finish(ctx, "proof")
