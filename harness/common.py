"""Shared machinery of the /verif checks (see DESIGN.md section 2).

Every check module ``harness/cXX.py`` exposes ``run(ctx)``.  ``ctx`` (a
:class:`Ctx`) carries the tier, the seed and the one PRNG all random choices
derive from, and collects what the run covered; ``finish`` turns that into the
evidence file, the VIOLATION / KNOWN-FINDING lines and the exit status.
"""

import fcntl
import hashlib
import json
import os
import random
import re
import shutil
import subprocess
import sys
import time

ROOT = os.path.dirname(os.path.dirname(os.path.abspath(__file__)))
REPO = os.environ.get("VERIF_REPO", "/repo")
SRC = os.path.join(REPO, "src", "pydrobert", "speech")
COQ = os.path.join(ROOT, "coq")
BUILD = os.path.join(ROOT, "build")
REF = os.path.join(COQ, "ref")  # committed reference copies of the generated model parts (see tie_fallback)
PY = "/venv/bin/python"
GUARD = "PYDROBERT_SPEECH_VERIF"

# Axioms the standard library itself declares and that theorems may rest on
# (DESIGN.md section 5).  Anything else under Print Assumptions fails the check.
AXIOM_WHITELIST = {
    "ClassicalDedekindReals.sig_forall_dec",
    "ClassicalDedekindReals.sig_not_dec",
    "FunctionalExtensionality.functional_extensionality_dep",
    "functional_extensionality_dep",
    "Classical_Prop.classic",
    "classic",
    "sig_forall_dec",
    "sig_not_dec",
}
# primitive machine integers / floats (used by Interval); these are primitives
# and their specification axioms from Coq.Floats.FloatAxioms / Uint63
PRIMITIVE_PREFIXES = (
    "PrimFloat.",
    "PrimInt63.",
    "Uint63.",
    "FloatAxioms.",
    "FloatOps.",
    "Sint63.",
    "Uint63Axioms.",
    "CarryType.",
)
PRIMITIVE_NAMES_RE = re.compile(
    r"^(add|sub|mul|div|sqrt|opp|abs|compare|eqb|ltb|leb|of_uint63|normfr_mantissa|"
    r"frshiftexp|ldshiftexp|next_up|next_down|classify|of_int63|to_Z|of_Z|"
    r"[a-z_0-9]+_spec|[a-z_0-9]+_equiv|.*_SF64.*|.*Prim2SF.*|.*SF2Prim.*|"
    r"float|int|lsl|lsr|land|lor|lxor|mod|head0|tail0|addc|addcarryc|subc|subcarryc|"
    r"mulc|diveucl|diveucl_21|addmuldiv|eqb_correct|eqb_refl|leb_spec|ltb_spec|"
    r"compare_def_spec|head0_spec|tail0_spec|of_to_Z|to_Z_rec_bounded|lsl_spec|lsr_spec|"
    r"land_spec|lor_spec|lxor_spec|asr|asr_spec|divs|divs_spec|mods|mods_spec|ltsb|ltsb_spec|"
    r"lesb|lesb_spec|compares|compares_spec)$"
)


def sh(cmd, timeout=600, cwd=None, env=None, input=None):
    e = dict(os.environ)
    if env:
        e.update(env)
    p = subprocess.run(
        cmd,
        shell=isinstance(cmd, str),
        cwd=cwd,
        env=e,
        input=input,
        stdout=subprocess.PIPE,
        stderr=subprocess.STDOUT,
        timeout=timeout,
        text=True,
    )
    return p.returncode, p.stdout


def impl_env():
    """Environment for running the implementation under test."""
    return {
        "PYTHONPATH": os.path.join(REPO, "src"),
        "PYTHONHASHSEED": "0",
        GUARD: "1",
        "OMP_NUM_THREADS": "1",
        "MKL_NUM_THREADS": "1",
    }


def ensure_impl_path():
    """Make this process import /repo's current working tree."""
    p = os.path.join(REPO, "src")
    if sys.path[0] != p:
        sys.path.insert(0, p)
    os.environ[GUARD] = "1"
    for m in list(sys.modules):
        if m.startswith("pydrobert.speech"):
            f = getattr(sys.modules[m], "__file__", "") or ""
            if not f.startswith(p):
                raise RuntimeError("pydrobert.speech imported from %s, not %s" % (f, p))


class Ctx:
    def __init__(self, pid, tier, seed):
        self.pid = pid
        self.tier = tier
        self.seed = seed
        self.rng = random.Random("%s-%d" % (pid, seed))
        self.t0 = time.time()
        self.cov = {
            "evaluations": 0,
            "distinct_nontrivial": 0,
            "rule": "",
            "samples": [],
            "obligations": 0,
            "discharged": 0,
            "checker_cmd": "",
            "trusted_base": [],
            "traces_validated_against_impl": 0,
        }
        self.assumptions = []
        self.failures = []  # dicts: kind, what, replay(obj), key(optional), no_input(bool)
        self.known_hits = []
        self.fallbacks = []  # reference-model fall-backs taken in this run (see tie_fallback)
        self._nontrivial = set()
        self.dist = {}

    @property
    def thorough(self):
        return self.tier == "thorough"

    def scale(self, quick, thorough):
        if self.thorough:
            return thorough
        if self.fallbacks and isinstance(quick, int) and isinstance(thorough, int) and thorough > quick:
            # the tie by translation is gone: the correspondence carries it alone, so run more of it
            return min(thorough, 2 * quick)
        return quick

    def count(self, key, n=1):
        self.dist[key] = self.dist.get(key, 0) + n

    def case(self, obj, nontrivial=True):
        """Record one evaluated case; obj must be JSON-able."""
        self.cov["evaluations"] += 1
        if nontrivial:
            h = hashlib.sha1(json.dumps(obj, sort_keys=True, default=str).encode()).hexdigest()
            self._nontrivial.add(h)
        if len(self.cov["samples"]) < 6 and (nontrivial or not self.cov["samples"]):
            self.cov["samples"].append(obj)

    def fail(self, what, replay, kind="impl", no_input=False, key=None):
        self.failures.append(
            dict(what=what, replay=replay, kind=kind, no_input=no_input, key=key)
        )

    def log(self, *a):
        print("[%s %6.1fs]" % (self.pid, time.time() - self.t0), *a, flush=True)


# --------------------------------------------------------------------------
# Coq side


def _lock():
    os.makedirs(BUILD, exist_ok=True)
    f = open(os.path.join(BUILD, ".lock"), "w")
    fcntl.flock(f, fcntl.LOCK_EX)
    return f


GREP_GATE = re.compile(
    r"\b(Admitted|admit|Axiom|Axioms|Parameter|Parameters|Conjecture|Conjectures|"
    r"Admit Obligations|bypass_check|native_compute)\b|Unset\s+Guard|Unset\s+Positivity|"
    r"Unset\s+Universe|type-in-type|impredicative-set"
)


def strip_comments(src):
    out, depth, i = [], 0, 0
    while i < len(src):
        if src.startswith("(*", i):
            depth += 1
            i += 2
        elif src.startswith("*)", i) and depth:
            depth -= 1
            i += 2
        else:
            if not depth:
                out.append(src[i])
            i += 1
    return "".join(out)


def coq_closure(rel):
    """Files (relative to coq/) that ``rel`` transitively requires from Verif."""
    seen, todo = [], [rel]
    while todo:
        f = todo.pop()
        if f in seen or not os.path.exists(os.path.join(COQ, f)):
            continue
        seen.append(f)
        src = strip_comments(open(os.path.join(COQ, f)).read())
        MOD = r"[A-Za-z_][\w']*(?:\.[A-Za-z_][\w']*)*"
        for m in re.finditer(r"Require\s+(?:Import\s+|Export\s+)?((?:%s\s+)*%s)\s*\.(?:\s|$)" % (MOD, MOD), src):
            for mod in m.group(1).split():
                mod = mod[6:] if mod.startswith("Verif.") else mod
                cand = mod.replace(".", "/") + ".v"
                if os.path.exists(os.path.join(COQ, cand)):
                    todo.append(cand)
    return seen


def grep_gate(paths=None):
    """Reject forbidden vernacular in the given files (default: whole development)."""
    bad = []
    allv = []
    for d, _, fs in os.walk(COQ):
        for f in fs:
            if f.endswith(".v") or f == "_CoqProject":
                allv.append(os.path.join(d, f))
    if paths is not None:
        allv = [os.path.join(COQ, x) for x in paths] + [os.path.join(COQ, "_CoqProject")]
    for p in allv:
        if os.path.exists(p):
            if True:
                d, f = os.path.split(p)
                src = strip_comments(open(p).read())
                for n, line in enumerate(src.split("\n"), 1):
                    m = GREP_GATE.search(line)
                    if m:
                        bad.append("%s:%d: %s" % (p, n, m.group(0)))
                # Variable/Hypothesis outside a section
                depth = 0
                for n, line in enumerate(src.split("\n"), 1):
                    s = line.strip()
                    if re.match(r"Section\s", s):
                        depth += 1
                    elif re.match(r"End\s", s) and depth:
                        depth -= 1
                    elif depth == 0 and re.match(r"(Variable|Variables|Hypothesis|Hypotheses|Context)\b", s):
                        bad.append("%s:%d: %s outside a section" % (p, n, s.split()[0]))
    return bad


def coq_make(targets, timeout=1500):
    """Full .vo build of the target closure (never -vos), under a lock."""
    lk = _lock()
    try:
        proj = os.path.join(COQ, "_CoqProject")
        vs = []
        for d, _, fs in os.walk(COQ):
            for f in sorted(fs):
                if f.endswith(".v"):
                    vs.append(os.path.relpath(os.path.join(d, f), COQ))
        vs.sort()
        content = "-Q . Verif\n-arg -w -arg -notation-overridden,-deprecated\n" + "\n".join(vs) + "\n"
        if not os.path.exists(proj) or open(proj).read() != content:
            open(proj, "w").write(content)
            rc, out = sh("coq_makefile -f _CoqProject -o Makefile", cwd=COQ)
            if rc:
                return False, out
        elif not os.path.exists(os.path.join(COQ, "Makefile")):
            rc, out = sh("coq_makefile -f _CoqProject -o Makefile", cwd=COQ)
            if rc:
                return False, out
        tg = " ".join(t if t.endswith(".vo") else t + "o" for t in targets)
        rc, out = sh("timeout %d make -j16 %s 2>&1" % (timeout, tg), cwd=COQ, timeout=timeout + 30)
        return rc == 0, out
    finally:
        lk.close()


def _parse_assumptions(out):
    """Split coqc output into the successive Print Assumptions answers."""
    res, cur = [], None
    for line in out.split("\n"):
        if line.startswith("Closed under the global context"):
            if cur is not None:
                res.append(cur)
                cur = None
            res.append([])
        elif line.startswith("Axioms:"):
            if cur is not None:
                res.append(cur)
            cur = []
        elif cur is not None:
            m = re.match(r"^([A-Za-z_][\w.']*)\s*(:|$)", line)
            if m:
                cur.append(m.group(1))
            elif line and not line.startswith(" "):
                res.append(cur)
                cur = None
    if cur is not None:
        res.append(cur)
    return res


def axiom_ok(a):
    if a in AXIOM_WHITELIST or a.split(".")[-1] in {x.split(".")[-1] for x in AXIOM_WHITELIST}:
        return True
    if a.startswith(PRIMITIVE_PREFIXES):
        return True
    return bool(PRIMITIVE_NAMES_RE.match(a.split(".")[-1]))


def coq_props(ctx, pid=None, deps=None, timeout=900):
    """Build the property's proof files and (re)compile its Props.v.

    Returns dict(ok, theorems, discharged, axioms{thm: [..]}, failing, log).
    Props.v holds only ``Theorem .. Proof. exact lemma. Qed.`` and
    ``Print Assumptions``; it is recompiled on every run so that the axiom
    report is fresh.
    """
    pid = pid or ctx.pid
    props = os.path.join(COQ, pid, "Props.v")
    src = open(props).read()
    thms = re.findall(r"^\s*(?:Theorem|Corollary)\s+([\w']+)", strip_comments(src), re.M)
    prints = re.findall(r"^\s*Print Assumptions\s+([\w'.]+)\s*\.", strip_comments(src), re.M)
    res = dict(ok=False, theorems=thms, discharged=[], axioms={}, failing=None, log="", bad_axioms={})
    ctx.cov["checker_cmd"] = (
        "cd /verif/coq && coq_makefile -f _CoqProject -o Makefile && make %s/Props.vo "
        "(coqc 8.16.1, full .vo build; Print Assumptions parsed)" % pid
    )
    gate = grep_gate(coq_closure(os.path.join(pid, "Props.v")))
    if gate:
        res["failing"] = "grep-gate: " + "; ".join(gate[:5])
        res["log"] = "\n".join(gate)
        ctx.cov["obligations"] += len(thms)
        return res
    # dependencies: everything Props.v requires, built by make
    ok, out = coq_make([os.path.join(pid, "Props.v")], timeout=timeout)
    # recompile Props.v itself to capture Print Assumptions
    if ok:
        lk = _lock()
        try:
            rc, out2 = sh(
                "timeout %d coqc -Q . Verif -w -notation-overridden,-deprecated %s/Props.v" % (timeout, pid),
                cwd=COQ,
                timeout=timeout + 30,
            )
        finally:
            lk.close()
        ok = rc == 0
        out = out2
    res["log"] = out
    ctx.cov["obligations"] += len(thms)
    if not ok:
        # which obligation broke?  the first error names a file and a line
        m = re.search(r'File "([^"]+)", line (\d+)', out)
        where = "unknown"
        if m:
            f, ln = m.group(1), int(m.group(2))
            where = "%s:%d" % (os.path.relpath(os.path.join(COQ, f) if not os.path.isabs(f) else f, COQ), ln)
            try:
                lines = open(os.path.join(COQ, f) if not os.path.isabs(f) else f).read().split("\n")
                for k in range(ln - 1, -1, -1):
                    mm = re.match(r"\s*(Theorem|Lemma|Corollary|Definition|Fixpoint|Example|Fact|Remark)\s+([\w']+)", lines[k])
                    if mm:
                        where += " (%s %s)" % (mm.group(1), mm.group(2))
                        break
            except OSError:
                pass
        res["failing"] = where
        return res
    answers = _parse_assumptions(out)
    if len(answers) != len(prints) or len(prints) < len(thms):
        res["failing"] = "Print Assumptions count mismatch (%d answers, %d prints, %d theorems)" % (
            len(answers), len(prints), len(thms))
        return res
    allax = set()
    for name, ax in zip(prints, answers):
        res["axioms"][name] = ax
        bad = [a for a in ax if not axiom_ok(a)]
        if bad:
            res["bad_axioms"][name] = bad
        else:
            res["discharged"].append(name)
        allax.update(a for a in ax if a in AXIOM_WHITELIST or a.split(".")[-1] in ("classic", "sig_forall_dec", "sig_not_dec", "functional_extensionality_dep"))
    ctx.cov["discharged"] += len([t for t in thms if t in res["discharged"]])
    res["ok"] = not res["bad_axioms"] and all(t in res["discharged"] for t in thms)
    if res["bad_axioms"]:
        res["failing"] = "non-whitelisted axioms: %r" % res["bad_axioms"]
    tb = "Coq 8.16.1 kernel (coqc, vm_compute; no native_compute)"
    if tb not in ctx.cov["trusted_base"]:
        ctx.cov["trusted_base"].append(tb)
    if allax:
        ctx.cov["trusted_base"].append("stdlib axioms reported by Print Assumptions for %s: %s" % (pid, ", ".join(sorted(allax))))
    else:
        ctx.cov["trusted_base"].append("Print Assumptions for %s theorems: closed under the global context (or primitive int/float only)" % pid)
    ctx.cov.setdefault("theorems", []).extend(thms)
    if ctx.thorough and res["ok"]:
        # independent re-check of the compiled files of this development and of the Coq
        # standard library parts they use; the add-on libraries installed with the system
        # (Interval, Flocq, Coquelicot, mathcomp, Bignums) are admitted: re-checking
        # Interval alone takes > 25 min
        uc = "/usr/lib/ocaml/coq/user-contrib"
        admits = []
        for lib in ("Interval", "Flocq", "Coquelicot", "mathcomp", "Bignums"):
            for d, _, fs in os.walk(os.path.join(uc, lib)):
                for f in fs:
                    if f.endswith(".vo"):
                        admits.append("-admit " + os.path.relpath(os.path.join(d, f), uc)[:-3].replace("/", "."))
        rc, out = sh("timeout 1500 coqchk -silent -o %s -Q . Verif Verif.%s.Props 2>&1" % (" ".join(admits), pid), cwd=COQ, timeout=1600)
        tail = out[out.find("CONTEXT SUMMARY"):] if "CONTEXT SUMMARY" in out else out[-1500:]
        ax = re.findall(r"^\s{4}([A-Za-z_][\w.']*)\s*$", tail, re.M)
        own = [a for a in ax if not a.startswith(("Coq.", "Interval.", "Flocq.", "Coquelicot.", "mathcomp.", "Bignums."))]
        ctx.cov.setdefault("coqchk", {})[pid] = dict(
            rc=rc, axioms_and_admitted_library_constants=len(ax), outside_the_libraries=own,
            summary=re.sub(r"\* Axioms:.*?(\* Constants/Inductives relying on type-in-type)", r"* Axioms: (%d library constants, see count) \1" % len(ax), tail, flags=re.S)[:1500])
        bad = ""
        for sect in ("type-in-type", "unsafe (co)fixpoints", "positivity is assumed"):
            m = re.search(re.escape(sect) + r":\s*(\S.*)", tail)
            if m and "<none>" not in m.group(1):
                bad += "%s: %s; " % (sect, m.group(1))
        if own:
            bad += "axioms outside the libraries: %s" % own[:5]
        if rc == 124:
            ctx.cov["trusted_base"].append("coqchk on Verif.%s.Props timed out after 1500 s: skipped (coqc's kernel check stands)" % pid)
        elif rc != 0 or bad:
            res["ok"] = False
            res["failing"] = "coqchk: rc=%d %s" % (rc, bad)
        else:
            ctx.cov["trusted_base"].append("coqchk -o re-checked Verif.%s.Props, its Verif dependencies and the stdlib parts used (add-on libraries admitted)" % pid)
    return res


def coq_eval(ctx, name, body, requires, timeout=600, pid=None):
    """Compile a generated case file and return the printed results.

    ``body`` is vernacular; every ``Eval vm_compute in e.`` answer is returned
    as one string (the text between ``= `` and the type line).
    """
    pid = pid or ctx.pid
    d = os.path.join(BUILD, pid)
    os.makedirs(d, exist_ok=True)
    path = os.path.join(d, name + ".v")
    head = "Set Printing Width 2000000000.\nSet Printing Depth 2000000000.\n" + requires + "\n"
    open(path, "w").write(head + body)
    rc, out = sh(
        "ulimit -s unlimited 2>/dev/null; timeout %d coqc -Q %s Verif -w -notation-overridden,-deprecated %s" % (timeout, COQ, path),
        timeout=timeout + 30,
    )
    if rc:
        return None, out
    answers = []
    cur = None
    for line in out.split("\n"):
        if line.startswith("     = "):
            cur = [line[7:]]
        elif cur is not None and line.startswith("     : "):
            answers.append("\n".join(cur))
            cur = None
        elif cur is not None:
            cur.append(line)
    return answers, out


def coq_eval_many(ctx, files, requires, timeout=900, pid=None):
    """files: list of (name, body).  Compiled in parallel; returns list of (answers, log)."""
    from concurrent.futures import ThreadPoolExecutor

    with ThreadPoolExecutor(max_workers=12) as ex:
        futs = [ex.submit(coq_eval, ctx, n, b, requires, timeout, pid) for n, b in files]
        return [f.result() for f in futs]


def parse_coq(s):
    """Parse Coq's printing of nested lists / tuples / ints / bools / option."""
    toks = re.findall(r"-?\d+|[A-Za-z_][\w']*|[\[\]();,]", s.replace("%Z", "").replace("%nat", "").replace("%N", ""))
    pos = [0]

    def peek():
        return toks[pos[0]] if pos[0] < len(toks) else None

    def nxt():
        t = toks[pos[0]]
        pos[0] += 1
        return t

    def atom():
        t = nxt()
        if t == "[":
            items = []
            if peek() == "]":
                nxt()
                return items
            while True:
                items.append(expr())
                t2 = nxt()
                if t2 == "]":
                    return items
                assert t2 == ";", t2
        if t == "(":
            items = [expr()]
            while peek() == ",":
                nxt()
                items.append(expr())
            assert nxt() == ")"
            return tuple(items) if len(items) > 1 else items[0]
        if re.match(r"-?\d+$", t):
            return int(t)
        if t == "true":
            return True
        if t == "false":
            return False
        if t == "None":
            return None
        if t == "nil":
            return []
        return ("@" + t,)

    def expr():
        a = atom()
        if isinstance(a, tuple) and len(a) == 1 and isinstance(a[0], str) and a[0].startswith("@"):
            args = []
            while peek() not in (None, "]", ")", ";", ","):
                args.append(atom())
            if a[0] == "@Some" and len(args) == 1:
                return ("Some", args[0])
            return (a[0][1:],) + tuple(args)
        return a

    v = expr()
    return v


def zlist(xs):
    """Render a (nested) Python list/tuple of ints/bools as a Coq term (Z scope)."""
    if isinstance(xs, bool):
        return "true" if xs else "false"
    if isinstance(xs, int):
        return "(%d)" % xs if xs < 0 else str(xs)
    if isinstance(xs, tuple):
        return "(" + ", ".join(zlist(x) for x in xs) + ")"
    if xs is None:
        return "None"
    return "[" + "; ".join(zlist(x) for x in xs) + "]"


# --------------------------------------------------------------------------
# reference model fall-back
#
# The generated model parts (coq/gen/*.v) tie the theorems to the source by TRANSLATION.  A translator is
# fail-closed: it rejects any statement it does not recognise, so a harmless rewrite of the code (a renamed
# local, an extracted helper) makes it give up although nothing the property speaks of has changed.  The
# brief allows a second kind of tie - a hand-kept model validated by a correspondence check against the
# implementation - and that is what a check falls back to: coq/ref/ holds the model parts generated from
# the tree the proofs were written for (committed; refreshed by tools/mkref.py); when translation fails, or
# succeeds but the proofs no longer go through on its output, the reference copy is put in place, the proofs
# are re-checked on it and the model-vs-implementation correspondence and the direct search run at twice
# their quick size.  Only if those find a disagreement is there a violation (with its input); if they
# cannot run at all the old verdict stands (VIOLATION ... no-failing-input-found).  Every fall-back taken is
# printed (TIE-FALLBACK ...) and recorded in the evidence.


def gen_files_in(text):
    return sorted(set(re.findall(r"coq/gen/([A-Za-z0-9_]+\.v)", text or "")))


def use_reference(files):
    """Put coq/ref/<f> in place of coq/gen/<f>; returns (all_available, replaced)."""
    replaced, ok = [], True
    os.makedirs(os.path.join(COQ, "gen"), exist_ok=True)
    for f in files:
        src, dst = os.path.join(REF, f), os.path.join(COQ, "gen", f)
        if not os.path.exists(src):
            ok = False
            continue
        if not os.path.exists(dst) or open(src).read() != open(dst).read():
            shutil.copy(src, dst)
            replaced.append(f)
    return ok, replaced


def tie_fallback(ctx, what, replay, kind="tie", no_input=True, files=None):
    """A translator gave up.  Fall back to the reference model if there is one (returns True: go on as if
    generation had succeeded); otherwise record the broken tie as before (returns False)."""
    files = files or gen_files_in(json.dumps(replay, default=str))
    if os.environ.get("VERIF_NO_FALLBACK") or not files:
        ctx.fail(what, replay, kind=kind, no_input=no_input)
        return False
    lk = _lock()
    try:
        ok, replaced = use_reference(files)
    finally:
        lk.close()
    if not ok:
        ctx.fail(what, replay, kind=kind, no_input=no_input)
        return False
    ctx.fallbacks.append(dict(reason=what[:400], reference_files=files, replaced=replaced))
    ctx.log("TIE-FALLBACK: %s -- using the reference model %s and an enlarged correspondence" % (what[:160], ", ".join(files)))
    return True


# --------------------------------------------------------------------------
# verdict


def load_known(pid):
    known, fixed = [], []
    p = os.path.join(ROOT, "known_findings.txt")
    if os.path.exists(p):
        for line in open(p):
            line = line.strip()
            m = re.match(r"known:\s+property=(\w+)\s+key=(\S+)\s+(.*)", line)
            if m and m.group(1) == pid:
                known.append((m.group(2), m.group(3)))
            m = re.match(r"fixed:\s+property=(\w+)\s+(\S+)\s+(.*)", line)
            if m and m.group(1) == pid:
                fixed.append((m.group(2), m.group(3)))
    return known, fixed


def finish(ctx, level="proof"):
    known, _ = load_known(ctx.pid)
    knownkeys = dict(known)
    real = []
    hits = {}
    for f in ctx.failures:
        if f.get("key") and f["key"] in knownkeys:
            hits.setdefault(f["key"], f)
        else:
            real.append(f)
    for k, f in hits.items():
        print("KNOWN-FINDING: property=%s %s -- %s" % (ctx.pid, k, knownkeys[k]))
    ctx.cov["distinct_nontrivial"] = len(ctx._nontrivial)
    ctx.cov["input_distribution"] = ctx.dist
    if ctx.fallbacks:
        ctx.cov["tie_fallback"] = ctx.fallbacks
        ctx.cov["trusted_base"].append("TIE-FALLBACK: the translator tie was replaced in this run by the committed reference model coq/ref/* "
                                       "validated through the (enlarged) correspondence with the implementation")
        for fb in ctx.fallbacks:
            print("TIE-FALLBACK: property=%s %s" % (ctx.pid, fb["reason"][:200]))
    ev = dict(
        property_id=ctx.pid,
        tier=ctx.tier,
        seed=ctx.seed,
        level=level,
        coverage=ctx.cov,
        assumptions=ctx.assumptions,
        wall_s=round(time.time() - ctx.t0, 2),
        violations=len(real),
    )
    os.makedirs(os.path.join(ROOT, "evidence"), exist_ok=True)
    with open(os.path.join(ROOT, "evidence", ctx.pid + ".json"), "w") as fo:
        json.dump(ev, fo, indent=1, default=str)
        fo.write("\n")
    if not real:
        ctx.log("OK: obligations %d/%d, %d evaluations, %d distinct non-trivial" % (
            ctx.cov["discharged"], ctx.cov["obligations"], ctx.cov["evaluations"], ctx.cov["distinct_nontrivial"]))
        return 0
    os.makedirs(os.path.join(ROOT, "replay"), exist_ok=True)
    # one VIOLATION line per run: prefer a failure with a concrete input
    real.sort(key=lambda f: f["no_input"])
    f = real[0]
    path = os.path.join(ROOT, "replay", "%s-%d.json" % (ctx.pid, ctx.seed))
    with open(path, "w") as fo:
        json.dump(dict(property=ctx.pid, seed=ctx.seed, tier=ctx.tier, failure=f, all_failures=real[:20]), fo, indent=1, default=str)
    for g in real[:10]:
        ctx.log("FAIL[%s]: %s" % (g["kind"], g["what"]))
    tail = " no-failing-input-found" if all(g["no_input"] for g in real) else ""
    print("VIOLATION property=%s replay=%s%s" % (ctx.pid, path, tail))
    return 1


def proof_step(ctx, search=None, pid=None):
    """Run the proof obligations; if they break, run ``search`` for a concrete input."""
    r = coq_props(ctx, pid=pid)
    if r["ok"]:
        ctx.log("proofs: %d theorems discharged (%s)" % (len(r["theorems"]), ", ".join(r["theorems"][:6]) + ("..." if len(r["theorems"]) > 6 else "")))
        return r
    ctx.log("proof obligations broken at %s" % r["failing"])
    # the proofs do not go through on the model generated from the current source: are they still proofs
    # about the reference model?  (then the correspondence decides whether the code still behaves like it)
    if not os.environ.get("VERIF_NO_FALLBACK") and not str(r["failing"]).startswith(("grep-gate", "non-whitelisted", "coqchk")):
        gens = [os.path.basename(f) for f in coq_closure(os.path.join(pid or ctx.pid, "Props.v")) if f.startswith("gen/")]
        differing = [g for g in gens if os.path.exists(os.path.join(REF, g)) and
                     (not os.path.exists(os.path.join(COQ, "gen", g)) or open(os.path.join(REF, g)).read() != open(os.path.join(COQ, "gen", g)).read())]
        if differing:
            lk = _lock()
            try:
                use_reference(differing)
            finally:
                lk.close()
            ctx.cov["obligations"] = 0
            ctx.cov["discharged"] = 0
            r2 = coq_props(ctx, pid=pid)
            if r2["ok"]:
                why = "proof obligation no longer checks on the model generated from the current source (%s); it does on the reference model" % r["failing"]
                ctx.fallbacks.append(dict(reason=why, reference_files=differing, replaced=differing))
                ctx.log("TIE-FALLBACK: %s -- using the reference model %s and an enlarged correspondence" % (why[:200], ", ".join(differing)))
                return r2
            r = r2
    tail = "\n".join(r["log"].split("\n")[-25:])
    ctx.fail("proof obligation no longer checks: %s" % r["failing"], dict(theorem_or_file=r["failing"], log_tail=tail), kind="proof", no_input=True)
    return r
