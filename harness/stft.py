"""Shared driver for the STFT frame computer (C01, C02, C04, C14).

Runs histories of compute_chunk / finalize / compute_full /
frame_by_frame_calculation on ONE real instance with index-coded signals
(utterance u carries the integers base_u + i) and records, per call, the frames
handed to the per-frame routine (by wrapping ``_compute_frame``), or the
exception type; the same histories are evaluated on the Coq model
(coq/Stft/Model.v) and compared inside Coq.
"""

import numpy as np

from . import common as C


def regenerate(ctx):
    """Run gen/stft.py on the current source (coq/gen/StftK.v feeds coq/Stft/Tie.v)."""
    import os
    import sys

    sys.path.insert(0, os.path.join(C.ROOT, "gen"))
    import stft as gen_stft

    try:
        gen_stft.main(C.SRC, os.path.join(C.COQ, "gen", "StftK.v"))
        return True
    except Exception as e:  # noqa: fail closed
        if not C.tie_fallback(ctx, "translator gen/stft.py no longer recognises compute.py / torch.py: %s" % e,
                 dict(correspondence="gen/stft.py -> coq/gen/StftK.v", error=str(e)[:500]), kind="tie", no_input=True):
            return False
        return True


def regenerate_scalar(ctx):
    """Run gen/stft_scalar.py on the current source (coq/gen/StftR.v feeds coq/Stft/ScalarTie.v)."""
    import os
    import sys

    sys.path.insert(0, os.path.join(C.ROOT, "gen"))
    import stft_scalar

    try:
        stft_scalar.main(C.SRC, os.path.join(C.COQ, "gen", "StftR.v"))
        return True
    except Exception as e:  # noqa: fail closed
        if not C.tie_fallback(ctx, "translator gen/stft_scalar.py no longer recognises the energy / log-floor / DFT-size code of compute.py / torch.py: %s" % e,
                 dict(correspondence="gen/stft_scalar.py -> coq/gen/StftR.v", error=str(e)[:500]), kind="tie", no_input=True):
            return False
        return True


def regenerate_si(ctx):
    """Run gen/si.py on the current source (coq/gen/SiK.v feeds coq/C03/Tie.v)."""
    import os
    import sys

    sys.path.insert(0, os.path.join(C.ROOT, "gen"))
    import si as gen_si

    try:
        gen_si.main(C.SRC, os.path.join(C.COQ, "gen", "SiK.v"))
        return True
    except Exception as e:  # noqa: fail closed
        if not C.tie_fallback(ctx, "translator gen/si.py no longer recognises ShortIntegrationFrameComputer (compute.py): %s" % e,
                 dict(correspondence="gen/si.py -> coq/gen/SiK.v", error=str(e)[:500]), kind="tie", no_input=True):
            return False
        return True


def make_computer(Lv, Sv, centered, kaldi, record):
    C.ensure_impl_path()
    from pydrobert.speech import compute, filters

    class StubBank(filters.LinearFilterBank):
        aliases = set()

        def __init__(self):
            pass

        is_real = True
        is_analytic = False
        is_zero_phase = True
        num_filts = 1
        sampling_rate = 1000.0
        supports_hz = ((0.0, 500.0),)
        supports = ((-2, 2),)

        def get_impulse_response(self, i, w):
            raise NotImplementedError

        def get_frequency_response(self, i, w, half=False):
            raise NotImplementedError

        def get_truncated_response(self, i, w):
            return 0, np.ones(w // 2 + 1)

    c = compute.STFTFrameComputer(
        StubBank(),
        frame_length_ms=Lv,
        frame_shift_ms=Sv,
        frame_style="centered" if centered else "causal",
        kaldi_shift=kaldi,
        use_log=False,
        pad_to_nearest_power_of_two=False,
    )
    assert c.frame_length == Lv and c.frame_shift == Sv, (c.frame_length, c.frame_shift, Lv, Sv)
    orig = c._compute_frame

    def wrapped(frame, coeffs, *a, **k):
        # extra positional / keyword arguments of the per-frame routine are forwarded untouched
        record.append([int(round(float(v))) for v in frame])
        assert np.array_equal(np.asarray(frame, dtype=np.float64), np.asarray(record[-1], dtype=np.float64))
        return orig(frame, coeffs, *a, **k)

    c._compute_frame = wrapped
    return c


def run_history(cfg, ops):
    """cfg = (L, S, centered, kaldi); ops = list of ('chunk', xs) | ('finalize',) |
    ('full', xs) | ('fbf', xs, k).  Returns (outs, started_flags, shapes_ok)."""
    from pydrobert.speech import compute

    rec = []
    c = make_computer(*cfg, rec)
    outs, sts = [], []
    ok_shapes = True
    for o in ops:
        del rec[:]
        try:
            if o[0] == "chunk":
                x = np.asarray(o[1], dtype=np.float64)
                x.setflags(write=False)
                r = c.compute_chunk(x)
            elif o[0] == "finalize":
                r = c.finalize()
            elif o[0] == "full":
                x = np.asarray(o[1], dtype=np.float64)
                x.setflags(write=False)
                r = c.compute_full(x)
            else:
                x = np.asarray(o[1], dtype=np.float64)
                x.setflags(write=False)
                r = compute.frame_by_frame_calculation(c, x, o[2])
            if r.shape != (len(rec), c.num_coeffs):
                ok_shapes = False
            outs.append([list(f) for f in rec])
        except ValueError:
            outs.append(None)
        sts.append(bool(c.started))
    return outs, sts, ok_shapes


def coq_op(o):
    if o[0] == "chunk":
        return "OChunk %s" % C.zlist(list(o[1]))
    if o[0] == "finalize":
        return "OFinalize"
    if o[0] == "full":
        return "OFull %s" % C.zlist(list(o[1]))
    return "OFbf %s %s" % (C.zlist(list(o[1])), C.zlist(int(o[2])))


def coq_out(r):
    return "None" if r is None else "Some %s" % C.zlist(r)


def coq_case(cfg, ops, outs, sts):
    Lv, Sv, cen, kal = cfg
    return "(mkcfg %d %d %s %s, [%s], [%s], %s)" % (
        Lv, Sv, "true" if cen else "false", "true" if kal else "false",
        "; ".join(coq_op(o) for o in ops),
        "; ".join(coq_out(r) for r in outs),
        C.zlist([bool(b) for b in sts]),
    )


REQ = "From Coq Require Import ZArith List Bool.\nFrom Verif Require Import lib.ZList Stft.Model Stft.Exec.\nImport ListNotations.\nOpen Scope Z_scope.\n"


def compare_with_model(ctx, cases, tag, shard=150):
    """cases: list of (cfg, ops, outs, sts).  Returns indices the model disagrees on."""
    ok, out = C.coq_make(["Stft/Exec.v"])
    if not ok:
        ctx.fail("model coq/Stft no longer compiles", dict(correspondence="coq/Stft/Exec.v", log_tail=out[-1500:]), kind="tie", no_input=True)
        return None
    files = []
    for i in range(0, len(cases), shard):
        body = "Definition cases : list case := [\n%s\n].\nEval vm_compute in (bad_indices 0 cases).\n" % ";\n".join(
            coq_case(*k) for k in cases[i:i + shard])
        files.append(("%s_%d" % (tag, i // shard), body))
    res = C.coq_eval_many(ctx, files, REQ)
    bad = []
    for n, (ans, log) in enumerate(res):
        if ans is None or len(ans) != 1:
            ctx.fail("model evaluation failed", dict(correspondence=files[n][0], log_tail=(log or "")[-1500:]), kind="tie", no_input=True)
            return None
        bad += [n * shard + int(j) for j in C.parse_coq(ans[0])]
    return bad


def model_output(ctx, case, tag="one"):
    body = "Eval vm_compute in (model_out %s).\n" % coq_case(*case)
    ans, log = C.coq_eval(ctx, tag, body, REQ)
    return ans[0] if ans else log[-800:]


def rand_composition(rng, n, style):
    """Cut range(n) into consecutive chunk lengths (may include empty chunks)."""
    if style == "one":
        return [n]
    if style == "ones":
        return [1] * n
    parts, left = [], n
    while left > 0:
        if style == "small":
            k = rng.choice([0, 1, 1, 2, 3])
        elif style == "big":
            k = rng.randint(0, max(1, n))
        else:
            k = rng.choice([0, 0, 1, 2, rng.randint(0, max(1, left)), rng.randint(0, 8)])
        k = min(k, left)
        parts.append(k)
        left -= k
    if rng.random() < 0.3:
        parts.insert(rng.randint(0, len(parts)), 0)
    return parts


def rand_cfg(rng, maxL=24):
    u = rng.random()
    if u < 0.6:
        Lv = rng.randint(1, 10)
    elif u < 0.95:
        Lv = rng.randint(1, maxL)
    else:
        Lv = rng.choice([25, 32, 40])
    Sv = rng.randint(1, Lv)
    if rng.random() < 0.15:
        Sv = rng.choice([1, Lv, max(1, Lv - 1), max(1, Lv // 2)])
    # (False, True): kaldi_shift given to a causal computer - the flag is documented for the centered style only and must be ignored
    style = rng.choice([(False, False), (True, False), (True, True), (False, False), (True, False), (True, True), (False, True)])
    return (Lv, Sv, style[0], style[1])


def interesting_lengths(cfg):
    Lv, Sv = cfg[0], cfg[1]
    s = {0, 1, Sv // 2, Sv // 2 + 1, Lv // 2, Lv // 2 + 1, Lv - 1, Lv, Lv + 1, (Lv + 1) // 2 + Sv // 2}
    for j in range(0, 4):
        for r in (0, 1, Sv // 2, Sv - 1):
            s.add(Lv + j * Sv + r)
    return sorted(x for x in s if x >= 0)


# --------------------------------------------------------------------------
# memory layouts of a 1-D signal (the same samples as a view into a longer / multi-channel / reversed / read-only array)
LAYOUTS = ["contiguous", "contiguous", "every second sample of a longer array", "one channel of an interleaved stereo array",
           "slice at an offset of a longer array", "reversed view", "read-only"]


def laid_out(x, layout):
    """x's values in the given memory layout: (array to hand over, backing array, pristine copy of the backing array)."""
    n = len(x)
    if layout == "every second sample of a longer array":
        back = np.full(2 * n + 1, 7.0, dtype=x.dtype)
        back[1 : 2 * n : 2] = x
        v = back[1 : 2 * n : 2]
    elif layout == "one channel of an interleaved stereo array":
        back = np.full((n, 2), 7.0, dtype=x.dtype)
        back[:, 1] = x
        v = back[:, 1]
    elif layout == "slice at an offset of a longer array":
        back = np.full(n + 11, 7.0, dtype=x.dtype)
        back[5 : 5 + n] = x
        v = back[5 : 5 + n]
    elif layout == "reversed view":
        back = x[::-1].copy()
        v = back[::-1]
    elif layout == "read-only":
        back = x.copy()
        v = back
        v.setflags(write=False)
    else:
        back = x.copy()
        v = back
    assert v.shape == (n,) and np.array_equal(v, x)
    return v, back, back.copy()
