#!/bin/sh
# Build the Coq development of every CLAIMED property from files on disk (offline),
# after regenerating the model parts that are translated from /repo's current source.
set -e
cd "$(dirname "$0")"
/venv/bin/python tools/regen.py
cd coq
find . -name '*.v' | sed 's|^\./||' | sort > ../build/.vfiles.$$ 2>/dev/null || { mkdir -p ../build; find . -name '*.v' | sed 's|^\./||' | sort > ../build/.vfiles.$$; }
( echo "-Q . Verif"; echo "-arg -w -arg -notation-overridden,-deprecated"; cat ../build/.vfiles.$$ ) > _CoqProject
rm -f ../build/.vfiles.$$
coq_makefile -f _CoqProject -o Makefile
TARGETS=$(/venv/bin/python ../tools/targets.py)
# -k: a development whose proofs do not go through on the model generated from this tree must not keep the
# others from being built; the check of the property concerned rebuilds its own closure and reports it
timeout 3000 make -k -j16 $TARGETS || echo "setup: some targets did not build; the checks concerned report them"
exit 0
