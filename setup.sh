#!/bin/sh
# Build the Coq development of every CLAIMED property from files on disk (offline),
# after regenerating the model parts that are translated from /repo's current source.
set -e
cd "$(dirname "$0")"
/venv/bin/python tools/regen.py
cd coq
find . -name '*.v' | sed 's|^\./||' | sort > ../build/.vfiles.$$ 2>/dev/null || { mkdir -p ../build; find . -name '*.v' | sed 's|^\./||' | sort > ../build/.vfiles.$$; }
( echo "-Q . Verif"; echo "-arg -w -arg -notation-overridden,-deprecated"; cat ../build/.vfiles.$$ ) > _CoqProject
rm -f ../build/.vfiles.$$
coq_makefile -f _CoqProject -o Makefile
TARGETS=$(/venv/bin/python ../tools/targets.py)
timeout 3000 make -j16 $TARGETS
