#!/bin/sh
# Build the whole Coq development from files on disk (offline), after regenerating
# the model parts that are translated from /repo's current source.
set -e
cd "$(dirname "$0")"
/venv/bin/python tools/regen.py
cd coq
find . -name '*.v' | sed 's|^\./||' | sort > /tmp/verif_vfiles.$$
( echo "-Q . Verif"; echo "-arg -w -arg -notation-overridden,-deprecated"; cat /tmp/verif_vfiles.$$ ) > _CoqProject
rm -f /tmp/verif_vfiles.$$
coq_makefile -f _CoqProject -o Makefile
timeout 3000 make -j16
