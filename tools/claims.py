"""What MANIFEST.json claims, per property (edited as checks are built)."""

CLAIMS = {
    "C19": dict(
        text="Coq theorems (inverse laws, strict monotonicity, continuity incl. the Bark break-points, anchor values) about R-valued definitions that are regenerated from scales.py by a translator on every run; implementation values certified against those definitions by Interval.",
        note="Trusted: Coq kernel; stdlib real-number axioms (sig_forall_dec, sig_not_dec, classic, functional_extensionality_dep) and, for interval, primitive int/float axioms; the ast translator gen/scales.py; float64 rounding not modelled (1e-9 tolerance).",
        technique="Coq proof over R on a model generated from source by translator + Interval-certified correspondence",
    ),
}

_PENDING = "check not built yet in this round (planned, see DESIGN.md section 4); not claimed until its proof and tie exist"
NOT_APPLICABLE = {
    "C%02d" % i: _PENDING for i in range(1, 21) if "C%02d" % i not in CLAIMS
}
