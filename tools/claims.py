"""What MANIFEST.json claims, per property (edited as checks are built)."""

CLAIMS = {
    "C19": dict(
        text="Coq theorems (inverse laws, strict monotonicity, continuity incl. the Bark break-points, anchor values; images: each map sends its domain into and onto the other's, so the two directions are mutually inverse bijections mel (-700,oo)<->R, octave (0,oo)<->R, Bark (-1960,oo)<->(-oo,27.6396), with injectivity corollaries) about R-valued definitions that are regenerated from scales.py by a translator on every run; implementation values certified against those definitions by Interval.",
        note="Trusted: Coq kernel; stdlib real-number axioms (sig_forall_dec, sig_not_dec, classic, functional_extensionality_dep) and, for interval, primitive int/float axioms; the ast translator gen/scales.py; float64 rounding not modelled (1e-9 tolerance).",
        technique="Coq proof over R on a model generated from source by translator + Interval-certified correspondence",
    ),
}

CLAIMS["C01"] = dict(
    text="Coq theorem stft_stream_eq_full: for every configuration with 0 < shift <= length (causal, centered, kaldi_shift), every sample type and EVERY list of chunks (empty and single-sample chunks included), compute_chunk* then finalize hands the per-frame routine exactly the frames compute_full does (so features are bit-identical); corollaries for any two chunkings and for frame_by_frame_calculation with any chunk_size > 0. Proved by an explicit invariant over the buffer / remainder / first-frame state (coq/Stft/Stream.v), closed under the global context. The short-integration half is proved in coq/C03 when that development is present.",
    note="Trusted: Coq kernel; the hand-written model coq/Stft/Model.v of the framing logic and of NumPy slicing / symmetric padding (tied to the code by a correspondence that compares, inside Coq, the exact frames captured from the implementation on index-coded signals over random and exhaustive chunkings); the per-frame routine is a pure function of the frame; float round-off not modelled.",
    technique="Coq proof by invariant/refinement over all chunk lists on a hand-written executable model + vm_compute correspondence with the implementation",
)
CLAIMS["C04"] = dict(
    text="Coq theorems over ALL histories of compute_chunk / finalize / compute_full / frame_by_frame_calculation on one STFT instance with arbitrary stale buffer contents: after any idle point the outputs of any further operations equal those of a fresh instance (stale cells are never read), started is a fold of the history (true exactly from a chunk to the next finalize), mid-utterance compute_full / frame_by_frame_calculation are refused and leave the state untouched; fresh-twin theorems for the short-integration computer from any idle state; both models are proved equal to their re-assembly from the integer expressions extracted from compute.py on every run, and the work buffers are shown to be allocated once, as float64, at construction (their precision cannot depend on earlier utterances). Closed under the global context.",
    note="Trusted: Coq kernel; model coq/Stft/Model.v tied by correspondence of random histories (outputs, exception kind, started after every call). The no-mutation / read-only-input clause is covered by the differential fresh-twin comparison only (bit-for-bit, histories mixing float16/32/64 utterances), not by proof.",
    technique="Coq proof (relational invariant over operation histories) + vm_compute correspondence + fresh-twin differential oracle",
)

CLAIMS["C02"] = dict(
    text="Coq theorems: compute_full yields exactly (N + S/2)/S frames of frame_length samples for N >= L/2+1 and none below; frame k is the window [kS, kS+L) of the symmetrically padded signal whose every element is x[sym N (i - pad_left)] (reflection repeated as often as needed), equal to the documented slice of the signal for each style / kaldi_shift when no padding is involved; the segment walk of _compute_frame (and of the torch port) makes tap j meet full-spectrum bin (start+j) mod D for EVERY DFT size, start bin and length, never running out of fuel; hence for complex / analytic banks the accumulated coefficient equals the sum over the full spectrum of phi(X[k] H[k]) with H rebuilt by the documented recipe (abstract commutative monoid, Hermitian-symmetric spectrum); the default frame length keeps a DFT bin strictly inside every filter's support. The energy block, the per-filter post-processing (factor 2 of real banks, log floor) and the DFT-size rule are symbolically executed from compute.py on every run (gen/stft_scalar.py) and proved equal to the documented definitions: mean square (its root unless use_power) floored AFTER the root, 2 x sum then floor/log, first power of two at or beyond frame_length (dft_size_pad_spec: minimal, < 2L, powers of two are fixed points).",
    note="Trusted: Coq kernel; hand-written models coq/Stft/Model.v (framing) and coq/Stft/Walk.v (walk), tied to the source by Stft/Tie.v (integer expressions extracted by gen/stft.py), Stft/ScalarTie.v (scalar blocks extracted by gen/stft_scalar.py) and by exact probes (one-hot filters on a frame with half spectrum 1,2,3,.. for numpy and torch; index-coded frames); np.fft.rfft computes the DFT sum (its Hermitian symmetry for a real frame is proved in Stft/Dft.v over an abstract ring with conjugation: dft_hermitian, and the spectrum theorems are instantiated for it). Float round-off is covered by the independent full-spectrum oracle only (1e-8; it derives the DFT size from the documented rule and includes quiet / silent frames on both sides of the log floor). default_length_keeps_a_bin is over R (stdlib real axioms).",
    technique="Coq proofs (induction on the walk's fuel with a modular-arithmetic invariant; list/index algebra; cyclic re-indexing of sums) + exact vm_compute correspondence + independent numeric oracle",
)

CLAIMS["C14"] = dict(
    text="Coq theorems: the flip-based padding and strided framing of pytorch_stft_frame_computer hands the filtering stage exactly compute_full's frames for EVERY signal length and every 0 < S <= L (torch_pad = np.pad symmetric incl. repeated reflection); both implementations share the segment walk proved correct for all D/start/len; empty results have the same number of columns; the energy coefficient identities over R; the torch pre-emphasis formulation equals the numpy one, which satisfies the documented recurrence; the torch port's energy block, per-segment doubling, final clamp/log and default DFT size (symbolically executed from torch.py on every run) equal numpy's for every list of segment sums.",
    note="Trusted: Coq kernel; hand-written coq/Stft/Torch.v tied by exact capture of the frames at torch.fft.rfft (index-coded signals) and one-hot walk probes of the torch port; energy theorems over R (stdlib real axioms). Module-vs-NumPy values (float32 buffers: 2e-5 / 2e-3 tolerances), wrappers, TorchScript == eager, independence of the module state (train/eval, container, scripted) and the RNG distribution of PyTorchDither are differential only.",
    technique="Coq proof (list algebra; shared walk theorem; real identities) + exact vm_compute correspondence + numeric differential oracle",
)
CLAIMS["C11"] = dict(
    text="Coq theorems about read_signal's decision logic regenerated from util.py by a translator (suffix inference sound/complete incl. the table regex, IOError iff nothing matches, ValueError for stream-without/unknown force_as, inference and dispatch consistent, name = stream + inferred type, dtype = final astype for wav/npy/npz/pt/soundfile and HDF5's saturating conversion for hdf5, key selection, HDF5 default search = first dataset in sorted pre-order and terminates, wave decoding round trip for all widths/channels/lengths, wds_read_signal total); codec round trips per container x path/stream x dtype/key/force_as are differential.",
    note="Trusted: Coq kernel (no axioms: all theorems closed under the global context); translator gen/readsig.py; third-party codecs (wave, numpy, torch, h5py, libsndfile) are oracles, _sphere.py is C12/C13; hand models of _wave_read_signal/_hdf5_read_signal tied by correspondence only; integer-coded array data; ASCII names in the compared cases; scipy branch of the wav reader not exercised (not installed).",
    technique="Coq proof on a model generated from source by translator + vm_compute correspondence against the implementation + direct search",
)
CLAIMS["C15"] = dict(
    text="Coq theorems about an executable model of Deltas/Stack for tensors of any rank: pad+correlate+crop equals the documented same-size correlation for every pad mode, the filter recursion (Kaldi) and its composition law, the exact layout of Deltas.apply for concatenate/stack along any target_axis with dtype kept, Stack's out[t,i*F+f]=x[t*n+i,f] for both code paths with drop/pad of the last run, and agreement of the 2-D and N-D paths; integer expressions of the code are regenerated from post.py by a translator and re-proved; the model is compared exactly with the implementation on generated integer tensors.",
    note="Trusted: Coq kernel (no axioms); ast translator gen/post_c15.py; NumPy primitives as modelled (pad/correlate/convolve/slicing/concatenate/stack/reshape); float rounding not modelled (integer-coded runs); non-mutation/aliasing of the input only checked differentially.",
    technique="Coq proof on a hand-written model whose integer expressions are generated from source + vm_compute correspondence + direct oracle",
)

# checks built by sub-engineers: their claim text lives in coq/<pid>/NOTES.md
# ("claims.py snippet" code block); enabled here once reviewed and run.
ENABLED_FROM_NOTES = ["C03", "C05", "C06", "C07", "C08", "C09", "C10", "C12", "C13", "C16", "C17", "C18", "C20"]


def _from_notes(pid):
    import os, re
    root = os.path.dirname(os.path.dirname(os.path.abspath(__file__)))
    txt = open(os.path.join(root, "coq", pid, "NOTES.md")).read()
    i = txt.index("claims.py snippet")
    m = re.search(r"```python\n(.*?)```", txt[i:], re.S)
    body = m.group(1).strip().rstrip(",")
    if body.startswith("CLAIMS["):
        ns = {"CLAIMS": {}}
        exec(body, ns)
        return ns["CLAIMS"][pid]
    d = eval("{" + body + "}")
    return d[pid]


for _pid in ENABLED_FROM_NOTES:
    if _pid not in CLAIMS:
        CLAIMS[_pid] = _from_notes(_pid)

_PENDING = "check not built yet in this round (planned, see DESIGN.md section 4); not claimed until its proof and tie exist"
NOT_APPLICABLE = {
    "C%02d" % i: _PENDING for i in range(1, 21) if "C%02d" % i not in CLAIMS
}
