#!/bin/sh
# copy finished wave-10 candidates and confirm them (tools/verify_seed.py); usage: collect_wave2.sh C04 C16 ...
for p in "$@"; do for x in t u; do
  if [ -f /tmp/wt10/$p/mutations/$x/patch.diff ] && [ ! -d /verif/seeded/$p-$x ]; then
    rm -rf /tmp/muts/$p-$x; cp -r /tmp/wt10/$p/mutations/$x /tmp/muts/$p-$x; echo $p-$x
  fi
done; done | xargs -P 4 -I{} sh -c '/venv/bin/python /verif/tools/verify_seed.py /tmp/muts/{} {} > /tmp/vslog/{}.json 2>&1; /venv/bin/python -c "
import json,sys
t=open(\"/tmp/vslog/{}.json\").read(); r=json.loads(t[t.index(chr(123)):])
print(r[\"name\"], \"CONFIRMED\" if r[\"confirmed\"] else \"NOT\", r.get(\"apply_rc\"), r.get(\"demo_without_rc\"), r.get(\"demo_with_rc\"), r.get(\"stable_failing\",[])[:2])"'
