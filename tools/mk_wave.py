#!/usr/bin/env python3
"""Set up a seeding wave: tools/mk_wave.py <dir> <x1> <x2> <ids...>  - scratch worktrees of /repo HEAD under <dir>/<ID>
(outside /repo and /verif), <dir>/INSTRUCTIONS.md from tools/SEED_INSTRUCTIONS.md and <dir>/<ID>/PROPERTY.txt = the property
text + one-line summaries of every change already in /verif/seeded for it ("ideas already taken"; nothing about the checks).
Each sub-agent is then told only: read <dir>/INSTRUCTIONS.md and <dir>/<ID>/PROPERTY.txt, work in <dir>/<ID>."""
import glob
import json
import os
import subprocess
import sys

HEADER = (
    "IDEAS ALREADY TAKEN by earlier contributors (do NOT repeat these or close variants of them - pick other sites, other "
    "clauses of the property, other mechanisms; the following MECHANISMS are exhausted for every property: a cache / memo of "
    "any kind; a value frozen at import or construction time that goes stale when a documented attribute or config setting "
    "is re-assigned; returning a view of / writing into an array the caller keeps; a narrow numpy integer or a byte-swapped "
    "dtype as argument; a non-contiguous or read-only array as argument):")
FOOTER = (
    "Look especially at clauses of the property that NONE of the ideas above attacks, and at code paths reached only through "
    "rarely used public entry points (other constructors / classmethods, keyword arguments passed through **kwargs, the "
    "deprecated or alternative spellings of an argument, error paths whose exception TYPE matters, behaviour for empty / "
    "single-element / very large inputs, subclasses of ndarray, 0-d arrays, histories of several calls on one object, "
    "interactions between two objects built from the same configuration).")


def main():
    d, x1, x2, ids = sys.argv[1], sys.argv[2], sys.argv[3], sys.argv[4:]
    here = os.path.dirname(os.path.abspath(__file__))
    props = {}
    for line in open(os.path.join(here, "..", "properties.jsonl")):
        p = json.loads(line)
        props[p["id"]] = p
    os.makedirs(d, exist_ok=True)
    ins = open(os.path.join(here, "SEED_INSTRUCTIONS.md")).read().replace("@WT@", d).replace("@X1@", x1).replace("@X2@", x2)
    open(os.path.join(d, "INSTRUCTIONS.md"), "w").write(ins)
    for pid in ids:
        p = props[pid]
        taken = []
        for m in sorted(glob.glob(os.path.join(here, "..", "seeded", pid + "-*", "meta.json"))):
            nm = os.path.basename(os.path.dirname(m))
            if nm.endswith("-r1") or nm.endswith("-r2"):
                continue
            try:
                taken.append("- " + " ".join(json.load(open(m)).get("summary", "").split())[:230])
            except Exception:  # noqa: BLE001
                pass
        w = os.path.join(d, pid)
        if not os.path.isdir(w):
            subprocess.run(["git", "-C", "/repo", "worktree", "add", "-q", "--detach", w, "HEAD"], check=True)
            subprocess.run(["cp", "/repo/src/pydrobert/speech/_version.py", w + "/src/pydrobert/speech/_version.py"])
        open(os.path.join(w, "PROPERTY.txt"), "w").write(
            "Property %s: %s\n\n%s\n\nQuantification: %s\n\n\n%s\n%s\n\n%s\n"
            % (pid, p["title"], p["statement"], p["quantifier"]["text"], HEADER, "\n".join(taken), FOOTER))
        print(pid, len(taken))


if __name__ == "__main__":
    main()
