#!/venv/bin/python
"""Regenerate MANIFEST.json from the table below (kept in one place so that it is
always valid).  Run: /venv/bin/python tools/mkmanifest.py"""
import json, os, sys
ROOT = os.path.dirname(os.path.dirname(os.path.abspath(__file__)))
sys.path.insert(0, ROOT)
from tools.claims import CLAIMS, NOT_APPLICABLE  # noqa

fix_commits = os.popen("git -C /repo log --format=%h --grep='^fix:' 2>/dev/null").read().split()
m = {
    "version": 1,
    "setup_cmd": "./setup.sh",
    "hooks": {
        "guard": "PYDROBERT_SPEECH_VERIF",
        "enable": "no source hooks are needed: the harness wraps methods from outside (PYTHONPATH=/repo/src); the guard name is reserved and exported by the checks",
        "baseline_off_cmd": "cd /repo && env -u PYDROBERT_SPEECH_VERIF /venv/bin/python -m pytest -ra -q -p no:cacheprovider --timeout=900 --continue-on-collection-errors",
        "source_commits": [],
        "add_only": True,
    },
    "engines": [
        {"name": "coq", "path": "/verif/coq", "serves_properties": sorted(CLAIMS), "kind_free_text": "Coq 8.16.1 development: models (hand-written + generated from /repo by /verif/gen), proofs, Props.v per property; built by coq_makefile/make, axioms audited by Print Assumptions"},
        {"name": "harness", "path": "/verif/harness", "serves_properties": sorted(CLAIMS), "kind_free_text": "Python driver: regenerates the model parts, builds the proofs, runs the correspondence (model evaluated by vm_compute / Interval vs implementation) and the failing-input search, writes evidence"},
    ],
    "checks": [],
    "not_applicable": [{"property_id": k, "reason": v} for k, v in sorted(NOT_APPLICABLE.items())],
    "notes": "Machine-checked proof in Coq 8.16.1; see DESIGN.md. fix: commits in /repo: " + " ".join(fix_commits),
}
for pid in sorted(CLAIMS):
    c = CLAIMS[pid]
    m["checks"].append({
        "property_id": pid,
        "quick_cmd": "./check %s --tier quick" % pid,
        "thorough_cmd": "./check %s --tier thorough" % pid,
        "evidence_file": "/verif/evidence/%s.json" % pid,
        "replay_cmd_template": "./check %s --replay {path}" % pid,
        "engine": "coq",
        "level_claimed": {"category": "proof", "text": c["text"], "design_ref": c.get("ref", "DESIGN.md section 4 (%s)" % pid)},
        "level_note": c["note"],
        "technique": c["technique"],
    })
json.dump(m, open(os.path.join(ROOT, "MANIFEST.json"), "w"), indent=1)
print("MANIFEST.json:", len(m["checks"]), "checks,", len(m["not_applicable"]), "not applicable")
