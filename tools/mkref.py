#!/venv/bin/python
"""Refresh coq/ref/*.v: the model parts generated from /repo's CURRENT source, to be committed as the
reference model the checks fall back to when a translator rejects a later version of the source
(harness/common.py, tie_fallback).  Run it only on a tree on which every check passes, and commit the result."""
import os
import shutil
import sys

ROOT = os.path.dirname(os.path.dirname(os.path.abspath(__file__)))
sys.path.insert(0, os.path.join(ROOT, "tools"))
import regen  # noqa: E402

failed = regen.main()
if failed:
    sys.exit("translators failed on this tree (%s): reference not refreshed" % ", ".join(failed))
from harness import common as C  # noqa: E402

os.makedirs(C.REF, exist_ok=True)
for out, _, _ in regen.TRANSLATORS:
    shutil.copy(os.path.join(C.COQ, "gen", out), os.path.join(C.REF, out))
    print("reference", out)
