#!/venv/bin/python
"""Run every translator on /repo's current source (used by setup.sh; each check also regenerates what it
needs).  Never fails: when a translator rejects the source, the committed reference copy coq/ref/<file> is
put in place so that the development stays buildable; the check of the property concerned notices the
rejection itself (harness/common.py, tie_fallback) and enlarges its correspondence."""
import importlib
import os
import shutil
import sys

ROOT = os.path.dirname(os.path.dirname(os.path.abspath(__file__)))
sys.path.insert(0, os.path.join(ROOT, "gen"))
sys.path.insert(0, ROOT)
from harness import common as C  # noqa: E402

S = C.SRC
G = os.path.join(C.COQ, "gen")
os.makedirs(G, exist_ok=True)


def j(*a):
    return os.path.join(*a)


# (output file, translator module, arguments of its main() before the output path, arguments after)
TRANSLATORS = [
    ("Scales.v", "scales", [j(S, "scales.py")]),                       # C19, C05, C06, C07
    ("ReadSignal.v", "readsig", [j(S, "util.py"), j(S, "config.py")]),  # C11
    ("PostC15.v", "post_c15", [j(S, "post.py")]),                      # C15
    ("C10Tool.v", "c10tool", [j(S, "command_line.py")]),               # C10
    ("Shorten.v", "shorten", [j(S, "_sphere.py")]),                    # C13
    ("Sphere.v", "sphere", [j(S, "_sphere.py")]),                      # C12
    ("WinHelp.v", "winhelp", [S]),                                     # C20
    ("Pre.v", "pre", [j(S, "pre.py"), j(S, "torch.py")]),              # C18
    ("StatsIO.v", "stats_io", [S]),                                    # C17
    ("StandardizeK.v", "standardize", [j(S, "post.py")]),              # C16
    ("C08_Registry.v", "registry", [S]),                               # C08
    ("CmdLine.v", "cmdline", [S]),                                     # C09
    ("C07Filters.v", "c07_filters", [j(S, "filters.py"), j(S, "config.py")]),  # C07
    ("C06Index.v", "filters_c06", [j(S, "filters.py")]),               # C06
    ("StftK.v", "stft", [S]),                                          # C01, C02, C04, C14
    ("StftR.v", "stft_scalar", [S]),                                   # C02, C14
    ("SiK.v", "si", [S]),                                              # C03, C01, C04
    ("Banks.v", "banks", [S]),                                         # C05
]


def main():
    failed = []
    for out, modname, args in TRANSLATORS:
        dst = j(G, out)
        try:
            mod = importlib.import_module(modname)
            mod.main(*(args + [dst]))
            print("generated", out)
        except BaseException as e:  # noqa: BLE001 - a translator must never stop the build
            if isinstance(e, KeyboardInterrupt):
                raise
            ref = j(C.REF, out)
            if modname == "standardize":
                try:
                    mod.main(None, dst, fallback=True)
                    print("%s: translator failed (%s); reference kernels written" % (out, e))
                    continue
                except Exception:  # noqa: BLE001
                    pass
            if os.path.exists(ref):
                shutil.copy(ref, dst)
                print("%s: translator failed (%s: %s); reference copy coq/ref/%s put in place" % (out, type(e).__name__, str(e)[:200], out))
            else:
                print("%s: translator failed (%s: %s); no reference copy, file left as it was" % (out, type(e).__name__, str(e)[:200]))
            failed.append(out)
    return failed


if __name__ == "__main__":
    main()
    sys.exit(0)
