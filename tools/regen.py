#!/venv/bin/python
"""Run every translator on /repo's current source (used by setup.sh; each check
also regenerates what it needs)."""
import os, sys
ROOT = os.path.dirname(os.path.dirname(os.path.abspath(__file__)))
sys.path.insert(0, os.path.join(ROOT, "gen"))
sys.path.insert(0, ROOT)
from harness import common as C
import importlib
for name, src, out in [("scales", "scales.py", "Scales.v")]:
    mod = importlib.import_module(name)
    mod.main(os.path.join(C.SRC, src), os.path.join(C.COQ, "gen", out))
    print("generated", out)
# C11: util.py + config.py -> ReadSignal.v
import readsig  # noqa: E402
readsig.main(os.path.join(C.SRC, "util.py"), os.path.join(C.SRC, "config.py"), os.path.join(C.COQ, "gen", "ReadSignal.v"))
print("generated", "ReadSignal.v")
# C15: post.py (Deltas / Stack integer bookkeeping) -> PostC15.v
import post_c15  # noqa: E402
post_c15.main(os.path.join(C.SRC, "post.py"), os.path.join(C.COQ, "gen", "PostC15.v"))
print("generated", "PostC15.v")
# C10: command_line.py (shape of signals_to_torch_feat_dir) -> C10Tool.v
import c10tool  # noqa: E402
c10tool.main(os.path.join(C.SRC, "command_line.py"), os.path.join(C.COQ, "gen", "C10Tool.v"))
print("generated", "C10Tool.v")
# C13: _sphere.py (shorten constants, command sets, initial means, mu-law tables) -> Shorten.v
import shorten  # noqa: E402
shorten.main(os.path.join(C.SRC, "_sphere.py"), os.path.join(C.COQ, "gen", "Shorten.v"))
print("generated", "Shorten.v")
# C12: _sphere.py (G.711 tables, header constants / key dispatch / guards, in_type chain) -> Sphere.v
import sphere  # noqa: E402
sphere.main(os.path.join(C.SRC, "_sphere.py"), os.path.join(C.COQ, "gen", "Sphere.v"))
print("generated", "Sphere.v")
# C20: filters.py (window classes) + util.py (gauss_quant, Hz<->rad, circshift_fourier) -> WinHelp.v
import winhelp  # noqa: E402
winhelp.main(C.SRC, os.path.join(C.COQ, "gen", "WinHelp.v"))
print("generated", "WinHelp.v")
# C18: pre.py (Dither.apply, Preemphasize.apply) + torch.py (functional forms) -> Pre.v
import pre as pre_c18  # noqa: E402
pre_c18.main(os.path.join(C.SRC, "pre.py"), os.path.join(C.SRC, "torch.py"), os.path.join(C.COQ, "gen", "Pre.v"))
print("generated", "Pre.v")
# C17: post.py (Standardize.save / __init__ / _sanitize_stats) + util.py (read_signal dispatch, numpy readers) -> StatsIO.v
import stats_io  # noqa: E402
stats_io.main(C.SRC, os.path.join(C.COQ, "gen", "StatsIO.v"))
print("generated", "StatsIO.v")
# C16: post.py (Standardize accumulate / apply scalar kernels) -> StandardizeK.v
import standardize as standardize_c16  # noqa: E402
try:
    standardize_c16.main(os.path.join(C.SRC, "post.py"), os.path.join(C.COQ, "gen", "StandardizeK.v"))
    print("generated", "StandardizeK.v")
except Exception as e:  # the check itself reports the broken tie; keep the development buildable
    standardize_c16.main(None, os.path.join(C.COQ, "gen", "StandardizeK.v"), fallback=True)
    print("StandardizeK.v: translator failed (%s); reference kernels written" % e)
# C08: all modules (class tree, aliases, constructor parameters, nested alias calls) -> C08_Registry.v
import registry as registry_c08  # noqa: E402
registry_c08.main(C.SRC, os.path.join(C.COQ, "gen", "C08_Registry.v"))
print("generated", "C08_Registry.v")
# C09: command_line.py (kaldi tool seeding/loop/exit status, data set __getitem__, map file loop, manifest key,
# seed choice) + compute.py / torch.py (STFT framing arithmetic) -> CmdLine.v
import cmdline as cmdline_c09  # noqa: E402
try:
    cmdline_c09.main(C.SRC, os.path.join(C.COQ, "gen", "CmdLine.v"))
    print("generated", "CmdLine.v")
except Exception as e:  # ./check C09 reports the broken tie itself; do not stop the other translators
    print("CmdLine.v: translator failed (%s: %s); file left as it was" % (type(e).__name__, e))
# C07: filters.py (flags, supports, impulse/frequency response formulas, gammatone support search) + config.py + util.py -> C07Filters.v
import c07_filters  # noqa: E402
try:
    c07_filters.main(os.path.join(C.SRC, "filters.py"), os.path.join(C.SRC, "config.py"), os.path.join(C.COQ, "gen", "C07Filters.v"))
    print("generated", "C07Filters.v")
except Exception as e:  # ./check C07 reports the broken tie itself; do not stop the other translators
    print("C07Filters.v: translator failed (%s: %s); file left as it was" % (type(e).__name__, e))
# C06: filters.py (index arithmetic of get_frequency_response / get_truncated_response of the four banks) -> C06Index.v
import filters_c06  # noqa: E402
try:
    filters_c06.main(os.path.join(C.SRC, "filters.py"), os.path.join(C.COQ, "gen", "C06Index.v"))
    print("generated", "C06Index.v")
except Exception as e:  # ./check C06 reports the broken tie itself; do not stop the other translators
    print("C06Index.v: translator failed (%s: %s); file left as it was" % (type(e).__name__, e))
# C01/C02/C04/C14: compute.py + torch.py (STFT integer bookkeeping) -> StftK.v
import stft as gen_stft  # noqa: E402
gen_stft.main(C.SRC, os.path.join(C.COQ, "gen", "StftK.v"))
print("generated", "StftK.v")
# C02/C14: compute.py + torch.py (energy block, per-filter post-processing, log floor, DFT size) -> StftR.v
import stft_scalar  # noqa: E402
try:
    stft_scalar.main(C.SRC, os.path.join(C.COQ, "gen", "StftR.v"))
    print("generated", "StftR.v")
except Exception as e:  # ./check C02 / C14 report the broken tie themselves
    print("StftR.v: translator failed (%s: %s); file left as it was" % (type(e).__name__, e))
# C03 (+ SI halves of C01/C04): compute.py (short-integration integer bookkeeping) -> SiK.v
import si as gen_si  # noqa: E402
gen_si.main(C.SRC, os.path.join(C.COQ, "gen", "SiK.v"))
print("generated", "SiK.v")
# C05: filters.py (range tests, vertices / edges, Gabor sigma, gammatone alpha / c, supports, per-bin values)
# + util.py (Hz<->rad) + config.py (support threshold) -> Banks.v
import banks as banks_c05  # noqa: E402
try:
    banks_c05.main(C.SRC, os.path.join(C.COQ, "gen", "Banks.v"))
    print("generated", "Banks.v")
except Exception as e:  # ./check C05 reports the broken tie itself; do not stop the other translators
    print("Banks.v: translator failed (%s: %s); file left as it was" % (type(e).__name__, e))
