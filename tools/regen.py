#!/venv/bin/python
"""Run every translator on /repo's current source (used by setup.sh; each check
also regenerates what it needs)."""
import os, sys
ROOT = os.path.dirname(os.path.dirname(os.path.abspath(__file__)))
sys.path.insert(0, os.path.join(ROOT, "gen"))
sys.path.insert(0, ROOT)
from harness import common as C
import importlib
for name, src, out in [("scales", "scales.py", "Scales.v")]:
    mod = importlib.import_module(name)
    mod.main(os.path.join(C.SRC, src), os.path.join(C.COQ, "gen", out))
    print("generated", out)
# C11: util.py + config.py -> ReadSignal.v
import readsig  # noqa: E402
readsig.main(os.path.join(C.SRC, "util.py"), os.path.join(C.SRC, "config.py"), os.path.join(C.COQ, "gen", "ReadSignal.v"))
print("generated", "ReadSignal.v")
# C15: post.py (Deltas / Stack integer bookkeeping) -> PostC15.v
import post_c15  # noqa: E402
post_c15.main(os.path.join(C.SRC, "post.py"), os.path.join(C.COQ, "gen", "PostC15.v"))
print("generated", "PostC15.v")
# C10: command_line.py (shape of signals_to_torch_feat_dir) -> C10Tool.v
import c10tool  # noqa: E402
c10tool.main(os.path.join(C.SRC, "command_line.py"), os.path.join(C.COQ, "gen", "C10Tool.v"))
print("generated", "C10Tool.v")
