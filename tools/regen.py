#!/venv/bin/python
"""Run every translator on /repo's current source (used by setup.sh; each check
also regenerates what it needs)."""
import os, sys
ROOT = os.path.dirname(os.path.dirname(os.path.abspath(__file__)))
sys.path.insert(0, os.path.join(ROOT, "gen"))
sys.path.insert(0, ROOT)
from harness import common as C
import importlib
for name, src, out in [("scales", "scales.py", "Scales.v")]:
    mod = importlib.import_module(name)
    mod.main(os.path.join(C.SRC, src), os.path.join(C.COQ, "gen", out))
    print("generated", out)
# C11: util.py + config.py -> ReadSignal.v
import readsig  # noqa: E402
readsig.main(os.path.join(C.SRC, "util.py"), os.path.join(C.SRC, "config.py"), os.path.join(C.COQ, "gen", "ReadSignal.v"))
print("generated", "ReadSignal.v")
