#!/venv/bin/python
"""Run the checks against every confirmed seeded change: apply it to /repo
(git apply), run the property's quick check (plus any extra checks named on the
command line as Cxx=Cyy,Czz), undo (git checkout -- .), record what was reported.
usage: seed_matrix.py [seeded_dir] [name ...]      -> seeded/RESULTS.json + RESULTS.md
"""
import json
import os
import re
import subprocess
import sys
import time

ROOT = os.path.dirname(os.path.dirname(os.path.abspath(__file__)))
REPO = os.environ.get("VERIF_REPO", "/repo")  # an isolated worktree when run by seed_matrix_par.py
EXTRA = {"C01-b": ["C04"], "C02-a": ["C14"], "C02-b": ["C01"], "C14-a": ["C02"], "C14-b": ["C02", "C09"], "C09-a": ["C14"],
         "C04-a": ["C01"], "C04-b": ["C01", "C03"], "C03-a": ["C01"], "C03-b": ["C01"], "C05-b": ["C06"], "C06-a": ["C05"],
         "C07-b": ["C05"], "C10-b": ["C09"], "C09-b": ["C10"], "C13-a": ["C12"], "C12-b": ["C13"]}


def sh(cmd, timeout=3600):
    p = subprocess.run(cmd, shell=True, stdout=subprocess.PIPE, stderr=subprocess.STDOUT, text=True, timeout=timeout)
    return p.returncode, p.stdout


def main():
    sd = sys.argv[1] if len(sys.argv) > 1 and os.path.isdir(sys.argv[1]) else os.path.join(ROOT, "seeded")
    names = [a for a in sys.argv[2:]] or sorted(n for n in os.listdir(sd) if os.path.isdir(os.path.join(sd, n)))
    if "--table-only" in names:
        names = []
    resf = os.environ.get("SEED_RESULTS") or os.path.join(sd, "RESULTS.json")
    results = json.load(open(resf)) if os.path.exists(resf) else {}
    rc, out = sh("git -C %s status --short" % REPO)
    assert not out.strip(), REPO + " is not clean: " + out
    for name in names:
        if name.startswith("CLEAN-"):
            # no change applied: the check must stay silent (recorded, not part of the table)
            c = name.split("-")[1]
            t0 = time.time()
            tier = "thorough" if name.startswith("CLEAN-T-") else "quick"
            if tier == "thorough":
                c = name.split("-")[2]
            rc, out = sh("cd %s && ./check %s --tier %s" % (ROOT, c, tier), timeout=6 * 3600)
            viol = [l for l in out.split("\n") if l.startswith("VIOLATION") or "FAIL[" in l]
            results[name] = dict(clean=True, exit=rc, alarms=viol[:5], wall_s=round(time.time() - t0))
            print(name, "exit", rc, viol[:2], flush=True)
            json.dump(results, open(resf, "w"), indent=1)
            continue
        patch = os.path.join(sd, name, "patch.diff")
        rc, out = sh("git -C %s apply --check %s" % (REPO, patch))
        if rc:
            results[name] = dict(applies=False, note=out.strip()[-300:])
            print(name, "DOES NOT APPLY")
            continue
        pid = name.split("-")[0]
        checks = [pid] + EXTRA.get(name, [])
        entry = dict(applies=True, checks={})
        try:
            sh("git -C %s apply %s" % (REPO, patch))
            for c in checks:
                t0 = time.time()
                rc, out = sh("cd %s && ./check %s --tier quick" % (ROOT, c))
                viol = [l for l in out.split("\n") if l.startswith("VIOLATION")]
                fails = [l for l in out.split("\n") if "FAIL[" in l][:3]
                entry["checks"][c] = dict(exit=rc, violation=bool(viol), no_failing_input=any("no-failing-input-found" in v for v in viol),
                                          first_failures=[re.sub(r"^\[[^\]]*\]\s*", "", f)[:220] for f in fails], wall_s=round(time.time() - t0))
                print(name, c, "exit", rc, "VIOLATION" if viol else "-", (fails[:1] or [""])[0][:150], flush=True)
        finally:
            sh("git -C %s checkout -- ." % REPO)
        results[name] = entry
        json.dump(results, open(resf, "w"), indent=1)
    # restore generated files / evidence to the unchanged tree's
    lines = ["| seeded change | breaks | what it needs | caught by (quick check) | how |", "|---|---|---|---|---|"]
    for name in sorted(results):
        e = results[name]
        if e.get("clean"):
            continue
        meta = {}
        try:
            meta = json.load(open(os.path.join(sd, name, "meta.json")))
        except Exception:
            pass
        if not e.get("applies"):
            lines.append("| %s | %s | | patch no longer applies | |" % (name, name.split("-")[0]))
            continue
        caught = [c for c, r in e["checks"].items() if r["violation"]]
        how = "; ".join("%s: %s" % (c, (e["checks"][c]["first_failures"] or ["?"])[0][:110]) for c in caught)
        missed = [c for c, r in e["checks"].items() if not r["violation"]]
        lines.append("| %s | %s | %s | %s%s | %s |" % (name, name.split("-")[0], str(meta.get("needs", ""))[:160].replace("|", "/").replace("\n", " "),
                                                   ", ".join(caught) or "**MISSED**", (" (not by " + ", ".join(missed) + ")") if missed and caught else "", how.replace("|", "/")))
    open(os.path.join(sd, "RESULTS.md"), "w").write("\n".join(lines) + "\n")
    print("\n".join(lines))


if __name__ == "__main__":
    main()
