#!/venv/bin/python
"""Run tools/seed_matrix.py for many seeded changes in parallel, each worker in an
isolated copy of /verif (with its build output) and its own worktree of /repo HEAD
(VERIF_REPO), so that /repo and /verif are never touched and can be edited meanwhile.
usage: seed_matrix_par.py <workers> [name ...]   (default names: every seeded/<name> not yet in RESULTS.json)
Scratch copies live under /tmp/vmx/<k>/ and are removed at the end; results are merged
into seeded/RESULTS.json and RESULTS.md is rewritten by a final call of seed_matrix.py.
"""
import json
import os
import shutil
import subprocess
import sys

ROOT = os.path.dirname(os.path.dirname(os.path.abspath(__file__)))
SCR = "/tmp/vmx"


def sh(cmd, **kw):
    return subprocess.run(cmd, shell=True, stdout=subprocess.PIPE, stderr=subprocess.STDOUT, text=True, **kw)


def main():
    w = int(sys.argv[1])
    sd = os.path.join(ROOT, "seeded")
    resf = os.path.join(sd, "RESULTS.json")
    results = json.load(open(resf)) if os.path.exists(resf) else {}
    names = sys.argv[2:] or sorted(n for n in os.listdir(sd) if os.path.isdir(os.path.join(sd, n)) and n not in results)
    if not names:
        print("nothing to do")
        return
    w = min(w, len(names))
    procs = []
    for k in range(w):
        d = "%s/%d" % (SCR, k)
        sh("git -C /repo worktree remove --force %s/repo" % d)
        shutil.rmtree(d, ignore_errors=True)
        os.makedirs(d)
        r = sh("rsync -a --exclude .git --exclude replay --exclude 'build/*/' %s/ %s/verif/" % (ROOT, d))
        assert r.returncode == 0, r.stdout
        r = sh("git -C /repo worktree add -q --detach %s/repo HEAD" % d)
        assert r.returncode == 0, r.stdout
        shutil.copy("/repo/src/pydrobert/speech/_version.py", d + "/repo/src/pydrobert/speech/_version.py")
        sh("cd %s/repo && git update-index --assume-unchanged src/pydrobert/speech/_version.py" % d)
        mine = names[k::w]
        if not mine:
            continue
        env = dict(os.environ, VERIF_REPO=d + "/repo", SEED_RESULTS=d + "/results.json")
        log = open(d + "/log", "w")
        procs.append((k, mine, subprocess.Popen(["/venv/bin/python", d + "/verif/tools/seed_matrix.py", d + "/verif/seeded"] + mine,
                                                env=env, stdout=log, stderr=subprocess.STDOUT)))
        print("worker", k, mine, flush=True)
    for k, mine, p in procs:
        p.wait()
        d = "%s/%d" % (SCR, k)
        try:
            part = json.load(open(d + "/results.json"))
        except Exception as e:
            print("worker", k, "left no results:", e)
            part = {}
        results = json.load(open(resf)) if os.path.exists(resf) else {}
        for n in mine:
            if n in part:
                results[n] = part[n]
        json.dump(results, open(resf, "w"), indent=1)
        keep = os.path.join(ROOT, "build", "matrix_logs")
        os.makedirs(keep, exist_ok=True)
        shutil.copy(d + "/log", keep + "/worker%d.log" % k)
        # replays written by the failing checks are worth keeping for inspection
        sh("mkdir -p %s/replay_%d && cp -r %s/verif/replay/. %s/replay_%d/ 2>/dev/null" % (keep, k, d, keep, k))
        sh("git -C /repo worktree remove --force %s/repo" % d)
        shutil.rmtree(d, ignore_errors=True)
    sh("git -C /repo worktree prune")
    # rewrite RESULTS.md from the merged json (no names -> no checks are run)
    r = sh("/venv/bin/python %s/tools/seed_matrix.py %s --table-only" % (ROOT, sd))
    print(r.stdout[-3000:])


if __name__ == "__main__":
    main()
