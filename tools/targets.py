#!/venv/bin/python
"""make targets needed by the claimed checks (their Props.vo closure + shared glue)."""
import os, sys
ROOT = os.path.dirname(os.path.dirname(os.path.abspath(__file__)))
sys.path.insert(0, ROOT)
from tools.claims import CLAIMS
extra = {"C01": ["Stft/Exec.vo"], "C02": ["Stft/Exec.vo"], "C04": ["Stft/Exec.vo"], "C19": ["lib/Cert.vo"]}
t = []
for pid in sorted(CLAIMS):
    if os.path.exists(os.path.join(ROOT, "coq", pid, "Props.v")):
        t.append("%s/Props.vo" % pid)
    for e in extra.get(pid, []) + CLAIMS[pid].get("targets", []):
        if e not in t:
            t.append(e)
print(" ".join(t))
