#!/bin/sh
# usage: tools/try_patch.sh <patch.diff> <check id>...   -- apply to /repo, run checks, always undo
P="$1"; shift
git -C /repo apply "$P" || { echo "PATCH DOES NOT APPLY"; exit 2; }
for id in "$@"; do ( cd /verif && ./check $id 2>&1 | tail -4 ); done
git -C /repo checkout -- .
git -C /repo status --short | head -3
