#!/bin/sh
# usage: tools/try_patch_iso.sh <patch.diff> <check id>...  -- like try_patch.sh but never touches /repo:
# the patch is applied to a scratch worktree of /repo HEAD and the checks run with VERIF_REPO pointing at it.
# (the evidence file of each check is saved before and restored after the patched run)
P="$1"; shift
W=/tmp/tp_$$/repo
mkdir -p /tmp/tp_$$
git -C /repo worktree add -q --detach $W HEAD || exit 2
cp /repo/src/pydrobert/speech/_version.py $W/src/pydrobert/speech/_version.py
git -C $W apply "$P" || { echo "PATCH DOES NOT APPLY"; git -C /repo worktree remove --force $W; exit 2; }
for id in "$@"; do ( cd /verif && cp evidence/$id.json /tmp/tp_$$/$id.evidence.json 2>/dev/null; VERIF_REPO=$W ./check $id 2>&1 | tail -4; cp /tmp/tp_$$/$id.evidence.json evidence/$id.json 2>/dev/null; rm -f /tmp/tp_$$/$id.evidence.json ); done
git -C /repo worktree remove --force $W; rmdir /tmp/tp_$$ 2>/dev/null
