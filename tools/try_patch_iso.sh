#!/bin/sh
# usage: tools/try_patch_iso.sh <patch.diff> <check id>...  -- like try_patch.sh but never touches /repo:
# the patch is applied to a scratch worktree of /repo HEAD and the checks run with VERIF_REPO pointing at it.
# (the evidence file of each check is rewritten by the patched run: re-run the check on /repo afterwards)
P="$1"; shift
W=/tmp/tp_$$/repo
mkdir -p /tmp/tp_$$
git -C /repo worktree add -q --detach $W HEAD || exit 2
cp /repo/src/pydrobert/speech/_version.py $W/src/pydrobert/speech/_version.py
git -C $W apply "$P" || { echo "PATCH DOES NOT APPLY"; git -C /repo worktree remove --force $W; exit 2; }
for id in "$@"; do ( cd /verif && VERIF_REPO=$W ./check $id 2>&1 | tail -4 ); done
git -C /repo worktree remove --force $W; rmdir /tmp/tp_$$ 2>/dev/null
