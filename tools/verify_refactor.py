#!/venv/bin/python
"""Confirm a candidate HARMLESS rewrite: applies on a fresh worktree of /repo HEAD, keeps the existing
suite's results, and its equivalence script prints the same DIGEST without and with the change.
usage: verify_refactor.py <src_dir with patch.diff equiv.py meta.json> <name>   -> /verif/seeded/<name>/
(kept next to the seeded defects; meta.json gets "kind": "harmless": the checks must stay SILENT on these)
"""
import json, os, re, shutil, subprocess, sys, xml.etree.ElementTree as ET

def sh(cmd, cwd=None, env=None, timeout=1800):
    e = dict(os.environ); e.update(env or {})
    p = subprocess.run(cmd, shell=True, cwd=cwd, env=e, stdout=subprocess.PIPE, stderr=subprocess.STDOUT, text=True, timeout=timeout)
    return p.returncode, p.stdout

def digest(out):
    m = re.findall(r"^DIGEST\s+([0-9a-f]+)\s*$", out, re.M)
    return m[-1] if m else None

def main(src, name):
    wt = "/tmp/vr/" + name
    os.makedirs("/tmp/vr", exist_ok=True)
    sh("git -C /repo worktree remove --force %s" % wt)
    rc, out = sh("git -C /repo worktree add -q --detach %s HEAD" % wt)
    assert rc == 0, out
    res = dict(name=name)
    try:
        shutil.copy("/repo/src/pydrobert/speech/_version.py", wt + "/src/pydrobert/speech/_version.py")
        env = {"PYTHONPATH": wt + "/src", "PYTHONHASHSEED": "0"}
        # the script may locate tests/ relative to its own place in the worktree: run a copy from mutations/<x>/
        os.makedirs(wt + "/mutations/rx", exist_ok=True)
        shutil.copy(os.path.join(src, "equiv.py"), wt + "/mutations/rx/equiv.py")
        eq = wt + "/mutations/rx/equiv.py"
        rc0, out0 = sh("/venv/bin/python %s" % eq, cwd=wt, env=env)
        res["digest_without"] = digest(out0); res["equiv_without_rc"] = rc0
        rc, out = sh("git apply %s" % os.path.join(src, "patch.diff"), cwd=wt)
        res["apply_rc"] = rc; res["apply_out"] = out[-300:]
        if rc == 0:
            rc, out = sh("/venv/bin/python -m pytest -q -p no:cacheprovider --timeout=900 --continue-on-collection-errors --junitxml=%s/junit.xml" % wt, cwd=wt, env=env)
            res["tests_tail"] = out.strip().split("\n")[-1]
            base = set(json.load(open("/root/.vp/BASELINE.json"))["stable_pass"])
            ok = {}
            for tc in ET.parse(wt + "/junit.xml").iter("testcase"):
                ok[tc.get("classname") + "::" + tc.get("name")] = not any(c.tag in ("failure", "error", "skipped") for c in tc)
            res["stable_failing"] = sorted(n for n in base if not ok.get(n))
            rc1, out1 = sh("/venv/bin/python %s" % eq, cwd=wt, env=env)
            res["digest_with"] = digest(out1); res["equiv_with_rc"] = rc1
        res["confirmed"] = bool(res.get("apply_rc") == 0 and res.get("digest_without") and res.get("digest_without") == res.get("digest_with")
                                and not res.get("stable_failing"))
    finally:
        sh("git -C /repo worktree remove --force %s" % wt)
    if res["confirmed"]:
        dst = os.environ.get("SEED_DST", "/verif/seeded") + "/" + name
        os.makedirs(dst, exist_ok=True)
        shutil.copy(os.path.join(src, "patch.diff"), dst); shutil.copy(os.path.join(src, "equiv.py"), dst)
        try: meta = json.load(open(os.path.join(src, "meta.json")))
        except Exception as e: meta = {"meta_error": str(e)}
        meta["kind"] = "harmless"
        meta["confirmation"] = dict(ran="tools/verify_refactor.py: fresh worktree of /repo HEAD; equiv.py digest %s without and with the patch; full suite (all 752 baseline-stable tests still pass: %s)" % (res["digest_with"][:16], res["tests_tail"]))
        json.dump(meta, open(os.path.join(dst, "meta.json"), "w"), indent=1)
    print(json.dumps(res, indent=1))
    return 0 if res["confirmed"] else 1

if __name__ == "__main__":
    sys.exit(main(sys.argv[1], sys.argv[2]))
