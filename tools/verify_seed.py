#!/venv/bin/python
"""Confirm a candidate seeded change: applies on a fresh worktree of /repo HEAD,
keeps the existing suite's results, its demo passes without and fails with it.
usage: verify_seed.py <src_dir with patch.diff demo.py meta.json> <name>   -> /verif/seeded/<name>/
"""
import json, os, shutil, subprocess, sys, xml.etree.ElementTree as ET

def sh(cmd, cwd=None, env=None, timeout=1800):
    e = dict(os.environ); e.update(env or {})
    p = subprocess.run(cmd, shell=True, cwd=cwd, env=e, stdout=subprocess.PIPE, stderr=subprocess.STDOUT, text=True, timeout=timeout)
    return p.returncode, p.stdout

def main(src, name):
    wt = "/tmp/vs/" + name
    os.makedirs("/tmp/vs", exist_ok=True)
    sh("git -C /repo worktree remove --force %s" % wt)
    rc, out = sh("git -C /repo worktree add -q --detach %s HEAD" % wt)
    assert rc == 0, out
    res = dict(name=name)
    try:
        shutil.copy("/repo/src/pydrobert/speech/_version.py", wt + "/src/pydrobert/speech/_version.py")
        env = {"PYTHONPATH": wt + "/src", "PYTHONHASHSEED": "0"}
        demo = os.path.join(src, "demo.py")
        rc0, out0 = sh("/venv/bin/python %s" % demo, cwd=wt, env=env)
        res["demo_without_rc"] = rc0; res["demo_without_tail"] = out0[-300:]
        rc, out = sh("git apply %s" % os.path.join(src, "patch.diff"), cwd=wt)
        res["apply_rc"] = rc; res["apply_out"] = out[-300:]
        if rc == 0:
            rc, out = sh("/venv/bin/python -m pytest -q -p no:cacheprovider --timeout=900 --continue-on-collection-errors --junitxml=%s/junit.xml" % wt, cwd=wt, env=env)
            res["tests_tail"] = out.strip().split("\n")[-1]
            base = set(json.load(open("/root/.vp/BASELINE.json"))["stable_pass"])
            ok = {}
            for tc in ET.parse(wt + "/junit.xml").iter("testcase"):
                ok[tc.get("classname") + "::" + tc.get("name")] = not any(c.tag in ("failure", "error", "skipped") for c in tc)
            res["stable_failing"] = sorted(n for n in base if not ok.get(n))
            rc1, out1 = sh("/venv/bin/python %s" % demo, cwd=wt, env=env)
            res["demo_with_rc"] = rc1; res["demo_with_tail"] = out1[-400:]
        res["confirmed"] = bool(res.get("apply_rc") == 0 and rc0 == 0 and res.get("demo_with_rc", 0) != 0 and not res.get("stable_failing"))
    finally:
        sh("git -C /repo worktree remove --force %s" % wt)
    if res["confirmed"]:
        dst = os.environ.get("SEED_DST", "/verif/seeded") + "/" + name
        os.makedirs(dst, exist_ok=True)
        shutil.copy(os.path.join(src, "patch.diff"), dst); shutil.copy(demo, dst)
        meta = {}
        try: meta = json.load(open(os.path.join(src, "meta.json")))
        except Exception as e: meta = {"meta_error": str(e)}
        meta["confirmation"] = dict(ran="tools/verify_seed.py: fresh worktree of /repo HEAD; demo without patch exit %d; git apply; full suite (all 752 baseline-stable tests still pass: %s); demo with patch exit %d" % (rc0, res["tests_tail"], res["demo_with_rc"]))
        json.dump(meta, open(os.path.join(dst, "meta.json"), "w"), indent=1)
    print(json.dumps(res, indent=1))
    return 0 if res["confirmed"] else 1

if __name__ == "__main__":
    sys.exit(main(sys.argv[1], sys.argv[2]))
